//go:build verif

package gjkr

// Shared conformance harness for C01 (agreement) and C02 (share consistency).
//
// A behaviour of specs/Gjkr (adversary messages, delivery orders and the view
// every honest member must have after every step) is replayed on the real
// protocol objects of this package:
//
//   - every honest member is a real member driven through the real states of
//     states.go (Initiate / Receive / Next) with a collecting broadcast channel,
//     exactly in the order state.SyncMachine uses (Initiate of a state happens
//     before any message of that state is received);
//   - the corrupt members are played by the harness: it owns their ephemeral
//     keys and polynomials and builds every message the specification
//     prescribes with real cryptography (real ECDH keys, ciphertexts, Pedersen
//     commitments and bn256 points);
//   - every message goes through Marshal/Unmarshal, one fresh copy per receiver.
//
// Abstraction function (symbolic value -> real value), injective on the values
// used:
//
//	share "ok"      ciphertext of (f(j), g(j)) under ECDH(sender->j, j->sender)
//	share "bad"     ciphertext of (f(j)+1, g(j)) under the same key
//	share "badt"    ciphertext of (f(j), g(j)+1) under the same key
//	share "undec"   random bytes
//	share "absent"  no map entry
//	commits "ok"    T+1 Pedersen commitments to f/g; "wrong": the last one dropped
//	points okFor=S  coefficients of f + r*PROD_{i in S}(x-i) times G2 (S = all: f)
//	points "wrong"  the last point dropped
//	key ok / wrong  the ephemeral private key generated for that member / a fresh key
//	eph "missing"   the key for the lowest other member removed
//	eph "selfkey"   an additional key for the sender itself
//	claim != from   senderID of another seat, transport key of the real sender
//	sess = false    another session id
import (
	"context"
	crand "crypto/rand"
	"encoding/hex"
	"fmt"
	"math/big"
	"math/rand"
	"sort"
	"strings"
	"testing"

	bn256 "github.com/ethereum/go-ethereum/crypto/bn256/cloudflare"
	kit "github.com/keep-network/keep-core/internal/verifkit"
	"github.com/keep-network/keep-core/internal/testutils"
	"github.com/keep-network/keep-core/pkg/chain"
	"github.com/keep-network/keep-core/pkg/chain/local_v1"
	"github.com/keep-network/keep-core/pkg/crypto/ephemeral"
	"github.com/keep-network/keep-core/pkg/net"
	"github.com/keep-network/keep-core/pkg/operator"
	"github.com/keep-network/keep-core/pkg/protocol/group"
	"github.com/keep-network/keep-core/pkg/protocol/state"
)

const vSession = "verif-session"

// ---------------------------------------------------------------- plumbing

type vchan struct{ sent []net.TaggedMarshaler }

func (c *vchan) Name() string { return "verif" }
func (c *vchan) Send(_ context.Context, m net.TaggedMarshaler, _ ...net.RetransmissionStrategy) error {
	c.sent = append(c.sent, m)
	return nil
}
func (c *vchan) Recv(context.Context, func(net.Message))          {}
func (c *vchan) SetUnmarshaler(func() net.TaggedUnmarshaler)        {}
func (c *vchan) SetFilter(net.BroadcastChannelFilter) error         { return nil }

type vmsg struct {
	payload interface{}
	pub     []byte
	typ     string
}

func (m *vmsg) TransportSenderID() net.TransportIdentifier { return nil }
func (m *vmsg) SenderPublicKey() []byte                    { return m.pub }
func (m *vmsg) Payload() interface{}                       { return m.payload }
func (m *vmsg) Type() string                               { return m.typ }
func (m *vmsg) Seqno() uint64                              { return 0 }

// wire is a message on the (simulated) broadcast channel.
type wire struct {
	from int // seat whose operator key authenticates the message
	kind string
	typ  string
	data []byte
}

func kindOf(m net.TaggedMarshaler) string {
	switch m.(type) {
	case *EphemeralPublicKeyMessage:
		return "eph"
	case *PeerSharesMessage:
		return "shares"
	case *MemberCommitmentsMessage:
		return "commits"
	case *SecretSharesAccusationsMessage:
		return "acc4"
	case *MemberPublicKeySharePointsMessage:
		return "pts"
	case *PointsAccusationsMessage:
		return "acc8"
	case *MisbehavedEphemeralKeysMessage:
		return "rev"
	}
	return "?"
}

func freshPayload(kind string) net.TaggedUnmarshaler {
	switch kind {
	case "eph":
		return &EphemeralPublicKeyMessage{}
	case "shares":
		return &PeerSharesMessage{}
	case "commits":
		return &MemberCommitmentsMessage{}
	case "acc4":
		return &SecretSharesAccusationsMessage{}
	case "pts":
		return &MemberPublicKeySharePointsMessage{}
	case "acc8":
		return &PointsAccusationsMessage{}
	case "rev":
		return &MisbehavedEphemeralKeysMessage{}
	}
	return nil
}

func toWire(from int, m net.TaggedMarshaler) (wire, error) {
	b, err := m.Marshal()
	if err != nil {
		return wire{}, err
	}
	return wire{from: from, kind: kindOf(m), typ: m.Type(), data: b}, nil
}

// ---------------------------------------------------------------- environment

type venv struct {
	signing chain.Signing
}

func newEnv() *venv {
	lc := local_v1.Connect(5, 3)
	return &venv{signing: lc.Signing()}
}

// ---------------------------------------------------------------- adversary

type advMember struct {
	id   int
	kp   map[int]*ephemeral.KeyPair // key pair generated for member j (incl. self)
	f, g []*big.Int
}

func randScalar() *big.Int {
	for {
		c, err := crand.Int(crand.Reader, bn256.Order)
		if err != nil {
			panic(err)
		}
		if c.Sign() > 0 {
			return c
		}
	}
}

func polyEval(co []*big.Int, x int) *big.Int {
	r := big.NewInt(0)
	xx := big.NewInt(int64(x))
	for k := len(co) - 1; k >= 0; k-- {
		r.Mul(r, xx)
		r.Add(r, co[k])
		r.Mod(r, bn256.Order)
	}
	return r
}

// ---------------------------------------------------------------- one run

type vrun struct {
	t       testing.TB
	env     *venv
	n, th   int
	corrupt map[int]bool
	honest  []int
	opPub   map[int][]byte
	cur     map[int]state.SyncState
	ch      map[int]*vchan
	aborted map[int]error
	started map[int]bool
	adv     map[int]*advMember
	ephPub  map[int]map[int]*ephemeral.PublicKey // ephPub[j][c]: key generated by j for c
	out     map[int][]wire
	rnd     *rand.Rand
	h       *big.Int // not used by the harness; protocol parameter seed
	params  *protocolParameters
	results map[int]*Result
}

func newRun(t testing.TB, env *venv, n, th int, corrupt []int, rnd *rand.Rand) *vrun {
	r := &vrun{t: t, env: env, n: n, th: th, corrupt: map[int]bool{}, opPub: map[int][]byte{},
		cur: map[int]state.SyncState{}, ch: map[int]*vchan{}, aborted: map[int]error{},
		started: map[int]bool{}, adv: map[int]*advMember{}, ephPub: map[int]map[int]*ephemeral.PublicKey{},
		out: map[int][]wire{}, rnd: rnd, results: map[int]*Result{}}
	for _, c := range corrupt {
		r.corrupt[c] = true
	}
	addrs := make([]chain.Address, n)
	for i := 1; i <= n; i++ {
		_, pub, err := operator.GenerateKeyPair(local_v1.DefaultCurve)
		if err != nil {
			t.Fatalf("operator key: %v", err)
		}
		a, err := env.signing.PublicKeyToAddress(pub)
		if err != nil {
			t.Fatalf("operator address: %v", err)
		}
		addrs[i-1] = a
		r.opPub[i] = operator.MarshalUncompressed(pub)
	}
	seed := big.NewInt(18313131145)
	r.params = newProtocolParameters(seed)
	for i := 1; i <= n; i++ {
		if r.corrupt[i] {
			am := &advMember{id: i, kp: map[int]*ephemeral.KeyPair{}}
			for j := 1; j <= n; j++ {
				kp, err := ephemeral.GenerateKeyPair()
				if err != nil {
					t.Fatalf("eph key: %v", err)
				}
				am.kp[j] = kp
			}
			for k := 0; k <= th; k++ {
				am.f = append(am.f, randScalar())
				am.g = append(am.g, randScalar())
			}
			r.adv[i] = am
			r.ephPub[i] = map[int]*ephemeral.PublicKey{}
			for j := 1; j <= n; j++ {
				r.ephPub[i][j] = am.kp[j].PublicKey
			}
			continue
		}
		r.honest = append(r.honest, i)
		validator := group.NewMembershipValidator(&testutils.MockLogger{}, addrs, env.signing)
		m, err := NewMember(&testutils.MockLogger{}, group.MemberIndex(i), n, th, validator, seed, vSession)
		if err != nil {
			t.Fatalf("NewMember: %v", err)
		}
		r.ch[i] = &vchan{}
		r.cur[i] = &ephemeralKeyPairGenerationState{channel: r.ch[i], member: m.InitializeEphemeralKeysGeneration()}
	}
	return r
}

// initiate runs the Initiate of the next protocol state of honest member h (the
// first call initiates state 1). Returns the error Initiate (or Next) returned.
func (r *vrun) initiate(h int) error {
	if r.aborted[h] != nil {
		return r.aborted[h]
	}
	if r.started[h] {
		next, err := r.cur[h].Next()
		if err != nil {
			r.aborted[h] = err
			return err
		}
		if next == nil {
			r.t.Fatalf("member %d: no next state after %T", h, r.cur[h])
		}
		r.cur[h] = next
	}
	r.started[h] = true
	r.ch[h].sent = nil
	err := r.cur[h].Initiate(context.Background())
	r.out[h] = nil
	if err != nil {
		r.aborted[h] = err
		return err
	}
	for _, m := range r.ch[h].sent {
		w, err := toWire(h, m)
		if err != nil {
			r.t.Fatalf("member %d: marshal %T: %v", h, m, err)
		}
		r.out[h] = append(r.out[h], w)
		if e, ok := m.(*EphemeralPublicKeyMessage); ok {
			r.ephPub[h] = map[int]*ephemeral.PublicKey{}
			for j, k := range e.ephemeralPublicKeys {
				r.ephPub[h][int(j)] = k
			}
		}
	}
	return nil
}

// nilShareHazard reports whether ComputeGroupPublicKeyShares of member h would
// multiply the generator by a nil share (protocol.go: shares.peerSharesS[operatingMemberID]).
func (r *vrun) nilShareHazard(h int) (int, int, bool) {
	s, ok := r.cur[h].(*reconstructionState)
	if !ok {
		return 0, 0, false
	}
	m := s.member
	for q := range m.receivedQualifiedSharesS {
		if _, ok := m.receivedValidPeerPublicKeySharePoints[q]; ok {
			continue
		}
		for _, sh := range m.revealedMisbehavedMembersShares {
			if sh.misbehavedMemberID != q {
				continue
			}
			for _, o := range m.group.OperatingMemberIndexes() {
				if o != m.ID && sh.peerSharesS[o] == nil {
					return int(q), int(o), true
				}
			}
		}
	}
	return 0, 0, false
}

// finish moves a member from the combination state to the finalization state
// and collects its result.
func (r *vrun) finish(h int) {
	if r.aborted[h] != nil {
		return
	}
	next, err := r.cur[h].Next()
	if err != nil {
		r.aborted[h] = err
		return
	}
	fs, ok := next.(*finalizationState)
	if !ok {
		r.t.Fatalf("member %d: expected finalization state, got %T", h, next)
	}
	r.cur[h] = fs
	r.results[h] = fs.result()
}

// deliver hands the messages of the current message state to honest member h
// in the given cross-sender order.
func (r *vrun) deliver(h int, order []int) {
	if r.aborted[h] != nil {
		return
	}
	for _, s := range order {
		for _, w := range r.out[s] {
			p := freshPayload(w.kind)
			if err := p.Unmarshal(w.data); err != nil {
				continue // the network layer drops what it cannot decode
			}
			_ = r.cur[h].Receive(&vmsg{payload: p, pub: r.opPub[w.from], typ: w.typ})
		}
	}
}

// ---------------------------------------------------------------- adversary messages

func (r *vrun) symKey(c, j int) ephemeral.SymmetricKey {
	pub := r.ephPub[j][c]
	if pub == nil { // j never published a key for c: any key will do, nobody can check
		kp, _ := ephemeral.GenerateKeyPair()
		pub = kp.PublicKey
	}
	return r.adv[c].kp[j].PrivateKey.Ecdh(pub)
}

func freshPriv() *ephemeral.PrivateKey {
	kp, err := ephemeral.GenerateKeyPair()
	if err != nil {
		panic(err)
	}
	return kp.PrivateKey
}

func (r *vrun) keyMap(c int, entries []kit.V) map[group.MemberIndex]*ephemeral.PrivateKey {
	out := map[group.MemberIndex]*ephemeral.PrivateKey{}
	for _, e := range entries {
		id := e.Get("id").Int()
		if e.Get("ok").Bool() {
			if kp, ok := r.adv[c].kp[id]; ok {
				out[group.MemberIndex(id)] = kp.PrivateKey
				continue
			}
		}
		out[group.MemberIndex(id)] = freshPriv()
	}
	return out
}

// buildAdv turns one message record of the specification into a real message.
func (r *vrun) buildAdv(c int, m kit.V) (net.TaggedMarshaler, error) {
	am := r.adv[c]
	claim := group.MemberIndex(m.Get("claim").Int())
	sess := vSession
	if !m.Get("sess").Bool() {
		sess = "another-session"
	}
	p := m.Get("p")
	switch m.Get("k").Str() {
	case "eph":
		keys := map[group.MemberIndex]*ephemeral.PublicKey{}
		for j := 1; j <= r.n; j++ {
			if j != c {
				keys[group.MemberIndex(j)] = am.kp[j].PublicKey
			}
		}
		switch p.Str() {
		case "missing":
			for j := 1; j <= r.n; j++ {
				if j != c {
					delete(keys, group.MemberIndex(j))
					break
				}
			}
		case "selfkey":
			keys[group.MemberIndex(c)] = am.kp[c].PublicKey
		}
		return &EphemeralPublicKeyMessage{senderID: claim, ephemeralPublicKeys: keys, sessionID: sess}, nil
	case "shares":
		msg := newPeerSharesMessage(claim, sess)
		for j := 1; j <= r.n; j++ {
			if j == c {
				continue
			}
			switch p.Idx(j - 1).Str() {
			case "ok":
				if err := msg.addShares(group.MemberIndex(j), polyEval(am.f, j), polyEval(am.g, j), r.symKey(c, j)); err != nil {
					return nil, err
				}
			case "bad":
				s := new(big.Int).Add(polyEval(am.f, j), big.NewInt(1))
				s.Mod(s, bn256.Order)
				if err := msg.addShares(group.MemberIndex(j), s, polyEval(am.g, j), r.symKey(c, j)); err != nil {
					return nil, err
				}
			case "badt":
				tt := new(big.Int).Add(polyEval(am.g, j), big.NewInt(1))
				tt.Mod(tt, bn256.Order)
				if err := msg.addShares(group.MemberIndex(j), polyEval(am.f, j), tt, r.symKey(c, j)); err != nil {
					return nil, err
				}
			case "undec":
				a, b := make([]byte, 72), make([]byte, 72)
				crand.Read(a)
				crand.Read(b)
				msg.shares[group.MemberIndex(j)] = &peerShares{encryptedShareS: a, encryptedShareT: b}
			case "absent":
			default:
				return nil, fmt.Errorf("unknown share value %q", p.Idx(j-1).Str())
			}
		}
		return msg, nil
	case "commits":
		var cs []*bn256.G1
		for k := 0; k <= r.th; k++ {
			gs := new(bn256.G1).ScalarBaseMult(am.f[k])
			ht := new(bn256.G1).ScalarMult(r.params.H, am.g[k])
			cs = append(cs, new(bn256.G1).Add(gs, ht))
		}
		if p.Idx(0).Str() == "wrong" {
			cs = cs[:len(cs)-1]
		}
		return &MemberCommitmentsMessage{senderID: claim, commitments: cs, sessionID: sess}, nil
	case "acc4":
		return &SecretSharesAccusationsMessage{senderID: claim, accusedMembersKeys: r.keyMap(c, p.List()), sessionID: sess}, nil
	case "acc8":
		return &PointsAccusationsMessage{senderID: claim, accusedMembersKeys: r.keyMap(c, p.List()), sessionID: sess}, nil
	case "rev":
		return &MisbehavedEphemeralKeysMessage{senderID: claim, privateKeys: r.keyMap(c, p.List()), sessionID: sess}, nil
	case "pts":
		co := make([]*big.Int, r.th+1)
		for k := range co {
			co[k] = new(big.Int).Set(am.f[k])
		}
		if !p.Get("all").Bool() {
			// f + rr * PROD_{i in S} (x - i)
			prod := []*big.Int{big.NewInt(1)}
			for _, i := range p.Get("okFor").Ints() {
				nx := make([]*big.Int, len(prod)+1)
				for k := range nx {
					nx[k] = big.NewInt(0)
				}
				for k, a := range prod {
					nx[k+1].Add(nx[k+1], a)
					nx[k].Sub(nx[k], new(big.Int).Mul(a, big.NewInt(int64(i))))
				}
				prod = nx
			}
			if len(prod) > r.th+1 {
				return nil, fmt.Errorf("okFor too large for degree %d", r.th)
			}
			rr := randScalar()
			for k, a := range prod {
				co[k].Add(co[k], new(big.Int).Mul(rr, a))
				co[k].Mod(co[k], bn256.Order)
			}
		}
		var pts []*bn256.G2
		for _, a := range co {
			pts = append(pts, new(bn256.G2).ScalarBaseMult(a))
		}
		if p.Get("cnt").Str() == "wrong" {
			pts = pts[:len(pts)-1]
		}
		return &MemberPublicKeySharePointsMessage{senderID: claim, publicKeySharePoints: pts, sessionID: sess}, nil
	}
	return nil, fmt.Errorf("unknown message kind %q", m.Get("k").Str())
}

// advSend installs the messages corrupt member c broadcasts in the current
// message state. A corrupt member nobody listens to any more ("dead" in the
// specification) keeps sending well-formed messages: they must have no effect.
func (r *vrun) advSend(c int, stage string, msgs []kit.V, dead bool) error {
	r.out[c] = nil
	if dead && len(msgs) == 0 {
		allOK := make([]interface{}, r.n)
		for j := range allOK {
			allOK[j] = "ok"
		}
		allOK[c-1] = "absent"
		mk := func(k string, p interface{}) kit.V {
			return kit.V{X: map[string]interface{}{"from": float64(c), "claim": float64(c), "k": k, "sess": true, "p": p}}
		}
		switch stage {
		case "A1":
			msgs = []kit.V{mk("eph", "ok")}
		case "A3":
			msgs = []kit.V{mk("shares", allOK), mk("commits", []interface{}{"ok"})}
		case "A4":
			msgs = []kit.V{mk("acc4", []interface{}{})}
		case "A7":
			msgs = []kit.V{mk("pts", map[string]interface{}{"cnt": "ok", "okFor": []interface{}{}, "all": true})}
		case "A8":
			msgs = []kit.V{mk("acc8", []interface{}{})}
		case "A10":
			msgs = []kit.V{mk("rev", []interface{}{})}
		}
	}
	for _, m := range msgs {
		tm, err := r.buildAdv(c, m)
		if err != nil {
			return err
		}
		w, err := toWire(c, tm)
		if err != nil {
			return err
		}
		r.out[c] = append(r.out[c], w)
	}
	return nil
}

// ---------------------------------------------------------------- observation

type vview struct {
	St                                          string
	IA, DQ, Eph, Sym, Shm, Com, Qual, Vpts, Exp []int
	Rec                                         map[int][]int
	Rcv                                         map[string][]int // kind -> senders in arrival order
}

func idxs[T any](m map[group.MemberIndex]T) []int {
	out := []int{}
	for k := range m {
		out = append(out, int(k))
	}
	sort.Ints(out)
	return out
}

func ints(l []group.MemberIndex) []int {
	out := []int{}
	for _, k := range l {
		out = append(out, int(k))
	}
	sort.Ints(out)
	return out
}

func cacheKeys(ms *messageStorage) []int {
	ms.cacheLock.Lock()
	defer ms.cacheLock.Unlock()
	out := []int{}
	for k := range ms.cache {
		out = append(out, int(k))
	}
	sort.Ints(out)
	return out
}

// observe projects the real member object of honest member h onto the
// variables of the specification.
func (r *vrun) observe(h int) vview {
	v := vview{St: "run", Rec: map[int][]int{}, Rcv: map[string][]int{}}
	if r.aborted[h] != nil {
		v.St = "aborted"
	}
	var (
		core *memberCore
		skg  *SymmetricKeyGeneratingMember
		cvm  *CommitmentsVerifyingMember
		sm   *SharingMember
		rm   *RevealingMember
		rcm  *ReconstructingMember
	)
	senders := func(kind string, l interface{}) {
		switch x := l.(type) {
		case []*EphemeralPublicKeyMessage:
			for _, m := range x {
				v.Rcv[kind] = append(v.Rcv[kind], int(m.senderID))
			}
		case []*PeerSharesMessage:
			for _, m := range x {
				v.Rcv[kind] = append(v.Rcv[kind], int(m.senderID))
			}
		case []*MemberCommitmentsMessage:
			for _, m := range x {
				v.Rcv[kind] = append(v.Rcv[kind], int(m.senderID))
			}
		case []*SecretSharesAccusationsMessage:
			for _, m := range x {
				v.Rcv[kind] = append(v.Rcv[kind], int(m.senderID))
			}
		case []*MemberPublicKeySharePointsMessage:
			for _, m := range x {
				v.Rcv[kind] = append(v.Rcv[kind], int(m.senderID))
			}
		case []*PointsAccusationsMessage:
			for _, m := range x {
				v.Rcv[kind] = append(v.Rcv[kind], int(m.senderID))
			}
		case []*MisbehavedEphemeralKeysMessage:
			for _, m := range x {
				v.Rcv[kind] = append(v.Rcv[kind], int(m.senderID))
			}
		}
	}
	switch s := r.cur[h].(type) {
	case *ephemeralKeyPairGenerationState:
		core = s.member.memberCore
		senders("eph", s.phaseMessages)
	case *symmetricKeyGenerationState:
		skg = s.member
	case *commitmentState:
		skg = s.member.SymmetricKeyGeneratingMember
		senders("shares", s.phaseSharesMessages)
		senders("commits", s.phaseCommitmentsMessages)
	case *commitmentsVerificationState:
		cvm = s.member
		senders("acc4", s.phaseAccusationsMessages)
	case *sharesJustificationState:
		cvm = s.member.CommitmentsVerifyingMember
	case *qualificationState:
		cvm = s.member.CommitmentsVerifyingMember
	case *pointsShareState:
		sm = s.member
		senders("pts", s.phaseMessages)
	case *pointsValidationState:
		sm = s.member
		senders("acc8", s.phaseMessages)
	case *pointsJustificationState:
		sm = s.member.SharingMember
	case *keyRevealState:
		rm = s.member
		senders("rev", s.phaseMessages)
	case *reconstructionState:
		rcm = s.member
	case *combinationState:
		rcm = s.member.ReconstructingMember
	case *finalizationState:
		rcm = s.member.ReconstructingMember
	default:
		r.t.Fatalf("unknown state type %T", s)
	}
	if rcm != nil {
		rm = rcm.RevealingMember
		for _, ms := range rcm.revealedMisbehavedMembersShares {
			v.Rec[int(ms.misbehavedMemberID)] = idxs(ms.peerSharesS)
		}
	}
	if rm != nil {
		sm = rm.SharingMember
		v.Exp = ints(rm.expectedMembersForReconstruction)
	}
	if sm != nil {
		cvm = sm.CommitmentsVerifyingMember
		v.Vpts = idxs(sm.receivedValidPeerPublicKeySharePoints)
	}
	if cvm != nil {
		skg = cvm.SymmetricKeyGeneratingMember
		v.Com = idxs(cvm.receivedPeerCommitments)
		v.Qual = idxs(cvm.receivedQualifiedSharesS)
	}
	if skg != nil {
		core = skg.memberCore
		v.Sym = idxs(skg.symmetricKeys)
	}
	v.IA = ints(core.group.InactiveMemberIndexes())
	v.DQ = ints(core.group.DisqualifiedMemberIndexes())
	if el, ok := core.evidenceLog.(*dkgEvidenceLog); ok {
		v.Eph = cacheKeys(el.pubKeyMessageLog)
		v.Shm = cacheKeys(el.peerSharesMessageLog)
	}
	return v
}

func sameInts(a, b []int) bool {
	if len(a) != len(b) {
		return false
	}
	for i := range a {
		if a[i] != b[i] {
			return false
		}
	}
	return true
}

func sortedInts(a []int) []int {
	b := append([]int{}, a...)
	sort.Ints(b)
	return b
}

// ---------------------------------------------------------------- behaviour signature

// signature is the canonical description of the adversary of a behaviour: the
// group, the corrupt members, every non-default message they send and the
// delivery orders of the order sensitive states. It is the key of known findings.
func signature(b kit.V) string {
	var sb strings.Builder
	fmt.Fprintf(&sb, "n%dt%dc%v", b.Get("n").Int(), b.Get("t").Int(), b.Get("corrupt").Ints())
	for _, st := range b.Get("steps").List() {
		a := st.Get("a").Str()
		if strings.HasPrefix(a, "A") {
			var parts []string
			msgs := st.Get("msgs").List()
			dflt := (a == "A3" && len(msgs) == 2) || (a != "A3" && len(msgs) == 1)
			for _, m := range msgs {
				k, p := m.Get("k").Str(), m.Get("p")
				d := m.Get("claim").Int() == m.Get("from").Int() && m.Get("sess").Bool()
				switch k {
				case "eph":
					d = d && p.Str() == "ok"
				case "shares":
					for j, x := range p.Strs() {
						if j+1 != st.Get("m").Int() && x != "ok" {
							d = false
						}
					}
				case "commits":
					d = d && p.Idx(0).Str() == "ok"
				case "acc4", "acc8":
					d = d && p.Len() == 0
				case "rev":
					d = d && p.Len() == 0
				case "pts":
					d = d && p.Get("all").Bool() && p.Get("cnt").Str() == "ok"
				}
				dflt = dflt && d
				s := k
				if m.Get("claim").Int() != m.Get("from").Int() {
					s += fmt.Sprintf("(as %d)", m.Get("claim").Int())
				}
				if !m.Get("sess").Bool() {
					s += "(session)"
				}
				if k == "pts" {
					if p.Get("all").Bool() {
						s += "{" + p.Get("cnt").Str() + "}"
					} else {
						s += fmt.Sprintf("{%s okFor%v}", p.Get("cnt").Str(), p.Get("okFor").Ints())
					}
				} else if k == "acc4" || k == "acc8" || k == "rev" {
					var es []string
					for _, e := range p.List() {
						es = append(es, fmt.Sprintf("%d:%v", e.Get("id").Int(), e.Get("ok").Bool()))
					}
					sort.Strings(es)
					s += "{" + strings.Join(es, ",") + "}"
				} else {
					s += p.JSON()
				}
				parts = append(parts, s)
			}
			if st.Get("dead").Bool() {
				continue
			}
			if !dflt {
				fmt.Fprintf(&sb, "|%s.%d[%s]", a, st.Get("m").Int(), strings.Join(parts, ";"))
			}
		} else if (a == "R3" || a == "R10") && st.Get("ord").Len() > 0 {
			o := st.Get("ord").Ints()
			if !sort.IntsAreSorted(o) {
				fmt.Fprintf(&sb, "|%s.%d%v", a, st.Get("m").Int(), o)
			}
		}
	}
	s := sb.String()
	if len(s) > 300 {
		s = s[:260] + "#" + kit.Hash(s)
	}
	return s
}

// ---------------------------------------------------------------- replay

// number of divergences that carry the complete behaviour (bounds the report size)
var storedBehaviours int

type replayOpts struct {
	property string // "C01" or "C02"
}

// replayBehaviour drives one behaviour and reports conformance and property
// divergences. It returns a short description of what happened.
func replayBehaviour(t testing.TB, env *venv, rep *kit.Report, b kit.V, idx int, opts replayOpts) {
	n, th := b.Get("n").Int(), b.Get("t").Int()
	corrupt := b.Get("corrupt").Ints()
	sig := signature(b)
	rnd := kit.Rand(int64(idx) + 7919)
	r := newRun(t, env, n, th, corrupt, rnd)
	specV := b.Get("spec")

	diverged := map[string]bool{}
	diverge := func(class, what string, exp, obs interface{}) {
		key := class + ":" + sig
		if diverged[key] {
			return
		}
		diverged[key] = true
		c := map[string]interface{}{"index": idx, "signature": sig, "class": b.Get("class").Str()}
		propertyLevel := !strings.HasPrefix(class, "conf")
		if (propertyLevel && storedBehaviours < 40) || storedBehaviours < 10 {
			storedBehaviours++
			c["behaviour"] = b.X // complete behaviour: ./vcheck <ID> --replay <file> re-runs it
		}
		rep.Diverge(key, what, c, exp, obs)
	}
	defer func() {
		if x := recover(); x != nil {
			diverge("panic", fmt.Sprintf("keep-core code panicked while replaying a specification behaviour: %v", x), nil, fmt.Sprint(x))
		}
	}()

	honestSet := map[int]bool{}
	for _, h := range r.honest {
		honestSet[h] = true
	}
	confOK := true
	conf := func(stage string, h int, field string, exp, obs []int) {
		if !sameInts(sortedInts(exp), sortedInts(obs)) {
			confOK = false
			diverge("conf:"+stage+":"+field,
				fmt.Sprintf("after %s of member %d the real member's %s differs from the specification", stage, h, field),
				exp, obs)
		}
	}
	checkPunished := func(stage string, h int, v vview) {
		if opts.property != "C01" {
			return
		}
		for _, x := range append(append([]int{}, v.IA...), v.DQ...) {
			if honestSet[x] {
				diverge("punished", fmt.Sprintf("honest member %d marked honest member %d inactive/disqualified (first seen after %s)", h, x, stage),
					nil, map[string]interface{}{"member": h, "ia": v.IA, "dq": v.DQ})
			}
		}
	}

	steps := b.Get("steps").List()
	for _, st := range steps {
		a, m := st.Get("a").Str(), st.Get("m").Int()
		rep.Count("step."+a, 1)
		switch {
		case strings.HasPrefix(a, "A"):
			if err := r.advSend(m, a, st.Get("msgs").List(), st.Get("dead").Bool()); err != nil {
				t.Fatalf("behaviour %d: cannot build adversary message: %v", idx, err)
			}
		case strings.HasPrefix(a, "R"):
			order := st.Get("ord").Ints()
			if len(order) == 0 {
				for j := 1; j <= n; j++ {
					if j != m {
						order = append(order, j)
					}
				}
				rnd.Shuffle(len(order), func(i, j int) { order[i], order[j] = order[j], order[i] })
			}
			r.deliver(m, order)
			v := r.observe(m)
			exp := map[string][]int{}
			for _, x := range st.Get("view").Get("rcv").List() {
				exp[x.Get("k").Str()] = append(exp[x.Get("k").Str()], x.Get("claim").Int())
			}
			kinds := map[string]bool{}
			for k := range exp {
				kinds[k] = true
			}
			for k := range v.Rcv {
				kinds[k] = true
			}
			for k := range kinds {
				if len(st.Get("ord").Ints()) == 0 {
					// order chosen by the harness: compare as multisets
					conf(a, m, "accepted "+k+" messages", sortedInts(exp[k]), sortedInts(v.Rcv[k]))
				} else if !sameInts(exp[k], v.Rcv[k]) {
					confOK = false
					diverge("conf:"+a+":rcv", fmt.Sprintf("member %d accepted other %s messages than the specification", m, k), exp[k], v.Rcv[k])
				}
			}
		case strings.HasPrefix(a, "I"):
			if a == "I12" && r.aborted[m] == nil {
				// ComputeGroupPublicKeyShares runs on a goroutine: a nil share
				// there would crash the whole test binary, so it is detected
				// on the member's state before the state is initiated
				if q, o, bad := r.nilShareHazard(m); bad {
					diverge("crash", fmt.Sprintf("member %d would dereference a nil share in ComputeGroupPublicKeyShares: "+
						"member %d is reconstructed without a share revealed by operating member %d", m, q, o), nil, nil)
					r.aborted[m] = fmt.Errorf("not run: nil share hazard")
					continue
				}
			}
			err := r.initiate(m)
			if a == "I12" {
				r.finish(m)
			}
			sv := st.Get("view")
			v := r.observe(m)
			expSt := sv.Get("st").Str()
			if expSt == "done" {
				expSt = "run"
			}
			if v.St != expSt {
				confOK = false
				diverge("conf:"+a+":st", fmt.Sprintf("member %d: Initiate outcome differs from the specification (error: %v)", m, err), expSt, v.St)
			}
			if v.St == "aborted" {
				if opts.property == "C01" {
					diverge("abort", fmt.Sprintf("honest member %d left the protocol with a fatal error in %s: %v", m, a, err), nil, fmt.Sprint(err))
				}
				continue
			}
			checkPunished(a, m, v)
			// the IA/DQ classification of a misbehaved member is not part of
			// the property (see Agreement in the specification) but the
			// specification transcribes it, so it is compared
			conf(a, m, "IA", sv.Get("ia").Ints(), v.IA)
			conf(a, m, "DQ", sv.Get("dq").Ints(), v.DQ)
			conf(a, m, "evidence log (phase 1 messages)", sv.Get("eph").Ints(), v.Eph)
			if a != "I1" {
				conf(a, m, "symmetric keys", sv.Get("eph").Ints(), v.Sym)
			}
			conf(a, m, "evidence log (phase 3 messages)", sv.Get("shm").Ints(), v.Shm)
			conf(a, m, "receivedPeerCommitments", sv.Get("com").Ints(), v.Com)
			conf(a, m, "receivedQualifiedSharesS", sv.Get("qual").Ints(), v.Qual)
			conf(a, m, "receivedValidPeerPublicKeySharePoints", sv.Get("vpts").Ints(), v.Vpts)
			conf(a, m, "expectedMembersForReconstruction", sv.Get("exp").Ints(), v.Exp)
			expRec := map[int][]int{}
			for _, x := range sv.Get("rec").List() {
				expRec[x.Get("m").Int()] = x.Get("prov").Ints()
			}
			recKeys := func(mm map[int][]int) []int {
				out := []int{}
				for k := range mm {
					out = append(out, k)
				}
				sort.Ints(out)
				return out
			}
			conf(a, m, "reconstructed members", recKeys(expRec), recKeys(v.Rec))
			for k, e := range expRec {
				if o, ok := v.Rec[k]; ok {
					conf(a, m, fmt.Sprintf("shares revealed for member %d", k), e, o)
				}
			}
			// messages the member broadcast
			var expKinds, obsKinds []string
			for _, x := range st.Get("msgs").List() {
				expKinds = append(expKinds, x.Get("k").Str())
			}
			for _, w := range r.out[m] {
				obsKinds = append(obsKinds, w.kind)
			}
			if strings.Join(expKinds, ",") != strings.Join(obsKinds, ",") {
				confOK = false
				diverge("conf:"+a+":out", fmt.Sprintf("member %d broadcast other messages than the specification", m), expKinds, obsKinds)
			}
			for i, x := range st.Get("msgs").List() {
				if i >= len(r.ch[m].sent) {
					break
				}
				switch pm := r.ch[m].sent[i].(type) {
				case *SecretSharesAccusationsMessage:
					conf(a, m, "accused members (phase 4)", entryIDs(x.Get("p")), idxs(pm.accusedMembersKeys))
				case *PointsAccusationsMessage:
					conf(a, m, "accused members (phase 8)", entryIDs(x.Get("p")), idxs(pm.accusedMembersKeys))
				case *MisbehavedEphemeralKeysMessage:
					conf(a, m, "revealed keys (phase 10)", entryIDs(x.Get("p")), idxs(pm.privateKeys))
				case *PeerSharesMessage:
					var e []int
					for j, s := range x.Get("p").Strs() {
						if s != "absent" {
							e = append(e, j+1)
						}
					}
					conf(a, m, "share receivers (phase 3)", e, idxs(pm.shares))
				}
			}
		}
	}

	// ---------------- property level checks on the real values
	finished := []int{}
	for _, h := range r.honest {
		if r.aborted[h] == nil && r.results[h] != nil {
			finished = append(finished, h)
		}
	}
	if opts.property == "C01" && len(r.honest) > 0 && len(finished) == 0 && specV.Get("noAbort").Bool() {
		diverge("abort", "no honest member finished", nil, nil)
	}
	type outcome struct {
		Misbehaved []int
		Key        string
	}
	outs := map[int]outcome{}
	pubShares := map[int]map[group.MemberIndex]*bn256.G2{}
	for _, h := range finished {
		res := r.results[h]
		mis := append(ints(res.Group.InactiveMemberIndexes()), ints(res.Group.DisqualifiedMemberIndexes())...)
		sort.Ints(mis)
		kb := ""
		if res.GroupPublicKey != nil {
			kb = hex.EncodeToString(res.GroupPublicKey.Marshal())[:16]
		}
		outs[h] = outcome{mis, kb}
		pubShares[h] = res.GroupPublicKeyShares() // also drains the computing goroutine
	}
	agree := true
	for _, h := range finished[vmin(1, len(finished)):] {
		o0, o := outs[finished[0]], outs[h]
		if !sameInts(o0.Misbehaved, o.Misbehaved) || o0.Key != o.Key {
			agree = false
		}
	}
	sharesOK := true
	var shareProblem string
	if agree && len(finished) > 0 {
		// x_h * G2 equals the public key share every other honest member computed for h
		for _, h := range finished {
			xh := new(bn256.G2).ScalarBaseMult(r.results[h].GroupPrivateKeyShare)
			for _, o := range finished {
				if o == h {
					continue
				}
				ps, ok := pubShares[o][group.MemberIndex(h)]
				if !ok || ps == nil || ps.String() != xh.String() {
					sharesOK = false
					shareProblem = fmt.Sprintf("public key share of member %d computed by member %d is not its private share times G2", h, o)
				}
			}
		}
		// every (t+1)-subset of honest shares interpolates to the secret of the group key
		if len(finished) >= th+1 {
			gpk := r.results[finished[0]].GroupPublicKey
			subsets(finished, th+1, func(sub []int) {
				sec := big.NewInt(0)
				for _, i := range sub {
					num, den := big.NewInt(1), big.NewInt(1)
					for _, j := range sub {
						if j != i {
							num.Mul(num, big.NewInt(int64(j)))
							num.Mod(num, bn256.Order)
							den.Mul(den, big.NewInt(int64(j-i)))
							den.Mod(den, bn256.Order)
						}
					}
					l := new(big.Int).Mul(num, new(big.Int).ModInverse(den, bn256.Order))
					l.Mul(l, r.results[i].GroupPrivateKeyShare)
					sec.Add(sec, l)
					sec.Mod(sec, bn256.Order)
				}
				if new(bn256.G2).ScalarBaseMult(sec).String() != gpk.String() {
					sharesOK = false
					shareProblem = fmt.Sprintf("shares of members %v do not interpolate to the secret of the group public key", sub)
				}
			})
		}
	}

	if opts.property == "C01" {
		if !agree {
			diverge("agreement", "honest members that finished the key generation disagree on the misbehaved members or on the group public key", nil, outs)
		}
		if agree != specV.Get("agreement").Bool() && confOK {
			diverge("conf:final:agreement", "agreement outcome differs from the specification", specV.Get("agreement").Bool(), agree)
		}
	} else {
		if !sharesOK {
			diverge("shares", shareProblem, nil, outs)
		}
		if agree && sharesOK != specV.Get("shareConsistency").Bool() && confOK {
			diverge("conf:final:shares", "share consistency outcome differs from the specification", specV.Get("shareConsistency").Bool(), sharesOK)
		}
	}

	nontrivial := ""
	if b.Get("k").Int() > 0 {
		nontrivial = sig
	}
	var sample interface{}
	if idx < 3 {
		sample = map[string]interface{}{"signature": sig, "finished": finished, "outcomes": outs, "agree": agree, "sharesOK": sharesOK}
	}
	rep.Eval(nontrivial, sample)
	rep.Count("behaviours", 1)
	if len(corrupt) > 0 {
		rep.Count(fmt.Sprintf("behaviours.n%d.c%d", n, len(corrupt)), 1)
	}
	if !specV.Get("agreement").Bool() || !specV.Get("noHonestPunished").Bool() || !specV.Get("noAbort").Bool() || !specV.Get("shareConsistency").Bool() {
		rep.Count("behaviours.violating_in_model", 1)
	}
}

func entryIDs(p kit.V) []int {
	out := []int{}
	for _, e := range p.List() {
		out = append(out, e.Get("id").Int())
	}
	sort.Ints(out)
	return out
}

func subsets(items []int, k int, f func([]int)) {
	var rec func(start int, cur []int)
	rec = func(start int, cur []int) {
		if len(cur) == k {
			f(append([]int{}, cur...))
			return
		}
		for i := start; i < len(items); i++ {
			rec(i+1, append(cur, items[i]))
		}
	}
	rec(0, nil)
}

func vmin(a, b int) int {
	if a < b {
		return a
	}
	return b
}

func runReplay(t *testing.T, property, name string) {
	kit.RequireEngine(t)
	rep := kit.NewReport(property, name)
	defer rep.Write(t)
	env := newEnv()
	cases := kit.LoadCases(t, "behaviours.ndjson")
	if len(cases) == 0 {
		t.Fatalf("no behaviours")
	}
	for i, b := range cases {
		replayBehaviour(t, env, rep, b, i, replayOpts{property: property})
	}
	rep.Note("%d behaviours replayed", len(cases))
}
