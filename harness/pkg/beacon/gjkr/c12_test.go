//go:build verif

package gjkr

// C12 conformance harness, pkg/beacon/gjkr (specs/Admission, rows
// pkg/beacon/gjkr/*): every case of the admission predicate is delivered to
// the REAL Receive of every GJKR state.
//
// How the states are obtained
//   - rules "member" and "silent": a member is created with the real NewMember
//     (real group.MembershipValidator over real operator addresses), the
//     exclusion of the case is applied to its group with MarkMemberAsInactive /
//     MarkMemberAsDisqualified, and the state is reached from the initial state
//     Execute builds by following the real Next() chain (the wiring of states
//     and member types is the production one).
//   - rule "memberStateStart" (phases 4 and 8): the state is built over the
//     package's own test group helpers, given the real previous-phase messages,
//     and the REAL Initiate runs: a member excluded "before" sent no message in
//     the previous phase (marked inactive by Initiate) or was disqualified
//     earlier; a member excluded "during" sent a malformed commitments / points
//     message, for which Initiate disqualifies it after taking the snapshot of
//     operating members.
//
// How a message is built: the payload of the named type is marshalled by the
// real Marshal, the wire sender index is put in front, and the bytes go
// through the unmarshaler gjkr.RegisterUnmarshallers registers.
//
// Observation: the state's message slices before and after Receive; "accepted"
// = exactly one slice grew by exactly this payload.
//
// Streams (AdmissionLoop.tla): sequences of 1..3 messages are delivered to one
// phase-1 state (member 3 inactive) and phaseMessages is compared with the
// specified list of admitted messages, in order.

import (
	"context"
	"fmt"
	"math/big"
	"reflect"
	"testing"

	"github.com/keep-network/keep-core/internal/testutils"
	verifadm "github.com/keep-network/keep-core/internal/verifadm"
	kit "github.com/keep-network/keep-core/internal/verifkit"
	"github.com/keep-network/keep-core/pkg/net"
	"github.com/keep-network/keep-core/pkg/protocol/group"
	"github.com/keep-network/keep-core/pkg/protocol/state"
)

const c12Threshold = 1

// c12Template returns a payload of the named type with a zero sender index.
func c12Template(typ, session string) (net.TaggedMarshaler, error) {
	switch typ {
	case "EphemeralPublicKeyMessage":
		return &EphemeralPublicKeyMessage{sessionID: session}, nil
	case "PeerSharesMessage":
		return &PeerSharesMessage{sessionID: session, shares: map[group.MemberIndex]*peerShares{}}, nil
	case "MemberCommitmentsMessage":
		return &MemberCommitmentsMessage{sessionID: session}, nil
	case "SecretSharesAccusationsMessage":
		return &SecretSharesAccusationsMessage{sessionID: session}, nil
	case "MemberPublicKeySharePointsMessage":
		return &MemberPublicKeySharePointsMessage{sessionID: session}, nil
	case "PointsAccusationsMessage":
		return &PointsAccusationsMessage{sessionID: session}, nil
	case "MisbehavedEphemeralKeysMessage":
		return &MisbehavedEphemeralKeysMessage{sessionID: session}, nil
	}
	return nil, fmt.Errorf("harness: unknown gjkr payload type %q", typ)
}

type c12Gjkr struct {
	t         *testing.T
	w         *verifadm.World
	ch        *verifadm.Channel
	validator *group.MembershipValidator
	cache     map[string]state.SyncState // states after the real Initiate (phases 4, 8)
}

func (h *c12Gjkr) payload(c *verifadm.Case, typ string) (interface{}, error) {
	if typ == "foreign" {
		return &verifadm.Foreign{SenderID: group.MemberIndex(c.Wire)}, nil
	}
	tpl, err := c12Template(typ, c.Session())
	if err != nil {
		return nil, err
	}
	return h.ch.Decode(tpl, c.Wire)
}

// stateByNext builds the member like Execute does and walks the Next() chain.
func (h *c12Gjkr) stateByNext(c *verifadm.Case, name string) (state.SyncState, error) {
	member, err := NewMember(&testutils.MockLogger{}, group.MemberIndex(c.Recv), h.w.N, c12Threshold,
		h.validator, big.NewInt(18313131145), verifadm.SessionOK)
	if err != nil {
		return nil, err
	}
	c.MarkCurrent(member.group)
	var st state.SyncState = &ephemeralKeyPairGenerationState{channel: h.ch, member: member.InitializeEphemeralKeysGeneration()}
	for i := 0; i < 20 && st != nil; i++ {
		if reflect.TypeOf(st).Elem().Name() == name {
			return st, nil
		}
		if st, err = st.Next(); err != nil {
			return nil, err
		}
	}
	return nil, fmt.Errorf("harness: state %s not on the Next() chain", name)
}

func (h *c12Gjkr) byNext(name string) verifadm.Driver {
	return func(c *verifadm.Case, typ string) (string, string, error) {
		st, err := h.stateByNext(c, name)
		if err != nil {
			return "", "", err
		}
		p, err := h.payload(c, typ)
		if o, d, e, stop := verifadm.Dropped(err); stop {
			return o, d, e
		}
		return verifadm.ObserveSlices(st, h.w.Net(c, p), p)
	}
}

// expectOperating checks that the real Initiate left the group as the case says.
func (h *c12Gjkr) expectOperating(g *group.Group, c *verifadm.Case) error {
	for s := 1; s <= h.w.N; s++ {
		want := s != c.Excl.Who
		if g.IsOperating(group.MemberIndex(s)) != want {
			return fmt.Errorf("harness: after Initiate member %d operating=%v, the case needs %v (exclusion %+v)",
				s, !want, want, c.Excl)
		}
	}
	return nil
}

// phase4 returns commitmentsVerificationState of member recv after the real Initiate.
func (h *c12Gjkr) phase4(c *verifadm.Case) (state.SyncState, error) {
	key := fmt.Sprintf("p4/%d/%+v", c.Recv, c.Excl)
	if st, ok := h.cache[key]; ok {
		return st, nil
	}
	members, err := initializeCommittingMembersGroup(c12Threshold, h.w.N)
	if err != nil {
		return nil, err
	}
	var shares []*PeerSharesMessage
	var commitments []*MemberCommitmentsMessage
	before, kind, hasBefore := c.ExcludedBefore()
	during, hasDuring := c.ExcludedDuring()
	for _, m := range members {
		s, cm, err := m.CalculateMembersSharesAndCommitments()
		if err != nil {
			return nil, err
		}
		if int(m.ID) == c.Recv || (hasBefore && m.ID == before) {
			continue // own messages are not received; an excluded member sent nothing
		}
		if hasDuring && m.ID == during {
			cm.commitments = cm.commitments[:1] // malformed: disqualified by the verification
		}
		shares = append(shares, s)
		commitments = append(commitments, cm)
	}
	r := members[c.Recv-1]
	r.membershipValidator = h.validator
	r.sessionID = verifadm.SessionOK
	if hasBefore && kind == "DQ" {
		r.group.MarkMemberAsDisqualified(before)
	}
	st := &commitmentsVerificationState{channel: h.ch, member: r.InitializeCommitmentsVerification(),
		previousPhaseSharesMessages: shares, previousPhaseCommitmentsMessages: commitments}
	if err := st.Initiate(context.Background()); err != nil {
		return nil, fmt.Errorf("harness: phase 4 Initiate: %v", err)
	}
	if err := h.expectOperating(r.group, c); err != nil {
		return nil, err
	}
	h.cache[key] = st
	return st, nil
}

// phase8 returns pointsValidationState of member recv after the real Initiate.
func (h *c12Gjkr) phase8(c *verifadm.Case) (state.SyncState, error) {
	key := fmt.Sprintf("p8/%d/%+v", c.Recv, c.Excl)
	if st, ok := h.cache[key]; ok {
		return st, nil
	}
	members, err := initializeSharingMembersGroup(c12Threshold, h.w.N)
	if err != nil {
		return nil, err
	}
	var points []*MemberPublicKeySharePointsMessage
	before, kind, hasBefore := c.ExcludedBefore()
	during, hasDuring := c.ExcludedDuring()
	for _, m := range members {
		pm := m.CalculatePublicKeySharePoints()
		if int(m.ID) == c.Recv || (hasBefore && m.ID == before) {
			continue
		}
		if hasDuring && m.ID == during {
			pm.publicKeySharePoints = pm.publicKeySharePoints[:1]
		}
		points = append(points, pm)
	}
	r := members[c.Recv-1]
	r.membershipValidator = h.validator
	r.sessionID = verifadm.SessionOK
	if hasBefore && kind == "DQ" {
		r.group.MarkMemberAsDisqualified(before)
	}
	st := &pointsValidationState{channel: h.ch, member: r, previousPhaseMessages: points}
	if err := st.Initiate(context.Background()); err != nil {
		return nil, fmt.Errorf("harness: phase 8 Initiate: %v", err)
	}
	if err := h.expectOperating(r.group, c); err != nil {
		return nil, err
	}
	h.cache[key] = st
	return st, nil
}

func (h *c12Gjkr) afterInitiate(build func(c *verifadm.Case) (state.SyncState, error)) verifadm.Driver {
	return func(c *verifadm.Case, typ string) (string, string, error) {
		cached, err := build(c)
		if err != nil {
			return "", "", err
		}
		// a fresh copy of the initiated state for every case (Receive only appends to its slices)
		var st state.SyncState
		switch s := cached.(type) {
		case *commitmentsVerificationState:
			cp := *s
			cp.phaseAccusationsMessages = nil
			st = &cp
		case *pointsValidationState:
			cp := *s
			cp.phaseMessages = nil
			st = &cp
		}
		p, err := h.payload(c, typ)
		if o, d, e, stop := verifadm.Dropped(err); stop {
			return o, d, e
		}
		return verifadm.ObserveSlices(st, h.w.Net(c, p), p)
	}
}

func TestVerif_C12_Gjkr(t *testing.T) {
	kit.RequireEngine(t)
	rep := kit.NewReport("C12", "admission_gjkr")
	defer rep.Write(t)
	w := verifadm.LoadWorld(t)
	steps := verifadm.LoadSteps(t, "pkg/beacon/gjkr")
	cases := verifadm.LoadCases(t)
	h := &c12Gjkr{t: t, w: w, ch: verifadm.NewChannel(), validator: w.Validator(), cache: map[string]state.SyncState{}}
	RegisterUnmarshallers(h.ch)
	drivers := map[string]verifadm.Driver{
		"commitmentsVerificationState": h.afterInitiate(h.phase4),
		"pointsValidationState":        h.afterInitiate(h.phase8),
	}
	for _, s := range steps {
		if _, ok := drivers[s.Name]; !ok {
			drivers[s.Name] = h.byNext(s.Name)
		}
	}
	verifadm.Run(t, rep, w, steps, cases, drivers)
	rep.Note("phases 4 and 8: %d states built by the real Initiate (receiver x exclusion)", len(h.cache))

	// streams of messages (specs/Admission/AdmissionLoop.tla): what the state keeps after 1..3 deliveries
	const seqStep = "ephemeralKeyPairGenerationState"
	h.w = verifadm.LoadLoopWorld(t) // the sequences are stated in their own (4-seat) world
	h.validator = h.w.Validator()
	verifadm.RunSequences(t, rep, "pkg/beacon/gjkr/"+seqStep, func(q *verifadm.Sequence) (verifadm.LoopState, string, error) {
		var out verifadm.LoopState
		st0, err := h.stateByNext(&verifadm.Case{Recv: q.Msgs[0].Recv, Excl: q.Excl}, seqStep)
		if err != nil {
			return out, "", err
		}
		st := st0.(*ephemeralKeyPairGenerationState)
		number := map[*EphemeralPublicKeyMessage]int{}
		for i, c := range q.Msgs {
			p, err := h.payload(c, "EphemeralPublicKeyMessage")
			if _, _, e, stop := verifadm.Dropped(err); stop {
				if e != nil {
					return out, "", e
				}
				continue // dropped by the decoder
			}
			number[p.(*EphemeralPublicKeyMessage)] = i + 1
			if err := st.Receive(h.w.Net(c, p)); err != nil {
				return out, "", err
			}
		}
		for _, m := range st.phaseMessages {
			out.Stored = append(out.Stored, number[m]) // 0 = a message that was never delivered
		}
		return out, "", nil
	})
}
