//go:build verif

package gjkr

import "testing"

// TestVerif_C01_Replay replays behaviours of specs/Gjkr on the real GJKR
// states and decides agreement (misbehaved members, group public key), that no
// honest member is punished by an honest member and that no honest member hits
// a "should never happen" fatal error; every step is compared with the
// specification.
func TestVerif_C01_Replay(t *testing.T) { runReplay(t, "C01", "replay") }
