//go:build verif

package gjkr

// C14, protocol duration: the real GJKR states are walked through Next() and
// the sum of their DelayBlocks()+ActiveBlocks() — which is what
// SyncMachine.Execute adds to the start block (specification invariant
// FinishExact: end = start + Total) — is compared with ProtocolBlocks(), the
// constant the callers use to compute deadlines.

import (
	"fmt"
	"math/big"
	"testing"

	"github.com/keep-network/keep-core/internal/testutils"
	kit "github.com/keep-network/keep-core/internal/verifkit"
	"github.com/keep-network/keep-core/pkg/protocol/state"
)

func TestVerif_C14_GjkrBlocks(t *testing.T) {
	kit.RequireEngine(t)
	rep := kit.NewReport("C14", "gjkr_blocks")
	defer rep.Write(t)

	member, err := NewMember(&testutils.MockLogger{}, 1, 3, 1, nil, big.NewInt(7), "verif")
	if err != nil {
		t.Fatalf("cannot create member: %v", err)
	}
	var st state.SyncState = &ephemeralKeyPairGenerationState{member: member.InitializeEphemeralKeysGeneration()}
	type row struct {
		State  string `json:"state"`
		D      uint64 `json:"d"`
		A      uint64 `json:"a"`
		Silent bool   `json:"silent"`
	}
	var walk []row
	sum := uint64(0)
	last := ""
	for st != nil {
		d, a := st.DelayBlocks(), st.ActiveBlocks()
		walk = append(walk, row{fmt.Sprintf("%T", st), d, a, d == 0 && a == 0})
		sum += d + a
		last = fmt.Sprintf("%T", st)
		next, err := func() (n state.SyncState, e error) {
			defer func() {
				if r := recover(); r != nil {
					e = fmt.Errorf("panic in Next of %T: %v", st, r)
				}
			}()
			return st.Next()
		}()
		if err != nil {
			t.Fatalf("cannot walk the GJKR states: %v", err)
		}
		st = next
		if len(walk) > 64 {
			t.Fatalf("GJKR state chain does not end")
		}
	}
	rep.Extra["walk"] = walk
	rep.Eval("gjkr-walk", map[string]interface{}{"states": len(walk), "sum": sum, "ProtocolBlocks": ProtocolBlocks(), "last": last})
	if len(walk) < 10 {
		t.Fatalf("walked only %d GJKR states", len(walk))
	}
	if sum != ProtocolBlocks() {
		rep.Diverge("gjkr:ProtocolBlocks", "gjkr.ProtocolBlocks() differs from the sum of DelayBlocks+ActiveBlocks of the states the machine executes, so Execute does not end at start+ProtocolBlocks()",
			walk, sum, ProtocolBlocks())
	}
	if last != "*gjkr.finalizationState" {
		rep.Diverge("gjkr:final-state", "the GJKR state chain does not end in the finalization state", walk, "*gjkr.finalizationState", last)
	}
}
