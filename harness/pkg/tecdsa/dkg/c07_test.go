//go:build verif

package dkg

// C07 conformance harness (see /verif/specs/TecdsaDkg).
//
//   TestVerif_C07_States   every behaviour emitted by Gen_TecdsaDkg is replayed,
//       step by step, on the REAL state objects of every running member
//       (ephemeralKeyPairGenerationState ... finalizationState, created by the
//       real Next() chain from an initial state built as Executor.Execute
//       builds it): every Deliver step calls the real Receive of the member's
//       current state with a real net.Message (payload marshalled and
//       unmarshalled by the real codecs, network key of the specification's
//       envelope signer); after EVERY step the real history (per type:
//       sender, session, envelope key -- with duplicates), the real
//       CanTransition() and the current state's type are compared with the
//       specification's member state. Initiate is executed for real in the
//       two cheap states (ephemeral keys, symmetric keys -- the latter consumes
//       the real history); the TSS rounds are not computed here: their
//       messages are structurally valid stand-ins.
//
//   TestVerif_C07_Execute  engine-chosen behaviours are executed with the real
//       Executor.Execute of every running member (fixture pre-parameters, real
//       tss-lib) over a scheduled broadcast channel that delivers sent
//       messages in the behaviour's per-receiver order and injects the
//       behaviour's forged / duplicate / echoed / intruder traffic. Compared:
//       every operating member completes, all results carry the same group
//       public key, MisbehavedMembersIndexes equals the excluded set, Ks are
//       the operating members' identities; a running excluded member never
//       obtains a result.
//
// Abstraction function: member i = member index i with the i-th generated
// operator key; envelope key k = operator key of seat k (0 = a key outside the
// group); session "cur"/"old" = two session strings; message (t, s) = the
// message of protocol state t sent by member s.

import (
	"context"
	"fmt"
	"math/big"
	"sort"
	"strings"
	"sync"
	"testing"
	"time"

	"github.com/bnb-chain/tss-lib/ecdsa/keygen"
	"github.com/keep-network/keep-core/internal/testutils"
	kit "github.com/keep-network/keep-core/internal/verifkit"
	"github.com/keep-network/keep-core/pkg/chain"
	"github.com/keep-network/keep-core/pkg/chain/local_v1"
	"github.com/keep-network/keep-core/pkg/internal/tecdsatest"
	"github.com/keep-network/keep-core/pkg/net"
	"github.com/keep-network/keep-core/pkg/operator"
	"github.com/keep-network/keep-core/pkg/protocol/group"
	"github.com/keep-network/keep-core/pkg/protocol/state"
)

const (
	c07SessionCur = "verif-c07-attempt-2"
	c07SessionOld = "verif-c07-attempt-1"
)

// ---------------------------------------------------------------- world

type c07World struct {
	n         int
	keys      [][]byte // keys[k] = marshalled operator key of seat k (k = 0: outsider)
	addrs     []chain.Address
	validator *group.MembershipValidator
	fix       []keygen.LocalPartySaveData
	seed      *big.Int
}

func c07NewWorld(t *testing.T, n int) *c07World {
	fix, err := tecdsatest.LoadPrivateKeyShareTestFixtures(5)
	if err != nil {
		t.Fatalf("harness: fixtures: %v", err)
	}
	if n > 5 {
		t.Fatalf("harness: at most 5 members (fixture pre-parameters)")
	}
	lc := local_v1.Connect(n, 2)
	w := &c07World{n: n, keys: make([][]byte, n+1), fix: fix, seed: big.NewInt(7000)}
	for k := 0; k <= n; k++ {
		_, pub, err := operator.GenerateKeyPair(local_v1.DefaultCurve)
		if err != nil {
			t.Fatalf("harness: key: %v", err)
		}
		w.keys[k] = operator.MarshalUncompressed(pub)
		if k > 0 {
			a, err := lc.Signing().PublicKeyToAddress(pub)
			if err != nil {
				t.Fatalf("harness: address: %v", err)
			}
			w.addrs = append(w.addrs, a)
		}
	}
	w.validator = group.NewMembershipValidator(&testutils.MockLogger{}, w.addrs, lc.Signing())
	return w
}

func (w *c07World) seatOfKey(key []byte) int {
	for k, b := range w.keys {
		if string(b) == string(key) {
			return k
		}
	}
	return -1
}

func (w *c07World) dishonest() int { return w.n - 2 } // honest threshold 2: TSS threshold 1

type c07NetMessage struct {
	payload interface{}
	typ     string
	key     []byte
	seq     uint64
}

func (m *c07NetMessage) TransportSenderID() net.TransportIdentifier { return nil }
func (m *c07NetMessage) SenderPublicKey() []byte                    { return m.key }
func (m *c07NetMessage) Payload() interface{}                       { return m.payload }
func (m *c07NetMessage) Type() string                               { return m.typ }
func (m *c07NetMessage) Seqno() uint64                              { return m.seq }

func c07TypeName(t int) string {
	switch t {
	case 1:
		return (&ephemeralPublicKeyMessage{}).Type()
	case 3:
		return (&tssRoundOneMessage{}).Type()
	case 4:
		return (&tssRoundTwoMessage{}).Type()
	case 5:
		return (&tssRoundThreeMessage{}).Type()
	case 6:
		return (&tssFinalizationMessage{}).Type()
	}
	return ""
}

func c07TypeIndex(name string) int {
	for _, t := range []int{1, 3, 4, 5, 6} {
		if c07TypeName(t) == name {
			return t
		}
	}
	return 0
}

func c07Blank(t int) net.TaggedUnmarshaler {
	switch t {
	case 1:
		return &ephemeralPublicKeyMessage{}
	case 3:
		return &tssRoundOneMessage{}
	case 4:
		return &tssRoundTwoMessage{}
	case 5:
		return &tssRoundThreeMessage{}
	case 6:
		return &tssFinalizationMessage{}
	}
	return nil
}

// c07Standin builds a structurally valid message of state t from sender s for
// the party context ctx (used where no real message exists).
func c07Standin(t int, s int, session string, ctx []int, n int) (net.TaggedMarshaler, error) {
	junk := []byte{0xC0, 0x07, byte(t), byte(s)}
	switch t {
	case 1:
		// real ephemeral key messages are cheap; the callers produce them with the real member code
		return nil, fmt.Errorf("harness: no stand-in for ephemeral key messages")
	case 3:
		return &tssRoundOneMessage{senderID: group.MemberIndex(s), broadcastPayload: junk, sessionID: session}, nil
	case 4:
		pp := map[group.MemberIndex][]byte{}
		for _, p := range ctx {
			if p != s {
				pp[group.MemberIndex(p)] = junk
			}
		}
		return &tssRoundTwoMessage{senderID: group.MemberIndex(s), broadcastPayload: junk, peersPayload: pp, sessionID: session}, nil
	case 5:
		return &tssRoundThreeMessage{senderID: group.MemberIndex(s), broadcastPayload: junk, sessionID: session}, nil
	case 6:
		return &tssFinalizationMessage{senderID: group.MemberIndex(s), sessionID: session}, nil
	}
	return nil, fmt.Errorf("harness: unknown message type %d", t)
}

// c07Rewrite returns a copy of a message with another sender / session (forged traffic).
func c07Rewrite(m interface{}, s int, session string) net.TaggedMarshaler {
	id := group.MemberIndex(s)
	switch x := m.(type) {
	case *ephemeralPublicKeyMessage:
		return &ephemeralPublicKeyMessage{senderID: id, ephemeralPublicKeys: x.ephemeralPublicKeys, sessionID: session}
	case *tssRoundOneMessage:
		return &tssRoundOneMessage{senderID: id, broadcastPayload: x.broadcastPayload, sessionID: session}
	case *tssRoundTwoMessage:
		return &tssRoundTwoMessage{senderID: id, broadcastPayload: x.broadcastPayload, peersPayload: x.peersPayload, sessionID: session}
	case *tssRoundThreeMessage:
		return &tssRoundThreeMessage{senderID: id, broadcastPayload: x.broadcastPayload, sessionID: session}
	case *tssFinalizationMessage:
		return &tssFinalizationMessage{senderID: id, sessionID: session}
	}
	return nil
}

// c07Wire passes a message through the real codec, as the network does.
func c07Wire(m net.TaggedMarshaler, key []byte, seq uint64) (*c07NetMessage, error) {
	b, err := m.Marshal()
	if err != nil {
		return nil, fmt.Errorf("marshal: %v", err)
	}
	t := c07TypeIndex(m.Type())
	u := c07Blank(t)
	if u == nil {
		return nil, fmt.Errorf("no unmarshaler for %s", m.Type())
	}
	if err := u.Unmarshal(b); err != nil {
		return nil, fmt.Errorf("unmarshal: %v", err)
	}
	return &c07NetMessage{payload: u, typ: m.Type(), key: key, seq: seq}, nil
}

type c07Sink struct {
	mu   sync.Mutex
	sent []net.TaggedMarshaler
}

func (c *c07Sink) Name() string { return "verif-c07" }
func (c *c07Sink) Send(_ context.Context, m net.TaggedMarshaler, _ ...net.RetransmissionStrategy) error {
	c.mu.Lock()
	c.sent = append(c.sent, m)
	c.mu.Unlock()
	return nil
}
func (c *c07Sink) Recv(context.Context, func(net.Message))     {}
func (c *c07Sink) SetUnmarshaler(func() net.TaggedUnmarshaler) {}
func (c *c07Sink) SetFilter(net.BroadcastChannelFilter) error  { return nil }

func c07StateIndex(s state.AsyncState) int {
	switch s.(type) {
	case *ephemeralKeyPairGenerationState:
		return 1
	case *symmetricKeyGenerationState:
		return 2
	case *tssRoundOneState:
		return 3
	case *tssRoundTwoState:
		return 4
	case *tssRoundThreeState:
		return 5
	case *finalizationState:
		return 6
	}
	return 0
}

type c07Rec struct {
	T   int    `json:"t"`
	S   int    `json:"s"`
	K   int    `json:"k"`
	Ses string `json:"ses"`
}

func c07SesName(s string) string {
	switch s {
	case c07SessionCur:
		return "cur"
	case c07SessionOld:
		return "old"
	}
	return "?" + s
}

func c07SortRecs(r []c07Rec) {
	sort.Slice(r, func(i, j int) bool {
		a, b := r[i], r[j]
		if a.T != b.T {
			return a.T < b.T
		}
		if a.S != b.S {
			return a.S < b.S
		}
		if a.K != b.K {
			return a.K < b.K
		}
		return a.Ses < b.Ses
	})
}

// c07History reads the real BaseAsyncState.
func c07History(w *c07World, base *state.BaseAsyncState) (set []c07Rec, total int) {
	seen := map[c07Rec]bool{}
	for _, t := range []int{1, 3, 4, 5, 6} {
		for _, nm := range base.GetAllReceivedMessages(c07TypeName(t)) {
			total++
			pm, ok := nm.Payload().(message)
			if !ok {
				continue
			}
			r := c07Rec{T: t, S: int(pm.SenderID()), K: w.seatOfKey(nm.SenderPublicKey()), Ses: c07SesName(pm.SessionID())}
			if !seen[r] {
				seen[r] = true
				set = append(set, r)
			}
		}
	}
	c07SortRecs(set)
	return set, total
}

func c07SpecHistory(v kit.V) []c07Rec {
	var out []c07Rec
	for _, m := range v.List() {
		out = append(out, c07Rec{T: m.Get("t").Int(), S: m.Get("s").Int(), K: m.Get("k").Int(), Ses: m.Get("ses").Str()})
	}
	c07SortRecs(out)
	return out
}

// ---------------------------------------------------------------- state-object replay

type c07Member struct {
	id    int
	base  *state.BaseAsyncState
	sink  *c07Sink
	cur   state.AsyncState
	done  bool
	real  map[int]net.TaggedMarshaler // message of state t this member produced (real or stand-in)
	group *group.Group
}

func c07Start(w *c07World, i int, excluded []int) *c07Member {
	pre := &w.fix[i-1].LocalPreParams
	m := newMember(&testutils.MockLogger{}, w.seed, group.MemberIndex(i), w.n, w.dishonest(), w.validator, c07SessionCur,
		func() (*PreParams, error) { return newPreParams(pre), nil }, 1)
	// as Executor.Execute (marking loop copied; the real loop runs in TestVerif_C07_Execute)
	for _, e := range excluded {
		if group.MemberIndex(e) != m.id {
			m.group.MarkMemberAsDisqualified(group.MemberIndex(e))
		}
	}
	sink := &c07Sink{}
	base := state.NewBaseAsyncState()
	return &c07Member{id: i, base: base, sink: sink, real: map[int]net.TaggedMarshaler{}, group: m.group,
		cur: &ephemeralKeyPairGenerationState{BaseAsyncState: base, channel: sink, member: m.initializeEphemeralKeysGeneration()}}
}

func c07View(n int, excluded []int, i int) []int {
	var out []int
	for m := 1; m <= n; m++ {
		ex := false
		for _, e := range excluded {
			if e == m && e != i {
				ex = true
			}
		}
		if !ex {
			out = append(out, m)
		}
	}
	return out
}

// set by TestVerif_C07_States (which runs first): real runs on code whose admission already diverged may crash the binary
var c07StatesDiverged int

func TestVerif_C07_States(t *testing.T) {
	kit.RequireEngine(t)
	rep := kit.NewReport("C07", "states")
	defer rep.Write(t)
	defer func() { c07StatesDiverged = rep.NDivergences() }()
	behs := kit.LoadCases(t, "behaviours.ndjson")
	if len(behs) == 0 {
		t.Fatal("harness: no behaviours")
	}
	worlds := map[int]*c07World{}
	probeTables := map[string][]kit.V{}
	for _, pt := range kit.LoadCases(t, "probes.ndjson") {
		probeTables[fmt.Sprintf("%d/%s", pt.Get("n").Int(), pt.Get("excluded").JSON())] = pt.Get("probes").List()
	}
	probed := map[string]int{}
	for bi, b := range behs {
		n := b.Get("n").Int()
		w := worlds[n]
		if w == nil {
			w = c07NewWorld(t, n)
			worlds[n] = w
		}
		func() {
			key := fmt.Sprintf("states:%s", kit.Hash(b.Get("steps").X))
			defer func() {
				if r := recover(); r != nil {
					rep.Diverge(key+":panic", fmt.Sprintf("the key generation states panicked: %v", r), nil, nil, fmt.Sprint(r))
				}
			}()
			pk := fmt.Sprintf("%d/%s", n, b.Get("excluded").JSON())
			var probes []kit.V
			if probed[pk] < kit.IntEnv("VERIF_PROBED_BEHAVIOURS", 3) {
				probes = probeTables[pk]
				if len(probes) == 0 {
					t.Fatalf("harness: no probe table for %s", pk)
				}
				probed[pk]++
			}
			before := rep.Evaluations
			c07ReplayStates(t, rep, w, b, key, bi, probes)
			if rep.Evaluations == before {
				rep.Eval("", nil) // replayed (and diverged before the behaviour was counted)
			}
		}()
	}
}

func c07ReplayStates(t *testing.T, rep *kit.Report, w *c07World, b kit.V, key string, bi int, probes []kit.V) {
	excluded := b.Get("excluded").Ints()
	members := map[int]*c07Member{}
	var seq uint64
	kinds := map[string]bool{}
	early, admittedDup := false, false
	steps := b.Get("steps").List()
	for si, st := range steps {
		a, i := st.Get("a").Str(), st.Get("i").Int()
		after := st.Get("after")
		mem := members[i]
		where := fmt.Sprintf("step %d (%s member %d)", si+1, a, i)
		switch a {
		case "Start":
			mem = c07Start(w, i, excluded)
			members[i] = mem
		case "Initiate":
			k := c07StateIndex(mem.cur)
			specFailed := after.Get("status").Str() == "failed"
			switch k {
			case 1, 2:
				err := mem.cur.Initiate(context.Background())
				if (err != nil) != specFailed {
					rep.Diverge(key+":initiate", fmt.Sprintf("%s: Initiate of state %d returned %v, the specification says failed=%v", where, k, err, specFailed),
						st.X, specFailed, fmt.Sprint(err))
					return
				}
				if k == 1 {
					if len(mem.sink.sent) != 1 {
						rep.Diverge(key+":initiate", where+": the first state did not send exactly one message", st.X, 1, len(mem.sink.sent))
						return
					}
					mem.real[1] = mem.sink.sent[0]
				}
			default:
				if specFailed {
					// an intruder's TSS party rejecting the operating members' round-two messages: real cryptography, see TestVerif_C07_Execute
					rep.Count("initiate_failure_not_replayed", 1)
					mem.done = true
					continue
				}
				sm, err := c07Standin(k, i, c07SessionCur, c07View(w.n, excluded, i), w.n)
				if err != nil {
					t.Fatalf("%v", err)
				}
				mem.real[k] = sm
			}
		case "Transition":
			nxt, err := mem.cur.Next()
			if err != nil || nxt == nil {
				rep.Diverge(key+":next", fmt.Sprintf("%s: Next() returned (%v, %v)", where, nxt, err), st.X, after.Get("cur").Int(), fmt.Sprint(err))
				return
			}
			mem.cur = nxt
			if r1, ok := nxt.(*tssRoundOneState); ok {
				// the TSS party context the real member set up = identities of its operating view
				var got []int
				for _, id := range r1.member.tssParameters.Parties().IDs() {
					got = append(got, int(new(big.Int).Sub(id.KeyInt(), w.seed).Int64()))
				}
				want := c07View(w.n, excluded, i)
				if fmt.Sprint(got) != fmt.Sprint(want) || r1.member.tssParameters.Threshold() != 1 ||
					int(new(big.Int).Sub(r1.member.tssParameters.PartyID().KeyInt(), w.seed).Int64()) != i {
					rep.Diverge(key+":parties", fmt.Sprintf("%s: the TSS party context is not the member's operating view", where), st.X, want, got)
					return
				}
				rep.Count("party_contexts", 1)
			}
		case "Finish":
			nxt, err := mem.cur.Next()
			fs, isFinal := mem.cur.(*finalizationState)
			if err != nil || nxt != nil || !isFinal {
				rep.Diverge(key+":finish", fmt.Sprintf("%s: the machine would not end here: Next() = (%v, %v), state %T", where, nxt, err, mem.cur), st.X, "final", nil)
				return
			}
			mem.done = true
			res := fs.result()
			var mis []int
			for _, x := range res.MisbehavedMembersIndexes() {
				mis = append(mis, int(x))
			}
			if fmt.Sprint(mis) != fmt.Sprint(after.Get("mis").Ints()) && !(len(mis) == 0 && after.Get("mis").Len() == 0) {
				rep.Diverge(key+":misbehaved", fmt.Sprintf("%s: MisbehavedMembersIndexes differs from the specification", where), st.X, after.Get("mis").Ints(), mis)
				return
			}
		case "Deliver":
			if mem == nil || mem.done {
				continue
			}
			m := st.Get("m")
			mt, ms, mk, mses, kind := m.Get("t").Int(), m.Get("s").Int(), m.Get("k").Int(), m.Get("ses").Str(), st.Get("kind").Str()
			kinds[kind] = true
			session := c07SessionCur
			if mses == "old" {
				session = c07SessionOld
			}
			payload := c07Payload(t, w, members, excluded, mt, ms, session, mses == "old" || kind == "forged", m.Get("ctx").Ints())
			seq++
			nm, err := c07Wire(payload, w.keys[mk], seq)
			if err != nil {
				t.Fatalf("harness: %s: %v", where, err)
			}
			if mt > c07StateIndex(mem.cur) {
				early = true
			}
			_, before := c07History(w, mem.base)
			if err := mem.cur.Receive(nm); err != nil {
				rep.Diverge(key+":receive", fmt.Sprintf("%s: Receive returned an error: %v", where, err), st.X, nil, err.Error())
				return
			}
			_, now := c07History(w, mem.base)
			if kind == "dup" && now > before {
				admittedDup = true
			}
			rep.Count("deliver_"+kind, 1)
			if now > before && c07StateIndex(mem.cur) == 2 {
				rep.Count("admitted_in_silent_state", 1) // a faster peer's message kept by the silent symmetric-key state
			}
			if now > before {
				rep.Count("admitted", 1)
			} else {
				rep.Count("rejected", 1)
			}
		default:
			t.Fatalf("harness: unknown step %q", a)
		}
		// ---- compare the member's real state with the specification after every step
		if mem == nil || mem.done && a != "Finish" {
			continue
		}
		set, total := c07History(w, mem.base)
		want := c07SpecHistory(after.Get("hist"))
		if fmt.Sprint(set) != fmt.Sprint(want) || total != after.Get("nadm").Int() {
			what := "the real history differs from the specification's"
			for _, r := range set {
				found := false
				for _, x := range want {
					if x == r {
						found = true
					}
				}
				if !found {
					what = fmt.Sprintf("a message the specification rejects was admitted into the history: type %d, sender %d, envelope key of seat %d, session %s", r.T, r.S, r.K, r.Ses)
				}
			}
			rep.Diverge(key+":history", fmt.Sprintf("%s: %s", where, what), st.X,
				map[string]interface{}{"hist": want, "appended": after.Get("nadm").Int()}, map[string]interface{}{"hist": set, "appended": total})
			return
		}
		if a != "Finish" {
			if got := c07StateIndex(mem.cur); got != after.Get("cur").Int() {
				rep.Diverge(key+":state", fmt.Sprintf("%s: the member is in state %d (%T), the specification in state %d", where, got, mem.cur, after.Get("cur").Int()), st.X, after.Get("cur").Int(), got)
				return
			}
			if got := mem.cur.CanTransition(); got != after.Get("can").Bool() {
				rep.Diverge(key+":cantransition", fmt.Sprintf("%s: CanTransition() = %v in state %d, the specification says %v", where, got, c07StateIndex(mem.cur), after.Get("can").Bool()),
					st.X, after.Get("can").Bool(), got)
				return
			}
		}
		rep.Count("steps", 1)
		if probes != nil && (a == "Start" || a == "Transition") && !mem.done {
			if !c07Probe(t, rep, w, members, excluded, mem, probes, key, where, &seq) {
				return
			}
		}
	}
	nt := ""
	if len(excluded) > 0 && (kinds["forged"] || kinds["intruder"]) {
		nt = key
	}
	var sample interface{}
	if bi < 3 {
		sample = map[string]interface{}{"n": w.n, "excluded": excluded, "steps": len(steps), "early": early, "duplicateAppended": admittedDup,
			"kinds": fmt.Sprint(kinds)}
	}
	if early {
		rep.Count("behaviours_with_early_message", 1)
	}
	if admittedDup {
		rep.Count("behaviours_with_duplicate", 1)
	}
	rep.Eval(nt, sample)
}

// c07Payload builds the protocol message (t, s) as it would be on the wire:
// the sender's own message if it produced one (rewritten for another session /
// as forged traffic), a real ephemeral key message, or a stand-in.
func c07Payload(t *testing.T, w *c07World, members map[int]*c07Member, excluded []int, mt, ms int, session string, rewrite bool, ctx []int) net.TaggedMarshaler {
	if src := members[ms]; src != nil && src.real[mt] != nil {
		if rewrite {
			return c07Rewrite(src.real[mt], ms, session)
		}
		return src.real[mt]
	}
	if mt == 1 {
		// an ephemeral key message of a member that has not produced one: take any real one and rewrite the sender
		for _, other := range members {
			if other.real[1] != nil {
				return c07Rewrite(other.real[1], ms, session)
			}
		}
		tmp := c07Start(w, ms, excluded)
		if err := tmp.cur.Initiate(context.Background()); err != nil {
			t.Fatalf("harness: %v", err)
		}
		return c07Rewrite(tmp.sink.sent[0], ms, session)
	}
	payload, err := c07Standin(mt, ms, session, ctx, w.n)
	if err != nil {
		t.Fatalf("%v", err)
	}
	return payload
}

// c07Probe delivers every message of the specification's probe table addressed
// to member i to the member's CURRENT real state and compares admission with
// the specification's Admit predicate (the table holds the whole injected
// alphabet: kinds x message types x senders). Rejected messages leave no trace,
// so the probe does not disturb the replay.
func c07Probe(t *testing.T, rep *kit.Report, w *c07World, members map[int]*c07Member, excluded []int, mem *c07Member, probes []kit.V, key, where string, seq *uint64) bool {
	for _, pr := range probes {
		if pr.Get("i").Int() != mem.id || pr.Get("admit").Bool() {
			continue
		}
		m := pr.Get("m")
		mt, ms, mk, mses := m.Get("t").Int(), m.Get("s").Int(), m.Get("k").Int(), m.Get("ses").Str()
		session := c07SessionCur
		if mses == "old" {
			session = c07SessionOld
		}
		payload := c07Payload(t, w, members, excluded, mt, ms, session, true, m.Get("ctx").Ints())
		*seq++
		nm, err := c07Wire(payload, w.keys[mk], *seq)
		if err != nil {
			t.Fatalf("harness: probe: %v", err)
		}
		_, before := c07History(w, mem.base)
		if err := mem.cur.Receive(nm); err != nil {
			rep.Diverge(key+":receive", fmt.Sprintf("%s: Receive returned an error for an injected message: %v", where, err), pr.X, nil, err.Error())
			return false
		}
		_, now := c07History(w, mem.base)
		rep.Count("probes", 1)
		if now != before {
			rep.Diverge(key+":admission", fmt.Sprintf("%s: state %d (%T) admitted an injected message the specification rejects: type %d, claimed sender %d, envelope key of seat %d, session %s",
				where, c07StateIndex(mem.cur), mem.cur, mt, ms, mk, mses), pr.X, "rejected", "admitted")
			return false
		}
	}
	return true
}

// ---------------------------------------------------------------- real Execute over a scheduled channel

type c07MsgKey struct{ t, s int }

type c07Hub struct {
	mu       sync.Mutex
	w        *c07World
	sent     map[c07MsgKey]net.TaggedMarshaler
	sentBy   map[int][]int // member -> types in sending order (retransmissions excluded)
	handlers map[int]func(net.Message)
	hctx     map[int]context.Context
	seq      uint64
}

type c07Port struct {
	hub *c07Hub
	id  int
}

func (p *c07Port) Name() string { return "verif-c07" }
func (p *c07Port) Send(_ context.Context, m net.TaggedMarshaler, _ ...net.RetransmissionStrategy) error {
	p.hub.mu.Lock()
	defer p.hub.mu.Unlock()
	t := c07TypeIndex(m.Type())
	k := c07MsgKey{t, p.id}
	if _, dup := p.hub.sent[k]; !dup {
		p.hub.sent[k] = m
	}
	p.hub.sentBy[p.id] = append(p.hub.sentBy[p.id], t)
	return nil
}
func (p *c07Port) Recv(ctx context.Context, h func(net.Message)) {
	p.hub.mu.Lock()
	p.hub.handlers[p.id] = h
	p.hub.hctx[p.id] = ctx
	p.hub.mu.Unlock()
}
func (p *c07Port) SetUnmarshaler(func() net.TaggedUnmarshaler) {}
func (p *c07Port) SetFilter(net.BroadcastChannelFilter) error  { return nil }

func (h *c07Hub) get(k c07MsgKey) net.TaggedMarshaler {
	h.mu.Lock()
	defer h.mu.Unlock()
	return h.sent[k]
}

func (h *c07Hub) anyOfType(t int) net.TaggedMarshaler {
	h.mu.Lock()
	defer h.mu.Unlock()
	for k, m := range h.sent {
		if k.t == t {
			return m
		}
	}
	return nil
}

// deliver hands a message to member i's registered handler (false: no live handler)
func (h *c07Hub) deliver(i int, m net.TaggedMarshaler, key []byte) (bool, error) {
	h.mu.Lock()
	hd, ctx := h.handlers[i], h.hctx[i]
	h.seq++
	seq := h.seq
	h.mu.Unlock()
	if hd == nil || ctx.Err() != nil {
		return false, nil
	}
	nm, err := c07Wire(m, key, seq)
	if err != nil {
		return false, err
	}
	// the machine's receive buffer is large; should a member stop draining it the harness must not block with it
	doneCh := make(chan struct{})
	go func() { hd(nm); close(doneCh) }()
	select {
	case <-doneCh:
		return true, nil
	case <-time.After(20 * time.Second):
		return false, nil
	}
}

type c07ExecOut struct {
	i   int
	res *Result
	err error
}

func TestVerif_C07_Execute(t *testing.T) {
	kit.RequireEngine(t)
	rep := kit.NewReport("C07", "execute")
	defer rep.Write(t)
	behs := kit.LoadCases(t, "execute.ndjson")
	budget := time.Duration(kit.IntEnv("VERIF_KEYGEN_BUDGET_S", 1200)) * time.Second
	for bi, b := range behs {
		if c07StatesDiverged > 0 {
			rep.Note("real key generations skipped: the state replay already diverged")
			rep.Eval("", nil)
			continue
		}
		if rep.NDivergences() > 0 {
			rep.Note("remaining real key generations skipped after a divergence")
			rep.Eval("", nil)
			continue
		}
		c07Execute(t, rep, b, bi, budget)
	}
}

func c07Execute(t *testing.T, rep *kit.Report, b kit.V, bi int, budget time.Duration) {
	n := b.Get("n").Int()
	w := c07NewWorld(t, n)
	w.seed = new(big.Int).Rand(kit.Rand(int64(700+bi)), new(big.Int).Lsh(big.NewInt(1), 200))
	excluded, operating, intruders := b.Get("excluded").Ints(), b.Get("operating").Ints(), b.Get("intruders").Ints()
	key := fmt.Sprintf("execute:%s", kit.Hash(b.Get("steps").X))
	hub := &c07Hub{w: w, sent: map[c07MsgKey]net.TaggedMarshaler{}, sentBy: map[int][]int{}, handlers: map[int]func(net.Message){}, hctx: map[int]context.Context{}}
	ctx, cancel := context.WithTimeout(context.Background(), budget)
	defer cancel()
	outc := make(chan c07ExecOut, n)
	started := map[int]bool{}
	var exMu sync.Mutex
	start := func(i int) {
		if started[i] {
			return
		}
		started[i] = true
		go func() {
			defer func() {
				if r := recover(); r != nil {
					outc <- c07ExecOut{i, nil, fmt.Errorf("panic: %v", r)}
				}
			}()
			exMu.Lock()
			ex := VerifNewExecutor([]*keygen.LocalPreParams{&w.fix[i-1].LocalPreParams}, 2)
			exMu.Unlock()
			var ex32 []group.MemberIndex
			for _, e := range excluded {
				ex32 = append(ex32, group.MemberIndex(e))
			}
			res, err := ex.Execute(ctx, &testutils.MockLogger{}, w.seed, c07SessionCur, group.MemberIndex(i), n, w.dishonest(), ex32,
				&c07Port{hub: hub, id: i}, w.validator)
			outc <- c07ExecOut{i, res, err}
		}()
	}
	isOp := func(i int) bool {
		for _, o := range operating {
			if o == i {
				return true
			}
		}
		return false
	}
	results := map[int]*Result{}
	errs := map[int]error{}
	drain := func() {
		for {
			select {
			case o := <-outc:
				if o.err != nil {
					errs[o.i] = o.err
				} else {
					results[o.i] = o.res
				}
			default:
				return
			}
		}
	}
	t0 := time.Now()
	counts := map[string]int{}
	// the behaviour contains every delivery the operating members need; from here on the network behaves like the real one
	// with retransmissions: everything that was sent keeps being delivered to everybody (duplicates and rejected messages
	// are harmless for a correct member)
	lastFlush := time.Now()
	flush := func() {
		if time.Since(lastFlush) < 300*time.Millisecond {
			return
		}
		lastFlush = time.Now()
		hub.mu.Lock()
		type pend struct {
			k c07MsgKey
			m net.TaggedMarshaler
		}
		var all []pend
		for k, m := range hub.sent {
			all = append(all, pend{k, m})
		}
		var rcv []int
		for i := range hub.handlers {
			rcv = append(rcv, i)
		}
		hub.mu.Unlock()
		for _, p := range all {
			for _, i := range rcv {
				if _, fin := results[i]; fin {
					continue
				}
				if _, err := hub.deliver(i, p.m, w.keys[p.k.s]); err != nil {
					t.Fatalf("harness: flush: %v", err)
				}
			}
		}
		counts["flush_rounds"]++
	}
	patience := time.Duration(kit.IntEnv("VERIF_PATIENCE_S", 25)) * time.Second
	// waitFor waits until cond holds; false = an operating member failed or the budget ran out. A wait that lasts longer
	// than the patience means the members need more than the behaviour delivered so far (on a correct member: never,
	// unless the machine is very slow): the network then delivers everything sent so far, as retransmissions would.
	waitFor := func(cond func() bool) bool {
		w0 := time.Now()
		for {
			if cond() {
				return true
			}
			if time.Since(w0) > patience {
				flush()
				counts["impatient_flush"] = 1
			}
			drain()
			for i := range errs {
				if isOp(i) {
					return false
				}
			}
			if ctx.Err() != nil {
				return false
			}
			time.Sleep(5 * time.Millisecond)
		}
	}
	steps := b.Get("steps").List()
	aborted := false
	for si, st := range steps {
		a, i := st.Get("a").Str(), st.Get("i").Int()
		switch a {
		case "Start":
			start(i)
		case "Deliver":
			m := st.Get("m")
			mt, ms, mk, mses, kind := m.Get("t").Int(), m.Get("s").Int(), m.Get("k").Int(), m.Get("ses").Str(), st.Get("kind").Str()
			// the receiver must have registered its handler (it is running)
			if !waitFor(func() bool { hub.mu.Lock(); defer hub.mu.Unlock(); return hub.handlers[i] != nil }) {
				aborted = true
				break
			}
			var payload net.TaggedMarshaler
			switch kind {
			case "genuine", "echo", "dup":
				if !waitFor(func() bool { return hub.get(c07MsgKey{mt, ms}) != nil }) {
					aborted = true
					break
				}
				payload = hub.get(c07MsgKey{mt, ms})
			case "intruder":
				// the intruder runs for real: its message exists if it got that far; otherwise inject a stand-in
				deadline := time.Now().Add(20 * time.Second)
				waitFor(func() bool { return hub.get(c07MsgKey{mt, ms}) != nil || time.Now().After(deadline) })
				payload = hub.get(c07MsgKey{mt, ms})
			}
			if aborted {
				break
			}
			if payload == nil {
				session := c07SessionCur
				if mses == "old" {
					session = c07SessionOld
				}
				if real := hub.get(c07MsgKey{mt, ms}); real != nil {
					payload = c07Rewrite(real, ms, session) // e.g. the peer's real message, replayed under another session / key
				} else if any := hub.anyOfType(mt); any != nil {
					payload = c07Rewrite(any, ms, session)
				} else if mt == 1 {
					tmp := c07Start(w, ms, excluded)
					if err := tmp.cur.Initiate(context.Background()); err != nil {
						t.Fatalf("harness: %v", err)
					}
					payload = c07Rewrite(tmp.sink.sent[0], ms, session)
				} else {
					var err error
					payload, err = c07Standin(mt, ms, session, m.Get("ctx").Ints(), n)
					if err != nil {
						t.Fatalf("%v", err)
					}
				}
			}
			ok, err := hub.deliver(i, payload, w.keys[mk])
			if err != nil {
				t.Fatalf("harness: step %d: %v", si+1, err)
			}
			if ok {
				counts[kind]++
			}
		}
		if aborted {
			break
		}
	}
	// every operating member must now complete
	done := waitFor(func() bool {
		drain()
		if !aborted {
			flush()
		}
		for _, o := range operating {
			if results[o] == nil {
				return false
			}
		}
		return true
	})
	drain()
	rep.Extra[fmt.Sprintf("run%d_wall_s", bi)] = time.Since(t0).Seconds()
	rep.Extra[fmt.Sprintf("run%d_deliveries", bi)] = fmt.Sprint(counts)
	caseInfo := map[string]interface{}{"n": n, "excluded": excluded, "intruders": intruders, "deliveries": counts}
	if !done {
		for _, o := range operating {
			if e := errs[o]; e != nil && !(ctx.Err() == context.DeadlineExceeded && strings.Contains(e.Error(), "context")) {
				rep.Diverge(key+":failed", fmt.Sprintf("operating member %d did not complete the key generation: %v", o, e), caseInfo, "result", e.Error())
			}
		}
		if rep.NDivergences() == 0 {
			t.Fatalf("harness: key generation %s did not finish within %v (results %d/%d, errors %v)", key, budget, len(results), len(operating), errs)
		}
		return
	}
	rep.Count("real_keygens", 1)
	// ---- C07 observations
	var pub0 string
	for _, o := range operating {
		res := results[o]
		pk, err := res.GroupPublicKeyBytes()
		if err != nil {
			rep.Diverge(key+":key", fmt.Sprintf("member %d has no group public key: %v", o, err), caseInfo, nil, nil)
			continue
		}
		if pub0 == "" {
			pub0 = string(pk)
		} else if pub0 != string(pk) {
			rep.Diverge(key+":key", fmt.Sprintf("operating members derived different wallet public keys (member %d differs from member %d)", o, operating[0]), caseInfo, nil, nil)
		}
		var mis []int
		for _, x := range res.MisbehavedMembersIndexes() {
			mis = append(mis, int(x))
		}
		if fmt.Sprint(mis) != fmt.Sprint(excluded) && !(len(mis) == 0 && len(excluded) == 0) {
			rep.Diverge(key+":misbehaved", fmt.Sprintf("member %d: misbehaved members differ from the excluded members", o), caseInfo, excluded, mis)
		}
		// the key depends on the operating members only: the parties of the share are exactly their identities
		ks := res.PrivateKeyShare.Data().Ks
		var got []int
		for _, k := range ks {
			d := new(big.Int).Sub(k, w.seed)
			got = append(got, int(d.Int64()))
		}
		if fmt.Sprint(got) != fmt.Sprint(operating) {
			rep.Diverge(key+":parties", fmt.Sprintf("member %d: the key share's parties are not the operating members", o), caseInfo, operating, got)
		}
		// each member sent one message per sending state, in order
		hub.mu.Lock()
		sb := fmt.Sprint(hub.sentBy[o])
		hub.mu.Unlock()
		if sb != "[1 3 4 5 6]" {
			rep.Diverge(key+":sent", fmt.Sprintf("member %d sent messages of states %s, expected [1 3 4 5 6]", o, sb), caseInfo, "[1 3 4 5 6]", sb)
		}
	}
	if len(intruders) > 0 {
		// give a running excluded member some time to reach its own end (informational)
		deadline := time.Now().Add(30 * time.Second)
		for time.Now().Before(deadline) {
			drain()
			all := true
			for _, e := range intruders {
				if started[e] && errs[e] == nil && results[e] == nil {
					all = false
				}
			}
			if all {
				break
			}
			time.Sleep(50 * time.Millisecond)
		}
	}
	for _, e := range intruders {
		if results[e] != nil {
			rep.Diverge(key+":intruder", fmt.Sprintf("excluded member %d completed the key generation", e), caseInfo, "no result", "result")
		}
		if er := errs[e]; er != nil {
			rep.Note("run %d: excluded member %d ended with: %v", bi, e, er)
			if strings.Contains(er.Error(), "tssRoundThreeState") {
				rep.Count("intruder_failed_at_round_three", 1)
			}
		}
	}
	nt := ""
	if len(excluded) > 0 {
		nt = key
	}
	rep.Eval(nt, caseInfo)
}
