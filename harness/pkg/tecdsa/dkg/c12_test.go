//go:build verif

package dkg

// C12 conformance harness, pkg/tecdsa/dkg (specs/Admission, rows
// pkg/tecdsa/dkg/*): every case of the admission predicate is delivered to the
// REAL Receive of every state of the tECDSA key generation (rule "member":
// any payload implementing the package's `message` interface is stored) and
// of the result publication (resultSigningState: rule "memberKey", only
// resultSignatureMessage; the two later states are silent).
//
// How the states are obtained: the member is created with the real newMember
// (as Executor.Execute does; the exclusion of the case is applied to its group
// with MarkMemberAsDisqualified / MarkMemberAsInactive) and the state is
// reached from the initial state by following the real Next() chain, with the
// package's predefined test TSS pre-parameters so that initializeTssRoundOne
// does not have to generate any. The result publication starts from the state
// Publish builds (real newSigningMember).
//
// Messages go through the real Marshal, get the wire sender index and are
// decoded by the unmarshalers RegisterUnmarshallers registers.
// Observation: the BaseAsyncState history before and after Receive.

import (
	"fmt"
	"math/big"
	"testing"

	"github.com/keep-network/keep-core/internal/testutils"
	verifadm "github.com/keep-network/keep-core/internal/verifadm"
	kit "github.com/keep-network/keep-core/internal/verifkit"
	"github.com/keep-network/keep-core/pkg/net"
	"github.com/keep-network/keep-core/pkg/protocol/group"
	"github.com/keep-network/keep-core/pkg/protocol/state"
)

func c12Template(w *verifadm.World, c *verifadm.Case, typ string) (net.TaggedMarshaler, error) {
	session := c.Session()
	switch typ {
	case "ephemeralPublicKeyMessage":
		return &ephemeralPublicKeyMessage{sessionID: session}, nil
	case "tssRoundOneMessage":
		return &tssRoundOneMessage{broadcastPayload: []byte{1}, sessionID: session}, nil
	case "tssRoundTwoMessage":
		return &tssRoundTwoMessage{broadcastPayload: []byte{1}, peersPayload: map[group.MemberIndex][]byte{1: {2}}, sessionID: session}, nil
	case "tssRoundThreeMessage":
		return &tssRoundThreeMessage{broadcastPayload: []byte{1}, sessionID: session}, nil
	case "tssFinalizationMessage":
		return &tssFinalizationMessage{sessionID: session}, nil
	case "resultSignatureMessage":
		m := &resultSignatureMessage{signature: []byte{1, 2}, publicKey: w.EmbeddedKey(c), sessionID: session}
		m.resultHash[0] = 0x42
		return m, nil
	}
	return nil, fmt.Errorf("harness: unknown tecdsa/dkg payload type %q", typ)
}

func TestVerif_C12_TecdsaDkg(t *testing.T) {
	kit.RequireEngine(t)
	rep := kit.NewReport("C12", "admission_tecdsa_dkg")
	defer rep.Write(t)
	w := verifadm.LoadWorld(t)
	steps := verifadm.LoadSteps(t, "pkg/tecdsa/dkg")
	cases := verifadm.LoadCases(t)
	validator := w.Validator()
	ch := verifadm.NewChannel()
	RegisterUnmarshallers(ch)
	pre, err := generateMembersTssPreParams(1) // predefined test pre-parameters of member 1
	if err != nil {
		t.Fatal(err)
	}
	preParamsFn := func() (*PreParams, error) { return &PreParams{data: pre[1]}, nil }

	payload := func(c *verifadm.Case, typ string) (interface{}, error) {
		if typ == "foreign" {
			return &verifadm.Foreign{SenderID: group.MemberIndex(c.Wire)}, nil
		}
		tpl, err := c12Template(w, c, typ)
		if err != nil {
			return nil, err
		}
		return ch.Decode(tpl, c.Wire)
	}
	publication := map[string]bool{"resultSigningState": true, "signaturesVerificationState": true, "resultSubmissionState": true}
	drivers := map[string]verifadm.Driver{}
	for _, s := range steps {
		name := s.Name
		drivers[name] = func(c *verifadm.Case, typ string) (string, string, error) {
			base := state.NewBaseAsyncState()
			var first state.AsyncState
			if publication[name] {
				g := group.NewGroup(1, w.N)
				c.MarkCurrent(g)
				first = &resultSigningState{BaseAsyncState: base, channel: ch,
					member: newSigningMember(&testutils.MockLogger{}, group.MemberIndex(c.Recv), g, validator, verifadm.SessionOK),
					result: &Result{Group: g}}
			} else {
				m := newMember(&testutils.MockLogger{}, big.NewInt(7), group.MemberIndex(c.Recv), w.N, 1, validator,
					verifadm.SessionOK, preParamsFn, 1)
				c.MarkCurrent(m.group)
				first = &ephemeralKeyPairGenerationState{BaseAsyncState: base, channel: ch, member: m.initializeEphemeralKeysGeneration()}
			}
			st, err := verifadm.WalkAsync(first, name)
			if err != nil {
				return "", "", err
			}
			p, err := payload(c, typ)
			if o, d, e, stop := verifadm.Dropped(err); stop {
				return o, d, e
			}
			return verifadm.ObserveHistory(st, base, w.Net(c, p))
		}
	}
	verifadm.Run(t, rep, w, steps, cases, drivers)
}
