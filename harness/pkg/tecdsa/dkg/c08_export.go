//go:build verif

package dkg

// Verification-only exports of package dkg (overlaid as a NON-test file with
// build tag `verif`, so that harnesses living in other packages -- pkg/tbtc
// for C08 -- can reach the real key-generation identity code).
//
// Nothing here re-implements protocol logic except the five-line marking loop
// of Executor.Execute, which cannot be called on its own (the real loop is
// exercised by the real Execute runs of the C07/C08 harnesses).

import (
	"context"
	"fmt"
	"math/big"
	"sync"

	"github.com/bnb-chain/tss-lib/ecdsa/keygen"
	"github.com/keep-network/keep-core/internal/testutils"
	"github.com/keep-network/keep-core/pkg/generator"
	"github.com/keep-network/keep-core/pkg/protocol/group"
	"github.com/keep-network/keep-core/pkg/tecdsa/common"
)

// VerifParties is what a member's real initializeTssRoundOne set up.
type VerifParties struct {
	Operating  []int          // group.OperatingMemberIndexes() of the member
	Own        string         // own party key (decimal)
	OwnID      string         // own party id string
	OwnMoniker string         // own moniker
	OwnIndex   int            // own index in the sorted context
	OwnBack    int            // TssPartyIDToMemberIndex(own party)
	Sorted     []string       // keys of the sorted peer context
	SortedBack []int          // TssPartyIDToMemberIndex for every party of the context
	Resolved   map[int]string // member index -> key found by ResolveSortedTssPartyID ("" = nil)
	ConvKey    map[int]string // member index -> MemberIndexToTssPartyIDKey
	Threshold  int
	PartyCount int
	Group      *group.Group
}

// VerifC08KeygenParties builds the real key-generation member as
// Executor.Execute does (newMember + the marking loop) and walks the real
// member chain up to initializeTssRoundOne (which creates the TSS party but
// does not start it).
func VerifC08KeygenParties(
	seed *big.Int,
	memberIndex group.MemberIndex,
	groupSize int,
	dishonestThreshold int,
	excluded []group.MemberIndex,
	pre *keygen.LocalPreParams,
) (out *VerifParties, err error) {
	defer func() {
		if r := recover(); r != nil {
			out, err = nil, fmt.Errorf("panic: %v", r)
		}
	}()
	m := newMember(&testutils.MockLogger{}, seed, memberIndex, groupSize, dishonestThreshold, nil,
		"verif-session", func() (*PreParams, error) { return newPreParams(pre), nil }, 1)
	// copy of the marking loop of Executor.Execute
	for _, e := range excluded {
		if e != m.id {
			m.group.MarkMemberAsDisqualified(e)
		}
	}
	r1, err := m.initializeEphemeralKeysGeneration().initializeSymmetricKeyGeneration().initializeTssRoundOne()
	if err != nil {
		return nil, err
	}
	p := r1.tssParameters
	out = &VerifParties{Resolved: map[int]string{}, ConvKey: map[int]string{}, Group: m.group,
		Threshold: p.Threshold(), PartyCount: p.PartyCount()}
	for _, i := range m.group.OperatingMemberIndexes() {
		out.Operating = append(out.Operating, int(i))
		out.ConvKey[int(i)] = m.identityConverter.MemberIndexToTssPartyIDKey(i).Text(10)
		if id := common.ResolveSortedTssPartyID(p, i, m.identityConverter); id != nil {
			out.Resolved[int(i)] = id.KeyInt().Text(10)
		} else {
			out.Resolved[int(i)] = ""
		}
	}
	own := p.PartyID()
	if own == nil {
		return nil, fmt.Errorf("own party id is nil")
	}
	out.Own, out.OwnID, out.OwnMoniker, out.OwnIndex = own.KeyInt().Text(10), own.Id, own.Moniker, own.Index
	out.OwnBack = int(m.identityConverter.TssPartyIDToMemberIndex(own))
	for _, id := range p.Parties().IDs() {
		out.Sorted = append(out.Sorted, id.KeyInt().Text(10))
		out.SortedBack = append(out.SortedBack, int(m.identityConverter.TssPartyIDToMemberIndex(id)))
	}
	return out, nil
}

type verifPreParamsPersistence struct {
	mu    sync.Mutex
	items []*generator.Persisted[PreParams]
}

func (p *verifPreParamsPersistence) Save(pp *PreParams) (*generator.Persisted[PreParams], error) {
	return &generator.Persisted[PreParams]{Data: *pp, ID: "x"}, nil
}
func (p *verifPreParamsPersistence) Delete(*generator.Persisted[PreParams]) error { return nil }
func (p *verifPreParamsPersistence) ReadAll() ([]*generator.Persisted[PreParams], error) {
	p.mu.Lock()
	defer p.mu.Unlock()
	return p.items, nil
}

// VerifNewExecutor returns a real Executor whose pre-parameters pool is filled
// with the given (fixture) pre-parameters instead of freshly generated safe
// primes. The pool's generator function never produces anything.
func VerifNewExecutor(pre []*keygen.LocalPreParams, keyGenerationConcurrency int) *Executor {
	logger := &testutils.MockLogger{}
	pers := &verifPreParamsPersistence{}
	for i, p := range pre {
		pers.items = append(pers.items, &generator.Persisted[PreParams]{Data: *newPreParams(p), ID: fmt.Sprintf("pp-%d", i)})
	}
	pool := generator.NewParameterPool[PreParams](logger, &generator.Scheduler{}, pers, len(pre),
		func(ctx context.Context) *PreParams { <-ctx.Done(); return nil }, 0)
	return &Executor{
		tssPreParamsPool:         &tssPreParamsPool{ParameterPool: pool, logger: logger},
		keyGenerationConcurrency: keyGenerationConcurrency,
	}
}
