//go:build verif

package dkg

// C13 conformance harness, tECDSA DKG result support counting
// (specs/Support, Proto = "tecdsa", duplicate rule "firstWins").
//
// Every case of SupportCases is fed to the REAL resultSigningState /
// signaturesVerificationState / resultSubmissionState (async states) of member
// 1 with real signed messages. The ResultSigner is built on the same
// chain.Signing calls the production signer (pkg/tbtc dkgResultSigner) makes;
// the production signer and the quorum gate of dkgResultSubmitter.SubmitResult
// are exercised by the pkg/tbtc part of this check. The ResultSubmitter
// records the signature map it is handed.

import (
	"context"
	"fmt"
	"testing"

	"github.com/keep-network/keep-core/internal/testutils"
	kit "github.com/keep-network/keep-core/internal/verifkit"
	vsup "github.com/keep-network/keep-core/internal/verifsup"
	"github.com/keep-network/keep-core/pkg/chain"
	"github.com/keep-network/keep-core/pkg/net"
	"github.com/keep-network/keep-core/pkg/protocol/group"
	"github.com/keep-network/keep-core/pkg/protocol/state"
)

type c13Signer struct {
	signing chain.Signing
	hash    ResultSignatureHash
}

func (s *c13Signer) SignResult(r *Result) (*SignedResult, error) {
	sig, err := s.signing.Sign(s.hash[:])
	if err != nil {
		return nil, err
	}
	return &SignedResult{PublicKey: s.signing.PublicKey(), Signature: sig, ResultHash: s.hash}, nil
}

func (s *c13Signer) VerifySignature(sr *SignedResult) (bool, error) {
	return s.signing.VerifyWithPublicKey(sr.ResultHash[:], sr.Signature, sr.PublicKey)
}

type c13Submitter struct {
	calls []map[group.MemberIndex][]byte
	index []group.MemberIndex
}

func (s *c13Submitter) SubmitResult(ctx context.Context, i group.MemberIndex, r *Result, sigs map[group.MemberIndex][]byte) error {
	cp := map[group.MemberIndex][]byte{}
	for k, v := range sigs {
		cp[k] = v
	}
	s.calls = append(s.calls, cp)
	s.index = append(s.index, i)
	return nil
}

type c13Channel struct{}

func (c *c13Channel) Name() string { return "verif" }
func (c *c13Channel) Send(context.Context, net.TaggedMarshaler, ...net.RetransmissionStrategy) error {
	return nil
}
func (c *c13Channel) Recv(context.Context, func(net.Message))     {}
func (c *c13Channel) SetUnmarshaler(func() net.TaggedUnmarshaler) {}
func (c *c13Channel) SetFilter(net.BroadcastChannelFilter) error  { return nil }

type c13NetMessage struct {
	payload *resultSignatureMessage
	key     []byte
}

func (m *c13NetMessage) TransportSenderID() net.TransportIdentifier { return nil }
func (m *c13NetMessage) SenderPublicKey() []byte                    { return m.key }
func (m *c13NetMessage) Payload() interface{}                       { return m.payload }
func (m *c13NetMessage) Type() string                               { return m.payload.Type() }
func (m *c13NetMessage) Seqno() uint64                              { return 0 }

func c13ToMap(m map[group.MemberIndex][]byte) map[int][]byte {
	out := map[int][]byte{}
	for k, v := range m {
		out[int(k)] = v
	}
	return out
}

func TestVerif_C13_Tecdsa(t *testing.T) {
	kit.RequireEngine(t)
	rep := kit.NewReport("C13", "tecdsa_support")
	defer rep.Write(t)
	const n = 4
	ring, err := vsup.NewKeyring(n)
	if err != nil {
		t.Fatal(err)
	}
	validator := group.NewMembershipValidator(&testutils.MockLogger{}, ring.Addresses, ring.Signers[1])
	mine, other := ResultSignatureHash(vsup.HashOf("mine")), ResultSignatureHash(vsup.HashOf("other"))
	ctx := context.Background()
	for ci, c := range kit.LoadCases(t, "supportcases.ndjson") {
		func() {
			defer func() {
				if r := recover(); r != nil {
					rep.Diverge("tecdsa:panic:"+kit.Hash(c.X), fmt.Sprintf("tecdsa result states panicked: %v", r), c.X, nil, nil)
				}
			}()
			g := group.NewGroup(1, n)
			for k, no := range c.Get("nonop").Ints() {
				if (ci+k)%2 == 0 {
					g.MarkMemberAsInactive(group.MemberIndex(no))
				} else {
					g.MarkMemberAsDisqualified(group.MemberIndex(no))
				}
			}
			signer := &c13Signer{signing: ring.Signers[1], hash: mine}
			submitter := &c13Submitter{}
			member := newSigningMember(&testutils.MockLogger{}, 1, g, validator, vsup.Session)
			st := &resultSigningState{BaseAsyncState: state.NewBaseAsyncState(), channel: &c13Channel{}, resultSigner: signer,
				resultSubmitter: submitter, member: member, result: &Result{Group: g}}
			if err := st.Initiate(ctx); err != nil {
				t.Fatalf("Initiate: %v", err)
			}
			ring.NewCase()
			ring.SetGenuine(1, mine, member.selfDKGResultSignature)
			msgs := c.Get("msgs").List()
			accepted := c.Get("accepted").List()
			concrete := make([]vsup.Concrete, len(msgs))
			key := "tecdsa:" + kit.Hash([]interface{}{c.Get("nonop").X, c.Get("msgs").X})
			nontrivial := ""
			if len(msgs) > 0 {
				nontrivial = key
			}
			rep.Eval(nontrivial, map[string]interface{}{"case": c.X})
			typ := (&resultSignatureMessage{}).Type()
			for k, m := range msgs {
				cm, err := ring.Realize(m, ci+3*k, mine, other)
				if err != nil {
					t.Fatalf("realize: %v", err)
				}
				concrete[k] = cm
				before := len(st.GetAllReceivedMessages(typ))
				if err := st.Receive(&c13NetMessage{payload: &resultSignatureMessage{senderID: group.MemberIndex(cm.Sender),
					resultHash: cm.Hash, signature: cm.Signature, publicKey: cm.PublicKey, sessionID: cm.Session}, key: cm.NetKey}); err != nil {
					rep.Diverge(key, fmt.Sprintf("Receive returned an error: %v", err), c.X, nil, nil)
					return
				}
				got := len(st.GetAllReceivedMessages(typ)) > before
				if got != accepted[k].Bool() {
					rep.Diverge(key, fmt.Sprintf("tecdsa: message %d (%s) stored=%v, specification accepts=%v", k+1, cm.How, got, accepted[k].Bool()),
						c.X, accepted[k].Bool(), got)
					return
				}
			}
			next, err := st.Next()
			if err != nil {
				t.Fatalf("Next: %v", err)
			}
			svs := next.(*signaturesVerificationState)
			if err := svs.Initiate(ctx); err != nil {
				rep.Diverge(key, fmt.Sprintf("verification failed: %v", err), c.X, nil, nil)
				return
			}
			verdict := vsup.Verdict(c, "firstWins")
			if !vsup.CompareMap(rep, "tecdsa", "verified", c, verdict, c13ToMap(svs.validSignatures), concrete, member.selfDKGResultSignature) {
				return
			}
			nx, _ := svs.Next()
			sub := nx.(*resultSubmissionState)
			if err := sub.Initiate(ctx); err != nil {
				rep.Diverge(key, fmt.Sprintf("submission state failed: %v", err), c.X, nil, nil)
				return
			}
			if len(submitter.calls) != 1 || submitter.index[0] != 1 {
				rep.Diverge(key, fmt.Sprintf("tecdsa: the submitter was called %d times (as %v)", len(submitter.calls), submitter.index), c.X, nil, nil)
				return
			}
			if !vsup.CompareMap(rep, "tecdsa", "handed-to-submitter", c, verdict, c13ToMap(submitter.calls[0]), concrete, member.selfDKGResultSignature) {
				return
			}
			rep.Count("tecdsa.cases", 1)
			rep.Count(fmt.Sprintf("tecdsa.supporters.%d", len(verdict)), 1)
		}()
		if rep.NDivergences() >= 10 {
			rep.Note("stopped after %d divergences", rep.NDivergences())
			break
		}
	}
}
