//go:build verif

package dkg

// C39 conformance harness for pkg/tecdsa/dkg (see /verif/specs/Pool).
//
// The real generator.ParameterPool[PreParams] runs over the real
// preParamsStorage, which in turn runs over an in-memory
// persistence.BasicHandle supplied by the harness. Save / Delete of the handle
// park in the replay driver (internal/verifc39) until the behaviour generated
// by TLC decides their outcome (ok, error, process crash after the effect);
// ReadAll streams whatever is in the store in arbitrary order, fails to read
// the entries the behaviour marks unreadable, and always contains junk that
// must be ignored (a file of another directory, garbage bytes, a truncated
// protobuf, a file whose content cannot be read). Pre-parameters are the five tss-lib fixtures of
// pkg/internal/tecdsatest; a value handed out by GetNow is identified by
// comparing its marshalled bytes with the fixtures (byte-for-byte).

import (
	"bytes"
	"context"
	"fmt"
	"sort"
	"sync"
	"testing"
	"time"

	"github.com/ipfs/go-log/v2"

	"github.com/keep-network/keep-common/pkg/persistence"
	c39 "github.com/keep-network/keep-core/internal/verifc39"
	kit "github.com/keep-network/keep-core/internal/verifkit"
	"github.com/keep-network/keep-core/pkg/generator"
	"github.com/keep-network/keep-core/pkg/internal/tecdsatest"
)

var c39Base = time.Date(2023, 5, 1, 12, 0, 0, 0, time.UTC)

type c39Fixtures struct {
	params []*PreParams // index id-1
	bytes  [][]byte
}

func c39LoadFixtures(t *testing.T) *c39Fixtures {
	data, err := tecdsatest.LoadPrivateKeyShareTestFixtures(5)
	if err != nil {
		t.Fatalf("fixtures: %v", err)
	}
	f := &c39Fixtures{}
	for i := range data {
		lp := data[i].LocalPreParams
		// newer parameters get later timestamps; sub-millisecond differences
		// for 4 and 5 so that only the timestamp inside the file orders them
		ts := c39Base.Add(time.Duration(i+1) * time.Second)
		if i >= 3 {
			ts = c39Base.Add(4*time.Second + time.Duration(i)*time.Microsecond)
		}
		pp := &PreParams{data: &lp, creationTimestamp: ts}
		if !pp.data.ValidateWithProof() {
			t.Fatalf("fixture %d is not valid", i)
		}
		b, err := pp.Marshal()
		if err != nil {
			t.Fatalf("marshal fixture: %v", err)
		}
		f.params = append(f.params, pp)
		f.bytes = append(f.bytes, b)
	}
	return f
}

func (f *c39Fixtures) idOfBytes(b []byte) int {
	for i, x := range f.bytes {
		if bytes.Equal(x, b) {
			return i + 1
		}
	}
	return 0
}

func (f *c39Fixtures) idOf(pp *PreParams) int {
	if pp == nil || pp.data == nil {
		return 0
	}
	b, err := pp.Marshal()
	if err != nil {
		return 0
	}
	return f.idOfBytes(b)
}

type c39File struct {
	dir, name string
	data      []byte
	torn      bool // Content() fails (what the encrypted handle reports for a torn write)
}

type c39Store struct {
	mu    sync.Mutex
	files map[string]c39File // dir/name
}

type c39Handle struct {
	store    *c39Store
	fx       *c39Fixtures
	d        *c39.Driver
	inc      *c39.Inc
	readable map[int]bool
}

func (h *c39Handle) Save(data []byte, directory string, name string) error {
	id := h.fx.idOfBytes(data)
	out := h.d.AtSave(h.inc, id)
	if out == c39.Fail {
		return fmt.Errorf("verif: disk full")
	}
	h.store.mu.Lock()
	h.store.files[directory+"/"+name] = c39File{dir: directory, name: name, data: append([]byte{}, data...)}
	h.store.mu.Unlock()
	if out == c39.CrashAfter {
		h.d.Exit()
	}
	return nil
}

func (h *c39Handle) Delete(directory string, name string) error {
	h.store.mu.Lock()
	f, present := h.store.files[directory+"/"+name]
	h.store.mu.Unlock()
	id := 0
	if present {
		id = h.fx.idOfBytes(f.data)
	}
	out := h.d.AtDelete(h.inc, id)
	if out == c39.Fail {
		return fmt.Errorf("verif: cannot remove file")
	}
	h.store.mu.Lock()
	delete(h.store.files, directory+"/"+name)
	h.store.mu.Unlock()
	if out == c39.CrashAfter {
		h.d.Exit()
	}
	if !present {
		return fmt.Errorf("verif: no such file %s/%s", directory, name)
	}
	return nil
}

type c39Descriptor struct {
	f    c39File
	fail bool
}

func (d *c39Descriptor) Name() string      { return d.f.name }
func (d *c39Descriptor) Directory() string { return d.f.dir }
func (d *c39Descriptor) Content() ([]byte, error) {
	if d.fail {
		return nil, fmt.Errorf("verif: read error")
	}
	return append([]byte{}, d.f.data...), nil
}

func (h *c39Handle) ReadAll() (<-chan persistence.DataDescriptor, <-chan error) {
	dc := make(chan persistence.DataDescriptor)
	ec := make(chan error)
	h.store.mu.Lock()
	var ds []*c39Descriptor
	for _, f := range h.store.files { // map order: arbitrary
		id := h.fx.idOfBytes(f.data)
		ds = append(ds, &c39Descriptor{f: f, fail: f.torn || (id > 0 && f.dir == dirName && !h.readable[id])})
	}
	h.store.mu.Unlock()
	go func() {
		for i, d := range ds {
			if i == len(ds)/2 {
				ec <- fmt.Errorf("verif: a directory could not be listed")
			}
			dc <- d
		}
		close(dc)
		close(ec)
	}()
	return dc, ec
}

type c39Instance struct {
	pool *generator.ParameterPool[PreParams]
	fx   *c39Fixtures
}

func (i *c39Instance) GetNow() c39.GetResult {
	pp, err := i.pool.GetNow()
	if err == generator.ErrEmptyPool {
		return c39.GetResult{Empty: true, Err: err}
	}
	if err != nil {
		return c39.GetResult{Err: err}
	}
	return c39.GetResult{ID: i.fx.idOf(pp)}
}
func (i *c39Instance) Count() int    { return i.pool.ParametersCount() }
func (i *c39Instance) Stop()         { panic("verif: the scheduler cannot be stopped from this package") }
func (i *c39Instance) Resume()       { panic("verif: the scheduler cannot be resumed from this package") }
func (i *c39Instance) Sched() string { return "" }
func (i *c39Instance) Kill() {
	// an abandoned worker blocked on the full channel continues (and then
	// terminates in the driver) once there is room
	go func() { i.pool.GetNow() }()
}

type c39Rig struct {
	store *c39Store
	fx    *c39Fixtures
}

func (r *c39Rig) Name() string { return "dkg" }
func (r *c39Rig) Reset() {
	r.store = &c39Store{files: map[string]c39File{}}
	put := func(dir, name string, data []byte, torn bool) {
		r.store.files[dir+"/"+name] = c39File{dir: dir, name: name, data: data, torn: torn}
	}
	// junk that ReadAll must ignore
	put("membership", "pp_1_aa", r.fx.bytes[4], false)                        // valid bytes, other directory
	put(dirName, "pp_0_garbage", []byte{0xff, 0x01, 0x02, 0x03, 0x04}, false) // not a protobuf
	whole := r.fx.bytes[0]
	put(dirName, "pp_0_truncated", whole[:len(whole)/2], false) // truncated protobuf
	put(dirName, "pp_0_torn", whole[:7], true)                  // content cannot be read / decrypted
}
func (r *c39Rig) Disk() []int {
	r.store.mu.Lock()
	defer r.store.mu.Unlock()
	ids := []int{}
	for _, f := range r.store.files {
		if f.dir != dirName {
			continue
		}
		if id := r.fx.idOfBytes(f.data); id > 0 {
			ids = append(ids, id)
		}
	}
	sort.Ints(ids)
	return ids
}
func (r *c39Rig) StorageCheck() string {
	r.store.mu.Lock()
	defer r.store.mu.Unlock()
	n := 0
	for _, f := range r.store.files {
		if f.dir == dirName && r.fx.idOfBytes(f.data) == 0 {
			n++
		}
	}
	if n != 3 {
		return fmt.Sprintf("storage holds %d files in %q that are not byte-identical to a generated parameter (3 junk files expected)", n, dirName)
	}
	return ""
}
func (r *c39Rig) Boot(d *c39.Driver, inc *c39.Inc, size int, readable []int) c39.Instance {
	h := &c39Handle{store: r.store, fx: r.fx, d: d, inc: inc, readable: map[int]bool{}}
	for _, id := range readable {
		h.readable[id] = true
	}
	lg := log.Logger("verif-c39")
	_ = log.SetLogLevel("verif-c39", "fatal")
	st := newPreParamsStorage(h, lg)
	pool := generator.NewParameterPool[PreParams](lg, &generator.Scheduler{}, &st, size,
		func(ctx context.Context) *PreParams {
			id := d.AtGenerate(inc, ctx)
			if id == 0 {
				return nil
			}
			// a copy, as newPreParams would create a fresh value
			src := r.fx.params[id-1]
			lp := *src.data
			return &PreParams{data: &lp, creationTimestamp: src.creationTimestamp}
		}, 0)
	return &c39Instance{pool: pool, fx: r.fx}
}

func TestVerif_C39_ReplayStorage(t *testing.T) {
	kit.RequireEngine(t)
	rep := kit.NewReport("C39", "replay_dkg")
	defer rep.Write(t)
	log.SetAllLoggers(log.LevelFatal)
	cases := kit.LoadCases(t, "behaviours.ndjson")
	c39.Replay(t, rep, &c39Rig{fx: c39LoadFixtures(t)}, cases)
}
