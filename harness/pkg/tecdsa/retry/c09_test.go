//go:build verif

package retry

// C09 conformance harness (see /verif/specs/Retry).
//
//   TestVerif_C09_Retry  for every input emitted by Gen_Retry (canonical seat
//       list, requested count, and what the specification says about it) the
//       real EvaluateRetryParticipantsForKeyGeneration and
//       EvaluateRetryParticipantsForSigning are called
//         - under several address assignments (the operator with the smallest
//           address is not always the first one in the list),
//         - for several seeds,
//         - for every retry number 0,1,2,.. until two rounds past the
//           documented error (key generation) / 0..N (signing),
//         - by two "nodes" (fresh copies of the inputs) per retry number, and
//           once more in a shuffled order afterwards (the functions must be
//           stateless).
//       Every returned value is compared with the specification's sets
//       (eligible singles / pairs / triplets, signing outcomes, number of
//       retries) and recorded as an ndjson event for Trace_Retry, where TLC
//       infers the hidden shuffles.

import (
	"fmt"
	"math"
	"regexp"
	"sort"
	"strconv"
	"strings"
	"testing"

	kit "github.com/keep-network/keep-core/internal/verifkit"
	"github.com/keep-network/keep-core/pkg/chain"
)

type c09Value struct {
	Kind  string `json:"kind"` // ok | toomany | exhausted | other | panic
	Seats []int  `json:"seats"`
	More  int    `json:"more"`
	Err   string `json:"err,omitempty"`
}

func (v c09Value) equal(w c09Value) bool {
	if v.Kind != w.Kind || v.More != w.More || len(v.Seats) != len(w.Seats) {
		return false
	}
	for i := range v.Seats {
		if v.Seats[i] != w.Seats[i] {
			return false
		}
	}
	return true
}

var c09MoreRe = regexp.MustCompile(`still needed \[(\d+)\] more retries`)

type c09Fn func([]chain.Address, int64, uint, uint) ([]chain.Address, error)

// c09Eval calls the real function on a fresh copy of the seat list and maps
// the outcome back to operator labels.
func c09Eval(fn c09Fn, labels []int, addr map[int]chain.Address, seed int64, retry, req uint) (v c09Value, mutated bool) {
	in := make([]chain.Address, len(labels))
	for i, l := range labels {
		in[i] = addr[l]
	}
	back := map[chain.Address]int{}
	for l, a := range addr {
		back[a] = l
	}
	defer func() {
		if p := recover(); p != nil {
			v = c09Value{Kind: "panic", Seats: []int{}, Err: fmt.Sprint(p)}
		}
	}()
	out, err := fn(in, seed, retry, req)
	for i, l := range labels {
		if in[i] != addr[l] {
			mutated = true
		}
	}
	if err != nil {
		msg := err.Error()
		switch {
		case strings.HasPrefix(msg, "asked for too many seats"):
			return c09Value{Kind: "toomany", Seats: []int{}}, mutated
		case strings.HasPrefix(msg, "the retry count"):
			m := c09MoreRe.FindStringSubmatch(msg)
			more := -1
			if m != nil {
				more, _ = strconv.Atoi(m[1])
			}
			return c09Value{Kind: "exhausted", Seats: []int{}, More: more}, mutated
		}
		return c09Value{Kind: "other", Seats: []int{}, Err: msg}, mutated
	}
	seats := make([]int, len(out))
	for i, a := range out {
		l, ok := back[a]
		if !ok {
			l = -1 // an address that is not in the input
		}
		seats[i] = l
	}
	return c09Value{Kind: "ok", Seats: seats}, mutated
}

func c09SetKey(s []int) string {
	c := append([]int{}, s...)
	sort.Ints(c)
	return fmt.Sprint(c)
}

func c09Sets(v kit.V) map[string]bool {
	m := map[string]bool{}
	for _, e := range v.List() {
		m[c09SetKey(e.Ints())] = true
	}
	return m
}

// c09Filter keeps (keep=true) or drops (keep=false) the seats of the
// operators in set, preserving the order.
func c09Filter(labels []int, set map[int]bool, keep bool) []int {
	out := []int{}
	for _, l := range labels {
		if set[l] == keep {
			out = append(out, l)
		}
	}
	return out
}

func c09Distinct(labels []int) []int {
	seen := map[int]bool{}
	out := []int{}
	for _, l := range labels {
		if !seen[l] {
			seen[l] = true
			out = append(out, l)
		}
	}
	sort.Ints(out)
	return out
}

func c09EqualInts(a, b []int) bool {
	if len(a) != len(b) {
		return false
	}
	for i := range a {
		if a[i] != b[i] {
			return false
		}
	}
	return true
}

// c09Addresses builds an address assignment for the operator labels:
// variant 0 is monotone (label order = address order), others are seeded
// random bijections. Addresses look like Ethereum addresses.
func c09Addresses(ops []int, perm []int) map[int]chain.Address {
	m := map[int]chain.Address{}
	for i, l := range ops {
		m[l] = chain.Address(fmt.Sprintf("0x%040x", (perm[i]+1)*7919))
	}
	return m
}

func c09AllPerms(n int) [][]int {
	if n == 0 {
		return [][]int{{}}
	}
	var out [][]int
	var rec func(cur []int, used []bool)
	rec = func(cur []int, used []bool) {
		if len(cur) == n {
			out = append(out, append([]int{}, cur...))
			return
		}
		for i := 0; i < n; i++ {
			if !used[i] {
				used[i] = true
				rec(append(cur, i), used)
				used[i] = false
			}
		}
	}
	rec(nil, make([]bool, n))
	return out
}

func TestVerif_C09_Retry(t *testing.T) {
	kit.RequireEngine(t)
	rep := kit.NewReport("C09", "retry")
	defer rep.Write(t)
	tr := kit.NewTracer(t, "trace_retry")
	defer tr.Close()

	cases := kit.LoadCases(t, "cases.ndjson")
	nAssign := kit.IntEnv("VERIF_ASSIGNMENTS", 2)
	nHazardAssign := kit.IntEnv("VERIF_HAZARD_ASSIGNMENTS", 6)
	nSeeds := kit.IntEnv("VERIF_SEEDS", 1)
	signRetries := kit.IntEnv("VERIF_SIGNING_RETRIES", 2)
	rnd := kit.Rand(9)
	specialSeeds := []int64{0, -1, 1, math.MaxInt64, math.MinInt64, math.MaxInt64 - 1}

	for ci, c := range cases {
		labels := c.Get("members").Ints()
		req := c.Get("req").Int()
		ops := c09Distinct(labels)
		expTooMany := c.Get("tooMany").Bool()
		singles, pairs, triplets := c09Sets(c.Get("singles")), c09Sets(c.Get("pairs")), c09Sets(c.Get("triplets"))
		expR := c.Get("r").Int()
		outcomes := c09Sets(c.Get("outcomes"))
		hazard := c.Get("hazard").Bool()
		// the engine marks the inputs whose calls are recorded for trace
		// validation (all of them in the quick tier, a sample in the thorough
		// tier, where every input is still compared with the specification's sets)
		traced := !c.Has("trace") || c.Get("trace").Bool()
		emit := func(ev map[string]interface{}) {
			if traced {
				tr.Emit(ev)
			}
		}
		inKey := fmt.Sprintf("members=%s;req=%d", strings.Trim(strings.ReplaceAll(fmt.Sprint(labels), " ", "."), "[]"), req)

		// address assignments
		var assigns [][]int
		ident := make([]int, len(ops))
		for i := range ident {
			ident[i] = i
		}
		assigns = append(assigns, ident)
		want := nAssign
		if hazard {
			want = nHazardAssign
		}
		if hazard && len(ops) <= kit.IntEnv("VERIF_ALLPERM_OPS", 3) {
			assigns = c09AllPerms(len(ops)) // every address order
		} else {
			for len(assigns) < want && len(ops) > 1 {
				assigns = append(assigns, rnd.Perm(len(ops)))
			}
		}

		for ai, perm := range assigns {
			addr := c09Addresses(ops, perm)
			for si := 0; si < nSeeds; si++ {
				seed := rnd.Int63() - rnd.Int63()
				if (ci+ai+si)%7 == 0 {
					seed = specialSeeds[rnd.Intn(len(specialSeeds))]
				}
				meta := map[string]interface{}{"members": labels, "req": req, "seed": fmt.Sprint(seed), "assignment": perm}
				diverge := func(mode, check, what string, expected, observed interface{}) {
					rep.Diverge(fmt.Sprintf("%s:%s:%s", mode, inKey, check), what, meta, expected, observed)
				}

				// ------------------------------------------------ key generation
				emit(map[string]interface{}{"event": "Reset", "mode": "keygen", "members": labels, "req": req, "seed": fmt.Sprint(seed), "assignment": perm})
				var history []c09Value // value per retry number (node 1)
				used := map[string]bool{}
				firstErr := -1
				for r := 0; ; r++ {
					var vals [2]c09Value
					for node := 1; node <= 2; node++ {
						v, mutated := c09Eval(EvaluateRetryParticipantsForKeyGeneration, labels, addr, seed, uint(r), uint(req))
						vals[node-1] = v
						if mutated {
							diverge("keygen", "mutated-input", "the function modified the caller's seat list", labels, nil)
						}
						emit(map[string]interface{}{"event": "Call", "node": node, "retry": r, "kind": v.Kind, "seats": v.Seats, "more": v.More})
					}
					v := vals[0]
					history = append(history, v)
					if !vals[0].equal(vals[1]) {
						diverge("keygen", "agreement", fmt.Sprintf("two nodes obtained different results for retry %d", r), vals[0], vals[1])
					}
					switch v.Kind {
					case "panic", "other":
						diverge("keygen", "error", fmt.Sprintf("retry %d: unexpected failure: %s", r, v.Err), nil, v)
					case "toomany":
						if !expTooMany {
							diverge("keygen", "toomany", fmt.Sprintf("retry %d: reported too many requested seats although %d <= %d", r, req, len(labels)), nil, v)
						}
					case "exhausted":
						if expTooMany {
							diverge("keygen", "toomany", "a request for more seats than available was not rejected as such", "toomany", v)
						} else if r < expR {
							diverge("keygen", "skipped", fmt.Sprintf("retry %d reported that every single, pair and triplet was tried, but %d exclusions are eligible: an eligible exclusion was skipped", r, expR), expR, r)
						} else if v.More != r-expR {
							diverge("keygen", "more", fmt.Sprintf("retry %d: the error reports %d missing retries, expected %d", r, v.More, r-expR), r-expR, v.More)
						}
					case "ok":
						if expTooMany {
							diverge("keygen", "toomany", "a request for more seats than available was not rejected", "toomany", v)
							break
						}
						// excluded operators = operators of the input that are absent from the result
						present := map[int]bool{}
						for _, s := range v.Seats {
							present[s] = true
						}
						exclSet := map[int]bool{}
						var excl []int
						for _, o := range ops {
							if !present[o] {
								exclSet[o] = true
								excl = append(excl, o)
							}
						}
						if !c09EqualInts(v.Seats, c09Filter(labels, exclSet, false)) {
							diverge("keygen", "sublist", fmt.Sprintf("retry %d: the result is not the seat list minus all seats of some operators (order kept)", r), c09Filter(labels, exclSet, false), v.Seats)
						}
						if len(v.Seats) < req {
							diverge("keygen", "enough", fmt.Sprintf("retry %d: the result has %d seats, fewer than the %d requested (excluded operators %v)", r, len(v.Seats), req, excl), req, len(v.Seats))
						}
						k := c09SetKey(excl)
						if used[k] {
							diverge("keygen", "distinct", fmt.Sprintf("retry %d repeats the exclusion %v of an earlier retry", r, excl), nil, excl)
						}
						used[k] = true
						var class map[string]bool
						var cname string
						switch {
						case r < len(singles):
							class, cname = singles, "single"
						case r < len(singles)+len(pairs):
							class, cname = pairs, "pair"
						default:
							class, cname = triplets, "triplet"
						}
						if r >= expR {
							diverge("keygen", "ineligible", fmt.Sprintf("retry %d still returned a result (excluding %v) although only %d exclusions are eligible", r, excl, expR), expR, excl)
						} else if !class[k] {
							diverge("keygen", "class", fmt.Sprintf("retry %d excluded %v, which is not an eligible %s", r, excl, cname), c.Get(cname+"s").X, excl)
						}
					}
					if v.Kind != "ok" && firstErr < 0 {
						firstErr = r
					}
					if firstErr >= 0 && r >= firstErr+1 {
						break
					}
					if r > expR+3 {
						break // (already reported as "ineligible")
					}
					emit(map[string]interface{}{"event": "Next"})
				}
				// stateless: every retry number again, shuffled order
				for _, r := range rnd.Perm(len(history)) {
					node := 1 + rnd.Intn(2)
					v, _ := c09Eval(EvaluateRetryParticipantsForKeyGeneration, labels, addr, seed, uint(r), uint(req))
					emit(map[string]interface{}{"event": "Reeval", "node": node, "retry": r, "kind": v.Kind, "seats": v.Seats, "more": v.More})
					if !v.equal(history[r]) {
						diverge("keygen", "stateless", fmt.Sprintf("evaluating retry %d again gave a different result", r), history[r], v)
					}
				}
				nontrivial := ""
				if expR >= 1 {
					nontrivial = "keygen:" + inKey
				}
				rep.Eval(nontrivial, map[string]interface{}{"mode": "keygen", "members": labels, "req": req, "retries": firstErr, "expected_r": expR})
				rep.Count("keygen_calls", 3*len(history))
				if hazard {
					rep.Count("hazard_inputs_evaluated", 1)
				}

				// ------------------------------------------------ signing
				emit(map[string]interface{}{"event": "Reset", "mode": "signing", "members": labels, "req": req, "seed": fmt.Sprint(seed), "assignment": perm})
				var shist []c09Value
				distinctOutcomes := map[string]bool{}
				for r := 0; r <= signRetries; r++ {
					var vals [2]c09Value
					for node := 1; node <= 2; node++ {
						v, mutated := c09Eval(EvaluateRetryParticipantsForSigning, labels, addr, seed, uint(r), uint(req))
						vals[node-1] = v
						if mutated {
							diverge("signing", "mutated-input", "the function modified the caller's seat list", labels, nil)
						}
						emit(map[string]interface{}{"event": "Call", "node": node, "retry": r, "kind": v.Kind, "seats": v.Seats, "more": v.More})
					}
					v := vals[0]
					shist = append(shist, v)
					if !vals[0].equal(vals[1]) {
						diverge("signing", "agreement", fmt.Sprintf("two nodes obtained different results for retry %d", r), vals[0], vals[1])
					}
					switch v.Kind {
					case "panic", "other", "exhausted":
						diverge("signing", "error", fmt.Sprintf("retry %d: unexpected failure: %s", r, v.Err), nil, v)
					case "toomany":
						if !expTooMany {
							diverge("signing", "toomany", fmt.Sprintf("retry %d: reported too many requested seats although %d <= %d", r, req, len(labels)), nil, v)
						}
					case "ok":
						if expTooMany {
							diverge("signing", "toomany", "a request for more seats than available was not rejected", "toomany", v)
							break
						}
						acc := map[int]bool{}
						for _, s := range v.Seats {
							acc[s] = true
						}
						var accepted []int
						for _, o := range ops {
							if acc[o] {
								accepted = append(accepted, o)
							}
						}
						if !c09EqualInts(v.Seats, c09Filter(labels, acc, true)) {
							diverge("signing", "sublist", fmt.Sprintf("retry %d: the result is not the list of all seats of some operators (order kept)", r), c09Filter(labels, acc, true), v.Seats)
						}
						if len(v.Seats) < req {
							diverge("signing", "enough", fmt.Sprintf("retry %d: the result has %d seats, fewer than the %d requested", r, len(v.Seats), req), req, len(v.Seats))
						}
						if !outcomes[c09SetKey(accepted)] {
							diverge("signing", "outcome", fmt.Sprintf("retry %d accepted operators %v: no shuffle of the operators yields this set", r, accepted), c.Get("outcomes").X, accepted)
						}
						distinctOutcomes[c09SetKey(accepted)] = true
					}
					if r < signRetries {
						emit(map[string]interface{}{"event": "Next"})
					}
				}
				for _, r := range rnd.Perm(len(shist)) {
					node := 1 + rnd.Intn(2)
					v, _ := c09Eval(EvaluateRetryParticipantsForSigning, labels, addr, seed, uint(r), uint(req))
					emit(map[string]interface{}{"event": "Reeval", "node": node, "retry": r, "kind": v.Kind, "seats": v.Seats, "more": v.More})
					if !v.equal(shist[r]) {
						diverge("signing", "stateless", fmt.Sprintf("evaluating retry %d again gave a different result", r), shist[r], v)
					}
				}
				nontrivial = ""
				if len(outcomes) > 1 {
					nontrivial = "signing:" + inKey
				}
				rep.Eval(nontrivial, nil)
				rep.Count("signing_calls", 3*len(shist))
				if len(distinctOutcomes) > 1 {
					rep.Count("signing_inputs_with_varying_outcome", 1)
				}
			}
		}
	}
	rep.Extra["trace_events"] = tr.N()
	rep.Extra["inputs"] = len(cases)
}
