//go:build verif

package signing

// Verification-only exports of package signing (overlaid as a NON-test file
// with build tag `verif`) used by the C08 harness in pkg/tbtc to reach the real
// signing identity code (identityConverter{keys: Ks}, initializeTssRoundOne).

import (
	"fmt"
	"math/big"
	"sort"

	"github.com/keep-network/keep-core/internal/testutils"
	"github.com/keep-network/keep-core/pkg/protocol/group"
	"github.com/keep-network/keep-core/pkg/tecdsa"
	"github.com/keep-network/keep-core/pkg/tecdsa/common"
)

// VerifParties is what a signer's real initializeTssRoundOne set up.
type VerifParties struct {
	Operating  []int
	Own        string
	OwnID      string
	OwnMoniker string
	OwnIndex   int
	OwnBack    int
	Sorted     []string
	SortedBack []int
	Resolved   map[int]string
	ConvKey    map[int]string
	Threshold  int
	PartyCount int
}

// VerifC08SigningParties builds the real signing member as Execute does
// (newMember + the marking loop, copied: it cannot be called on its own) and
// walks the real member chain up to initializeTssRoundOne (which creates the
// TSS party -- including tss-lib's BuildLocalSaveDataSubset -- but does not
// start it). A panic of the code under test is returned as an error starting
// with "panic:".
func VerifC08SigningParties(
	memberIndex group.MemberIndex,
	share *tecdsa.PrivateKeyShare,
	groupSize int,
	dishonestThreshold int,
	excluded []group.MemberIndex,
	message *big.Int,
) (out *VerifParties, err error) {
	defer func() {
		if r := recover(); r != nil {
			out, err = nil, fmt.Errorf("panic: %v", r)
		}
	}()
	m := newMember(&testutils.MockLogger{}, memberIndex, groupSize, dishonestThreshold, nil,
		"verif-session", message, share)
	for _, e := range excluded {
		if e != m.id {
			m.group.MarkMemberAsDisqualified(e)
		}
	}
	r1 := m.initializeEphemeralKeysGeneration().initializeSymmetricKeyGeneration().initializeTssRoundOne()
	p := r1.tssParameters
	out = &VerifParties{Resolved: map[int]string{}, ConvKey: map[int]string{},
		Threshold: p.Threshold(), PartyCount: p.PartyCount()}
	for _, i := range m.group.OperatingMemberIndexes() {
		out.Operating = append(out.Operating, int(i))
		out.ConvKey[int(i)] = m.identityConverter.MemberIndexToTssPartyIDKey(i).Text(10)
		if id := common.ResolveSortedTssPartyID(p, i, m.identityConverter); id != nil {
			out.Resolved[int(i)] = id.KeyInt().Text(10)
		} else {
			out.Resolved[int(i)] = ""
		}
	}
	own := p.PartyID()
	if own == nil {
		return nil, fmt.Errorf("own party id is nil")
	}
	out.Own, out.OwnID, out.OwnMoniker, out.OwnIndex = own.KeyInt().Text(10), own.Id, own.Moniker, own.Index
	out.OwnBack = int(m.identityConverter.TssPartyIDToMemberIndex(own))
	for _, id := range p.Parties().IDs() {
		out.Sorted = append(out.Sorted, id.KeyInt().Text(10))
		out.SortedBack = append(out.SortedBack, int(m.identityConverter.TssPartyIDToMemberIndex(id)))
	}
	return out, nil
}

// VerifC08Describe exposes, for a protocol message of this package, the fields
// the C08 harness observes on the wire: the sender, the session and -- for the
// messages that carry point-to-point parts -- the member indexes addressed.
func VerifC08Describe(m interface{}) (typ string, sender int, session string, peers []int, hasPeers bool) {
	pm, ok := m.(message)
	if !ok {
		return "", 0, "", nil, false
	}
	typ, sender, session = pm.Type(), int(pm.SenderID()), pm.SessionID()
	var pp map[group.MemberIndex][]byte
	switch x := m.(type) {
	case *tssRoundOneMessage:
		pp, hasPeers = x.peersPayload, true
	case *tssRoundTwoMessage:
		pp, hasPeers = x.peersPayload, true
	}
	for k := range pp {
		peers = append(peers, int(k))
	}
	sort.Ints(peers)
	return
}
