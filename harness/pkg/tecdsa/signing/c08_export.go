//go:build verif

package signing

// Verification-only exports of package signing (overlaid as a NON-test file
// with build tag `verif`) used by the C08 harness in pkg/tbtc to reach the real
// signing identity code (identityConverter{keys: Ks}, initializeTssRoundOne).

import (
	"context"
	"fmt"
	"math/big"
	"sort"

	"github.com/keep-network/keep-core/internal/testutils"
	"github.com/keep-network/keep-core/pkg/net"
	"github.com/keep-network/keep-core/pkg/protocol/group"
	"github.com/keep-network/keep-core/pkg/protocol/state"
	"github.com/keep-network/keep-core/pkg/tecdsa"
	"github.com/keep-network/keep-core/pkg/tecdsa/common"
)

// VerifParties is what a signer's real initializeTssRoundOne set up.
type VerifParties struct {
	Operating  []int
	Own        string
	OwnID      string
	OwnMoniker string
	OwnIndex   int
	OwnBack    int
	Sorted     []string
	SortedBack []int
	Resolved   map[int]string
	ConvKey    map[int]string
	Threshold  int
	PartyCount int
}

// VerifC08SigningParties builds the real signing member as Execute does
// (newMember + the marking loop, copied: it cannot be called on its own) and
// walks the real member chain up to initializeTssRoundOne (which creates the
// TSS party -- including tss-lib's BuildLocalSaveDataSubset -- but does not
// start it). A panic of the code under test is returned as an error starting
// with "panic:".
func VerifC08SigningParties(
	memberIndex group.MemberIndex,
	share *tecdsa.PrivateKeyShare,
	groupSize int,
	dishonestThreshold int,
	excluded []group.MemberIndex,
	message *big.Int,
) (out *VerifParties, err error) {
	defer func() {
		if r := recover(); r != nil {
			out, err = nil, fmt.Errorf("panic: %v", r)
		}
	}()
	m := newMember(&testutils.MockLogger{}, memberIndex, groupSize, dishonestThreshold, nil,
		"verif-session", message, share)
	for _, e := range excluded {
		if e != m.id {
			m.group.MarkMemberAsDisqualified(e)
		}
	}
	r1 := m.initializeEphemeralKeysGeneration().initializeSymmetricKeyGeneration().initializeTssRoundOne()
	p := r1.tssParameters
	out = &VerifParties{Resolved: map[int]string{}, ConvKey: map[int]string{},
		Threshold: p.Threshold(), PartyCount: p.PartyCount()}
	for _, i := range m.group.OperatingMemberIndexes() {
		out.Operating = append(out.Operating, int(i))
		out.ConvKey[int(i)] = m.identityConverter.MemberIndexToTssPartyIDKey(i).Text(10)
		if id := common.ResolveSortedTssPartyID(p, i, m.identityConverter); id != nil {
			out.Resolved[int(i)] = id.KeyInt().Text(10)
		} else {
			out.Resolved[int(i)] = ""
		}
	}
	own := p.PartyID()
	if own == nil {
		return nil, fmt.Errorf("own party id is nil")
	}
	out.Own, out.OwnID, out.OwnMoniker, out.OwnIndex = own.KeyInt().Text(10), own.Id, own.Moniker, own.Index
	out.OwnBack = int(m.identityConverter.TssPartyIDToMemberIndex(own))
	for _, id := range p.Parties().IDs() {
		out.Sorted = append(out.Sorted, id.KeyInt().Text(10))
		out.SortedBack = append(out.SortedBack, int(m.identityConverter.TssPartyIDToMemberIndex(id)))
	}
	return out, nil
}

// VerifC08Describe exposes, for a protocol message of this package, the fields
// the C08 harness observes on the wire: the sender, the session and -- for the
// messages that carry point-to-point parts -- the member indexes addressed.
func VerifC08Describe(m interface{}) (typ string, sender int, session string, peers []int, hasPeers bool) {
	pm, ok := m.(message)
	if !ok {
		return "", 0, "", nil, false
	}
	typ, sender, session = pm.Type(), int(pm.SenderID()), pm.SessionID()
	var pp map[group.MemberIndex][]byte
	switch x := m.(type) {
	case *tssRoundOneMessage:
		pp, hasPeers = x.peersPayload, true
	case *tssRoundTwoMessage:
		pp, hasPeers = x.peersPayload, true
	}
	for k := range pp {
		peers = append(peers, int(k))
	}
	sort.Ints(peers)
	return
}

// ---------------------------------------------------------------- state chain driver
//
// VerifChain drives the REAL signing state objects of one member without
// computing any TSS round: the initial state is built as Execute builds it, the
// later states are obtained with the real Next(); messages are stand-ins of the
// real message types passed through the real codecs. Used by the C08 harness
// (pkg/tbtc) to compare the shared history, CanTransition and the state type
// with specs/SigningMachine after every step.

type verifSink struct{ sent []net.TaggedMarshaler }

func (c *verifSink) Name() string { return "verif-c08" }
func (c *verifSink) Send(_ context.Context, m net.TaggedMarshaler, _ ...net.RetransmissionStrategy) error {
	c.sent = append(c.sent, m)
	return nil
}
func (c *verifSink) Recv(context.Context, func(net.Message))     {}
func (c *verifSink) SetUnmarshaler(func() net.TaggedUnmarshaler) {}
func (c *verifSink) SetFilter(net.BroadcastChannelFilter) error  { return nil }

type verifNetMessage struct {
	payload interface{}
	typ     string
	key     []byte
}

func (m *verifNetMessage) TransportSenderID() net.TransportIdentifier { return nil }
func (m *verifNetMessage) SenderPublicKey() []byte                    { return m.key }
func (m *verifNetMessage) Payload() interface{}                       { return m.payload }
func (m *verifNetMessage) Type() string                               { return m.typ }
func (m *verifNetMessage) Seqno() uint64                              { return 0 }

// VerifRec is one entry of the real history.
type VerifRec struct {
	T   int    `json:"t"` // state that sends this message type (1, 3..11)
	S   int    `json:"s"`
	Ses string `json:"ses"`
	Key string `json:"-"`
}

type VerifChain struct {
	id      group.MemberIndex
	base    *state.BaseAsyncState
	sink    *verifSink
	cur     state.AsyncState
	session string
	eph     *ephemeralPublicKeyMessage
}

func verifBlank(t int) message {
	switch t {
	case 1:
		return &ephemeralPublicKeyMessage{}
	case 3:
		return &tssRoundOneMessage{}
	case 4:
		return &tssRoundTwoMessage{}
	case 5:
		return &tssRoundThreeMessage{}
	case 6:
		return &tssRoundFourMessage{}
	case 7:
		return &tssRoundFiveMessage{}
	case 8:
		return &tssRoundSixMessage{}
	case 9:
		return &tssRoundSevenMessage{}
	case 10:
		return &tssRoundEightMessage{}
	case 11:
		return &tssRoundNineMessage{}
	}
	return nil
}

// VerifC08NewChain builds the member and its initial state as Execute does.
func VerifC08NewChain(memberIndex group.MemberIndex, share *tecdsa.PrivateKeyShare, groupSize, dishonestThreshold int,
	excluded []group.MemberIndex, validator *group.MembershipValidator, session string, msg *big.Int) *VerifChain {
	m := newMember(&testutils.MockLogger{}, memberIndex, groupSize, dishonestThreshold, validator, session, msg, share)
	for _, e := range excluded { // copy of Execute's marking loop (the real loop runs in the real Execute runs)
		if e != m.id {
			m.group.MarkMemberAsDisqualified(e)
		}
	}
	sink := &verifSink{}
	base := state.NewBaseAsyncState()
	return &VerifChain{id: memberIndex, base: base, sink: sink, session: session,
		cur: &ephemeralKeyPairGenerationState{BaseAsyncState: base, channel: sink, member: m.initializeEphemeralKeysGeneration()}}
}

// State returns 1..12 (1 ephemeral keys, 2 symmetric keys, 3..11 TSS rounds one..nine, 12 finalization).
func (c *VerifChain) State() int {
	switch c.cur.(type) {
	case *ephemeralKeyPairGenerationState:
		return 1
	case *symmetricKeyGenerationState:
		return 2
	case *tssRoundOneState:
		return 3
	case *tssRoundTwoState:
		return 4
	case *tssRoundThreeState:
		return 5
	case *tssRoundFourState:
		return 6
	case *tssRoundFiveState:
		return 7
	case *tssRoundSixState:
		return 8
	case *tssRoundSevenState:
		return 9
	case *tssRoundEightState:
		return 10
	case *tssRoundNineState:
		return 11
	case *finalizationState:
		return 12
	}
	return 0
}

func (c *VerifChain) StateName() string   { return fmt.Sprintf("%T", c.cur) }
func (c *VerifChain) CanTransition() bool { return c.cur.CanTransition() }

// InitiateCheap runs the real Initiate of the two states that need no TSS
// computation (1: sends the real ephemeral public key message, 2: derives the
// symmetric keys from the real history).
func (c *VerifChain) InitiateCheap() error {
	st := c.State()
	if st != 1 && st != 2 {
		return fmt.Errorf("harness: Initiate of state %d is not cheap", st)
	}
	if err := c.cur.Initiate(context.Background()); err != nil {
		return err
	}
	if st == 1 {
		if len(c.sink.sent) != 1 {
			return fmt.Errorf("state 1 sent %d messages", len(c.sink.sent))
		}
		c.eph = c.sink.sent[0].(*ephemeralPublicKeyMessage)
	}
	return nil
}

// Next calls the real Next(); final = the machine would end here.
func (c *VerifChain) Next() (final bool, err error) {
	defer func() {
		if r := recover(); r != nil {
			err = fmt.Errorf("panic: %v", r)
		}
	}()
	nxt, err := c.cur.Next()
	if err != nil {
		return false, err
	}
	if nxt == nil {
		return true, nil
	}
	c.cur = nxt
	return false, nil
}

// Ephemeral returns the member's real ephemeral public key message (after InitiateCheap in state 1).
func (c *VerifChain) Ephemeral() interface{} {
	if c.eph == nil {
		return nil
	}
	return c.eph
}

// VerifC08Standin builds a message of the type sent by state t (1, 3..11) from
// `sender` in `session`; eph supplies real ephemeral keys for type 1 (any
// member's real message, see Ephemeral); peers = members addressed by
// point-to-point parts (types 3, 4).
func VerifC08Standin(t int, sender int, session string, peers []int, eph interface{}) (net.TaggedMarshaler, error) {
	id := group.MemberIndex(sender)
	junk := []byte{0xC0, 0x08, byte(t), byte(sender)}
	pp := map[group.MemberIndex][]byte{}
	for _, p := range peers {
		if p != sender {
			pp[group.MemberIndex(p)] = junk
		}
	}
	switch t {
	case 1:
		e, ok := eph.(*ephemeralPublicKeyMessage)
		if !ok || e == nil {
			return nil, fmt.Errorf("harness: a real ephemeral public key message is needed")
		}
		return &ephemeralPublicKeyMessage{senderID: id, ephemeralPublicKeys: e.ephemeralPublicKeys, sessionID: session}, nil
	case 3:
		return &tssRoundOneMessage{senderID: id, broadcastPayload: junk, peersPayload: pp, sessionID: session}, nil
	case 4:
		return &tssRoundTwoMessage{senderID: id, peersPayload: pp, sessionID: session}, nil
	case 5:
		return &tssRoundThreeMessage{senderID: id, broadcastPayload: junk, sessionID: session}, nil
	case 6:
		return &tssRoundFourMessage{senderID: id, broadcastPayload: junk, sessionID: session}, nil
	case 7:
		return &tssRoundFiveMessage{senderID: id, broadcastPayload: junk, sessionID: session}, nil
	case 8:
		return &tssRoundSixMessage{senderID: id, broadcastPayload: junk, sessionID: session}, nil
	case 9:
		return &tssRoundSevenMessage{senderID: id, broadcastPayload: junk, sessionID: session}, nil
	case 10:
		return &tssRoundEightMessage{senderID: id, broadcastPayload: junk, sessionID: session}, nil
	case 11:
		return &tssRoundNineMessage{senderID: id, broadcastPayload: junk, sessionID: session}, nil
	}
	return nil, fmt.Errorf("harness: no message type for state %d", t)
}

// Receive passes m through the real codec and hands it to the CURRENT state's real Receive.
func (c *VerifChain) Receive(m net.TaggedMarshaler, key []byte) error {
	b, err := m.Marshal()
	if err != nil {
		return fmt.Errorf("harness: marshal: %v", err)
	}
	var t int
	for _, x := range []int{1, 3, 4, 5, 6, 7, 8, 9, 10, 11} {
		if verifBlank(x).Type() == m.Type() {
			t = x
		}
	}
	u := verifBlank(t)
	if u == nil {
		return fmt.Errorf("harness: unknown type %s", m.Type())
	}
	if err := u.(net.TaggedUnmarshaler).Unmarshal(b); err != nil {
		return fmt.Errorf("harness: unmarshal: %v", err)
	}
	return c.cur.Receive(&verifNetMessage{payload: u, typ: m.Type(), key: key})
}

// History reads the real shared BaseAsyncState: distinct entries and the total number of appended messages.
func (c *VerifChain) History() (recs []VerifRec, total int) {
	seen := map[string]bool{}
	for _, t := range []int{1, 3, 4, 5, 6, 7, 8, 9, 10, 11} {
		for _, nm := range c.base.GetAllReceivedMessages(verifBlank(t).Type()) {
			total++
			pm, ok := nm.Payload().(message)
			if !ok {
				continue
			}
			r := VerifRec{T: t, S: int(pm.SenderID()), Ses: pm.SessionID(), Key: string(nm.SenderPublicKey())}
			k := fmt.Sprintf("%d/%d/%s/%x", r.T, r.S, r.Ses, r.Key)
			if !seen[k] {
				seen[k] = true
				recs = append(recs, r)
			}
		}
	}
	return recs, total
}

// VerifC08TypeName returns the wire type of the message sent by state t (1, 3..11), "" otherwise.
func VerifC08TypeName(t int) string {
	if b := verifBlank(t); b != nil {
		return b.Type()
	}
	return ""
}

// VerifC08EphemeralTargets returns, for an ephemeral public key message, the
// member indexes it carries a key for: every member of the group the protocol
// was started for, except the sender.
func VerifC08EphemeralTargets(m interface{}) (sender int, session string, targets []int, ok bool) {
	e, isEph := m.(*ephemeralPublicKeyMessage)
	if !isEph {
		return 0, "", nil, false
	}
	for k := range e.ephemeralPublicKeys {
		targets = append(targets, int(k))
	}
	sort.Ints(targets)
	return int(e.senderID), e.sessionID, targets, true
}
