//go:build verif

package signing

// C12 conformance harness, pkg/tecdsa/signing (specs/Admission, rows
// pkg/tecdsa/signing/*): every case of the admission predicate (rule "member":
// any payload implementing the package's `message` interface is stored) is
// delivered to the REAL Receive of every state of the tECDSA signing protocol;
// the final state is silent.
//
// How the states are obtained: the member is created with the real newMember
// (as Execute does) over the repository's private key share fixtures; the
// exclusion of the case is applied to its group with MarkMemberAsDisqualified /
// MarkMemberAsInactive; the state is reached from the initial state by
// following the real Next() chain (initializeTssRoundOne sets up the real TSS
// party; no round is executed).
//
// Messages go through the real Marshal, get the wire sender index and are
// decoded by the unmarshalers RegisterUnmarshallers registers.
// Observation: the BaseAsyncState history before and after Receive.

import (
	"fmt"
	"math/big"
	"testing"

	"github.com/keep-network/keep-core/internal/testutils"
	verifadm "github.com/keep-network/keep-core/internal/verifadm"
	kit "github.com/keep-network/keep-core/internal/verifkit"
	"github.com/keep-network/keep-core/pkg/internal/tecdsatest"
	"github.com/keep-network/keep-core/pkg/net"
	"github.com/keep-network/keep-core/pkg/protocol/group"
	"github.com/keep-network/keep-core/pkg/protocol/state"
	"github.com/keep-network/keep-core/pkg/tecdsa"
)

func c12Template(typ, session string) (net.TaggedMarshaler, error) {
	b := []byte{1}
	switch typ {
	case "ephemeralPublicKeyMessage":
		return &ephemeralPublicKeyMessage{sessionID: session}, nil
	case "tssRoundOneMessage":
		return &tssRoundOneMessage{broadcastPayload: b, peersPayload: map[group.MemberIndex][]byte{1: {2}}, sessionID: session}, nil
	case "tssRoundTwoMessage":
		return &tssRoundTwoMessage{peersPayload: map[group.MemberIndex][]byte{1: {2}}, sessionID: session}, nil
	case "tssRoundThreeMessage":
		return &tssRoundThreeMessage{broadcastPayload: b, sessionID: session}, nil
	case "tssRoundFourMessage":
		return &tssRoundFourMessage{broadcastPayload: b, sessionID: session}, nil
	case "tssRoundFiveMessage":
		return &tssRoundFiveMessage{broadcastPayload: b, sessionID: session}, nil
	case "tssRoundSixMessage":
		return &tssRoundSixMessage{broadcastPayload: b, sessionID: session}, nil
	case "tssRoundSevenMessage":
		return &tssRoundSevenMessage{broadcastPayload: b, sessionID: session}, nil
	case "tssRoundEightMessage":
		return &tssRoundEightMessage{broadcastPayload: b, sessionID: session}, nil
	case "tssRoundNineMessage":
		return &tssRoundNineMessage{broadcastPayload: b, sessionID: session}, nil
	}
	return nil, fmt.Errorf("harness: unknown tecdsa/signing payload type %q", typ)
}

func TestVerif_C12_TecdsaSigning(t *testing.T) {
	kit.RequireEngine(t)
	rep := kit.NewReport("C12", "admission_tecdsa_signing")
	defer rep.Write(t)
	w := verifadm.LoadWorld(t)
	steps := verifadm.LoadSteps(t, "pkg/tecdsa/signing")
	cases := verifadm.LoadCases(t)
	validator := w.Validator()
	ch := verifadm.NewChannel()
	RegisterUnmarshallers(ch)
	if w.N > 5 {
		t.Fatalf("harness: the repository has private key share fixtures for 5 members, the world has %d seats", w.N)
	}
	fixtures, err := tecdsatest.LoadPrivateKeyShareTestFixtures(w.N)
	if err != nil {
		t.Fatal(err)
	}

	payload := func(c *verifadm.Case, typ string) (interface{}, error) {
		if typ == "foreign" {
			return &verifadm.Foreign{SenderID: group.MemberIndex(c.Wire)}, nil
		}
		tpl, err := c12Template(typ, c.Session())
		if err != nil {
			return nil, err
		}
		return ch.Decode(tpl, c.Wire)
	}
	drivers := map[string]verifadm.Driver{}
	for _, s := range steps {
		name := s.Name
		drivers[name] = func(c *verifadm.Case, typ string) (string, string, error) {
			base := state.NewBaseAsyncState()
			m := newMember(&testutils.MockLogger{}, group.MemberIndex(c.Recv), w.N, 1, validator, verifadm.SessionOK,
				big.NewInt(100), tecdsa.NewPrivateKeyShare(fixtures[c.Recv-1]))
			c.MarkCurrent(m.group)
			st, err := verifadm.WalkAsync(&ephemeralKeyPairGenerationState{BaseAsyncState: base, channel: ch,
				member: m.initializeEphemeralKeysGeneration()}, name)
			if err != nil {
				return "", "", err
			}
			p, err := payload(c, typ)
			if o, d, e, stop := verifadm.Dropped(err); stop {
				return o, d, e
			}
			return verifadm.ObserveHistory(st, base, w.Net(c, p))
		}
	}
	verifadm.Run(t, rep, w, steps, cases, drivers)
}
