//go:build verif

package bitcoin

// Observation point for the C26 conformance harness (overlaid into pkg/bitcoin
// by the verification engine; not part of keep-core): the unsigned transaction
// held inside a TransactionBuilder.

// VerifUnsignedTransaction returns a copy of the transaction assembled so far.
func (tb *TransactionBuilder) VerifUnsignedTransaction() *Transaction {
	return tb.internal.toTransaction()
}

// VerifInputValues returns the UTXO values the builder recorded for its
// inputs (used for BIP-143 signature hashes and TotalInputsValue).
func (tb *TransactionBuilder) VerifInputValues() []int64 {
	out := make([]int64, len(tb.sigHashArgs))
	for i, a := range tb.sigHashArgs {
		out[i] = a.value
	}
	return out
}
