//go:build verif

package bitcoin

// C31 conformance harness. Behaviours of /verif/specs/SpvAssembly (every
// interleaving of the assembler's queries with mined blocks, failing queries,
// every initial chain / transaction block / required confirmations) are
// replayed on the REAL AssembleSpvProof over a fake Chain that
//   - holds real blocks: real transactions (legacy and witness), real Merkle
//     trees (double SHA-256, last node duplicated on odd levels), real 80-byte
//     headers linked by previous-block hash,
//   - mines on the behaviour's schedule: every query first applies the
//     MineBlock steps that precede the next assembler step, is compared with
//     that step (query kind and height asked = the assembler's control
//     location and its computed start block), then answered,
//   - answers like an Electrum server: error above the tip, error for a Merkle
//     proof of a transaction that is not in the block at the given height,
//     Merkle nodes as display-order hex strings.
// The ORACLE is an independent verifier (crypto/sha256 only): it folds the
// Merkle proofs, checks header linkage, recomputes the coinbase id from the
// preimage, and maps the real proof back to (block, position), which is
// compared with the specification's abstract proof.

import (
	"crypto/sha256"
	"encoding/binary"
	"encoding/hex"
	"fmt"
	"math/rand"
	"testing"

	kit "github.com/keep-network/keep-core/internal/verifkit"
)

const c31HeightOffset = 800000

func c31dsha(b []byte) [32]byte {
	a := sha256.Sum256(b)
	return sha256.Sum256(a[:])
}

type c31Block struct {
	height uint
	txs    []*Transaction
	ids    [][32]byte // txids, internal byte order
	root   [32]byte
	header *BlockHeader
	raw    [80]byte
	hash   [32]byte
}

func c31RandBytes(r *rand.Rand, n int) []byte {
	b := make([]byte, n)
	r.Read(b)
	return b
}

func c31RandTx(r *rand.Rand, tag uint32) *Transaction {
	tx := &Transaction{Version: int32(1 + r.Intn(2)), Locktime: tag}
	nin, nout := 1+r.Intn(3), 1+r.Intn(3)
	witness := r.Intn(2) == 0
	for i := 0; i < nin; i++ {
		var h Hash
		copy(h[:], c31RandBytes(r, 32))
		in := &TransactionInput{Outpoint: &TransactionOutpoint{TransactionHash: h, OutputIndex: uint32(r.Intn(4))}, Sequence: 0xfffffffd}
		if witness {
			in.Witness = [][]byte{c31RandBytes(r, 71), c31RandBytes(r, 33)}
		} else {
			in.SignatureScript = c31RandBytes(r, 20+r.Intn(80))
		}
		tx.Inputs = append(tx.Inputs, in)
	}
	for i := 0; i < nout; i++ {
		tx.Outputs = append(tx.Outputs, &TransactionOutput{Value: int64(1000 + r.Intn(1000000)), PublicKeyScript: append([]byte{0x00, 0x14}, c31RandBytes(r, 20)...)})
	}
	return tx
}

func c31Coinbase(r *rand.Rand, height uint) *Transaction {
	script := make([]byte, 4)
	binary.LittleEndian.PutUint32(script, uint32(height))
	script = append([]byte{0x03}, script[:3]...)
	script = append(script, c31RandBytes(r, 8)...)
	var zero Hash
	return &Transaction{
		Version:  1,
		Inputs:   []*TransactionInput{{Outpoint: &TransactionOutpoint{TransactionHash: zero, OutputIndex: 0xffffffff}, SignatureScript: script, Witness: [][]byte{make([]byte, 32)}, Sequence: 0xffffffff}},
		Outputs:  []*TransactionOutput{{Value: 625000000, PublicKeyScript: append([]byte{0x00, 0x14}, c31RandBytes(r, 20)...)}},
		Locktime: 0,
	}
}

// c31Levels builds all levels of the Merkle tree (level 0 = txids).
func c31Levels(ids [][32]byte) [][][32]byte {
	levels := [][][32]byte{ids}
	cur := ids
	for len(cur) > 1 {
		var next [][32]byte
		for i := 0; i < len(cur); i += 2 {
			l := cur[i]
			rr := l
			if i+1 < len(cur) {
				rr = cur[i+1]
			}
			next = append(next, c31dsha(append(append([]byte{}, l[:]...), rr[:]...)))
		}
		levels = append(levels, next)
		cur = next
	}
	return levels
}

func c31NewBlock(r *rand.Rand, height uint, prev [32]byte, ntx int, special *Transaction, pos int) *c31Block {
	b := &c31Block{height: height}
	for i := 0; i < ntx; i++ {
		switch {
		case special != nil && i == pos:
			b.txs = append(b.txs, special)
		case i == 0:
			b.txs = append(b.txs, c31Coinbase(r, height))
		default:
			b.txs = append(b.txs, c31RandTx(r, uint32(height)*1000+uint32(i)))
		}
	}
	for _, tx := range b.txs {
		b.ids = append(b.ids, c31dsha(tx.Serialize(Standard)))
	}
	lv := c31Levels(b.ids)
	b.root = lv[len(lv)-1][0]
	b.header = &BlockHeader{Version: 0x20000000, PreviousBlockHeaderHash: Hash(prev), MerkleRootHash: Hash(b.root),
		Time: uint32(1700000000 + 600*height), Bits: 0x17053894, Nonce: r.Uint32()}
	b.raw = b.header.Serialize()
	b.hash = c31dsha(b.raw[:])
	return b
}

// branch returns the Electrum-style Merkle branch of position pos.
func (b *c31Block) branch(pos int) []string {
	lv := c31Levels(b.ids)
	var out []string
	idx := pos
	for l := 0; l < len(lv)-1; l++ {
		sib := idx ^ 1
		if sib >= len(lv[l]) {
			sib = idx // odd level: the node is paired with itself
		}
		out = append(out, Hash(lv[l][sib]).Hex(ReversedByteOrder))
		idx >>= 1
	}
	return out
}

type c31Problem struct {
	key, what string
	step      int
}

// c31Chain is the fake Electrum-like chain mining on the behaviour's schedule.
type c31Chain struct {
	Chain
	blocks   map[uint]*c31Block // by real height, including blocks not mined yet
	tip      uint               // real height of the tip
	mempool  *Transaction       // the watched transaction while unconfirmed
	steps    []kit.V
	cur      int
	problems []c31Problem
	calls    []string
	dead     bool
}

var errC31Injected = fmt.Errorf("verif: injected Electrum failure")

var c31QueryOf = map[string]string{
	"QConfirmations": "GetTransactionConfirmations", "QTransaction": "GetTransaction", "QLatest": "GetLatestBlockHeight",
	"QHeader": "GetBlockHeader", "QMerkle": "GetTransactionMerkleProof", "QCoinbaseHash": "GetCoinbaseTxHash",
	"QCoinbaseTx": "GetTransaction", "QCoinbaseMerkle": "GetTransactionMerkleProof",
}

// sync aligns a call of the real code with the behaviour; it returns whether the call must fail.
func (c *c31Chain) sync(call string, height uint, hasHeight bool) bool {
	c.calls = append(c.calls, fmt.Sprintf("%s(%d)", call, height))
	if c.dead {
		return false
	}
	for c.cur < len(c.steps) && c.steps[c.cur].Get("a").Str() == "MineBlock" {
		c.tip++
		c.cur++
	}
	if c.cur >= len(c.steps) {
		c.problems = append(c.problems, c31Problem{"step:end:observed=" + call, "the real assembler called " + call + " after the specification's assembly was over", c.cur})
		c.dead = true
		return false
	}
	s := c.steps[c.cur]
	want := c31QueryOf[s.Get("a").Str()]
	if want != call {
		c.problems = append(c.problems, c31Problem{
			fmt.Sprintf("step:%s:expected=%s,observed=%s", s.Get("a").Str(), want, call),
			fmt.Sprintf("at specification step %s the assembler must call %s, the real code called %s", s.Get("a").Str(), want, call), c.cur})
		c.dead = true
		return false
	}
	if hasHeight && s.Get("ask").Int() != 0 {
		wantH := uint(s.Get("ask").Int() + c31HeightOffset)
		if wantH != height {
			c.problems = append(c.problems, c31Problem{
				fmt.Sprintf("step:%s:height", s.Get("a").Str()),
				fmt.Sprintf("%s asked for height %d, the specification's assembler asks for %d", call, height, wantH), c.cur})
			c.dead = true
			return false
		}
	}
	c.cur++
	return s.Get("fault").Bool()
}

func (c *c31Chain) find(h Hash) (*c31Block, int) {
	for ht, b := range c.blocks {
		if ht > c.tip {
			continue
		}
		for i, id := range b.ids {
			if Hash(id) == h {
				return b, i
			}
		}
	}
	return nil, -1
}

func (c *c31Chain) GetTransactionConfirmations(h Hash) (uint, error) {
	if c.sync("GetTransactionConfirmations", 0, false) {
		return 0, errC31Injected
	}
	if b, _ := c.find(h); b != nil {
		return c.tip - b.height + 1, nil
	}
	if c.mempool != nil && Hash(c31dsha(c.mempool.Serialize(Standard))) == h {
		return 0, nil
	}
	return 0, fmt.Errorf("verif: transaction not found")
}

func (c *c31Chain) GetTransaction(h Hash) (*Transaction, error) {
	if c.sync("GetTransaction", 0, false) {
		return nil, errC31Injected
	}
	if b, i := c.find(h); b != nil {
		return b.txs[i], nil
	}
	if c.mempool != nil && Hash(c31dsha(c.mempool.Serialize(Standard))) == h {
		return c.mempool, nil
	}
	return nil, fmt.Errorf("verif: transaction not found")
}

func (c *c31Chain) GetLatestBlockHeight() (uint, error) {
	if c.sync("GetLatestBlockHeight", 0, false) {
		return 0, errC31Injected
	}
	return c.tip, nil
}

func (c *c31Chain) GetBlockHeader(height uint) (*BlockHeader, error) {
	if c.sync("GetBlockHeader", height, true) {
		return nil, errC31Injected
	}
	if height > c.tip || c.blocks[height] == nil {
		return nil, fmt.Errorf("verif: height %d out of range (tip %d)", height, c.tip)
	}
	hdr := *c.blocks[height].header
	return &hdr, nil
}

func (c *c31Chain) GetTransactionMerkleProof(h Hash, height uint) (*TransactionMerkleProof, error) {
	if c.sync("GetTransactionMerkleProof", height, true) {
		return nil, errC31Injected
	}
	if height > c.tip || c.blocks[height] == nil {
		return nil, fmt.Errorf("verif: height %d out of range (tip %d)", height, c.tip)
	}
	b := c.blocks[height]
	for i, id := range b.ids {
		if Hash(id) == h {
			return &TransactionMerkleProof{BlockHeight: height, MerkleNodes: b.branch(i), Position: uint(i)}, nil
		}
	}
	return nil, fmt.Errorf("verif: tx %s not in block at height %d", h.Hex(ReversedByteOrder), height)
}

func (c *c31Chain) GetCoinbaseTxHash(height uint) (Hash, error) {
	if c.sync("GetCoinbaseTxHash", height, true) {
		return Hash{}, errC31Injected
	}
	if height > c.tip || c.blocks[height] == nil {
		return Hash{}, fmt.Errorf("verif: height %d out of range (tip %d)", height, c.tip)
	}
	return Hash(c.blocks[height].ids[0]), nil
}

// c31Fold folds a Merkle proof (concatenated 32-byte internal-order nodes).
func c31Fold(leaf [32]byte, proof []byte, index uint) (root [32]byte, restIndex uint, err error) {
	if len(proof)%32 != 0 {
		return root, 0, fmt.Errorf("proof length %d is not a multiple of 32", len(proof))
	}
	cur := leaf
	idx := index
	for o := 0; o < len(proof); o += 32 {
		node := proof[o : o+32]
		if idx&1 == 1 {
			cur = c31dsha(append(append([]byte{}, node...), cur[:]...))
		} else {
			cur = c31dsha(append(append([]byte{}, cur[:]...), node...))
		}
		idx >>= 1
	}
	return cur, idx, nil
}

type c31Mapped struct {
	Block    int   `json:"block"` // model height of the first header's block (0: unknown)
	Position uint  `json:"position"`
	Headers  []int `json:"headers"` // model heights of the headers
}

// c31Verify is the independent verifier. It returns the (block, position) the
// proof proves and the list of defects found.
func c31Verify(c *c31Chain, txid [32]byte, tx *Transaction, proof *SpvProof, required uint) (c31Mapped, []string) {
	var m c31Mapped
	var bad []string
	if tx == nil || c31dsha(tx.Serialize(Standard)) != txid {
		bad = append(bad, "the returned transaction is not the requested one")
	}
	raw := proof.BitcoinHeaders
	if len(raw) != 80*int(required) {
		bad = append(bad, fmt.Sprintf("headers: %d bytes, expected %d (= 80 x %d required)", len(raw), 80*required, required))
	}
	if len(raw) < 80 || len(raw)%80 != 0 {
		return m, append(bad, "headers are not a sequence of 80-byte headers")
	}
	n := len(raw) / 80
	byHash := map[[32]byte]uint{}
	for h, b := range c.blocks {
		if h <= c.tip {
			byHash[b.hash] = h
		}
	}
	var prevHash [32]byte
	for i := 0; i < n; i++ {
		hd := raw[80*i : 80*i+80]
		hh := c31dsha(hd)
		if i > 0 {
			var prev [32]byte
			copy(prev[:], hd[4:36])
			if prev != prevHash {
				bad = append(bad, fmt.Sprintf("header %d does not link to header %d by previous-block hash", i, i-1))
			}
		}
		prevHash = hh
		if ht, ok := byHash[hh]; ok {
			m.Headers = append(m.Headers, int(ht)-c31HeightOffset)
		} else {
			m.Headers = append(m.Headers, 0)
			bad = append(bad, fmt.Sprintf("header %d is not a header of the chain", i))
		}
	}
	m.Block = m.Headers[0]
	var root [32]byte
	copy(root[:], raw[36:68])
	m.Position = proof.TxIndexInBlock
	got, rest, err := c31Fold(txid, proof.MerkleProof, proof.TxIndexInBlock)
	if err != nil {
		bad = append(bad, "merkle proof: "+err.Error())
	} else {
		if got != root {
			bad = append(bad, "the Merkle proof does not link the transaction to the first header's Merkle root at the stated position")
		}
		if rest != 0 {
			bad = append(bad, "the stated position does not fit the depth of the Merkle proof")
		}
	}
	cbid := sha256.Sum256(proof.CoinbasePreimage[:])
	cgot, _, err := c31Fold(cbid, proof.CoinbaseProof, 0)
	if err != nil {
		bad = append(bad, "coinbase proof: "+err.Error())
	} else if cgot != root {
		bad = append(bad, "the coinbase preimage and proof do not lead to the first header's Merkle root")
	}
	if len(proof.CoinbaseProof) != len(proof.MerkleProof) {
		bad = append(bad, "coinbase proof and transaction proof have different depths")
	}
	if b := c.blocks[uint(m.Block+c31HeightOffset)]; m.Block != 0 && b != nil {
		if b.ids[0] != cbid {
			bad = append(bad, "the coinbase preimage is not the coinbase of the first header's block")
		}
		if int(proof.TxIndexInBlock) >= len(b.ids) || b.ids[proof.TxIndexInBlock] != txid {
			bad = append(bad, "the transaction is not at the stated position of the first header's block")
		}
	}
	return m, bad
}

func c31Steps(b kit.V, upto int) interface{} {
	var out []string
	for j, s := range b.Get("steps").List() {
		if j > upto {
			break
		}
		x := s.Get("a").Str()
		if s.Get("fault").Bool() {
			x += "!"
		}
		if s.Get("ask").Int() != 0 {
			x += fmt.Sprintf("(%d)", s.Get("ask").Int())
		}
		out = append(out, x)
	}
	return map[string]interface{}{"init": b.Get("init").X, "steps": out}
}

func TestVerif_C31_Assemble(t *testing.T) {
	kit.RequireEngine(t)
	rep := kit.NewReport("C31", "assemble")
	defer rep.Write(t)
	behs := kit.LoadCases(t, "behaviours.ndjson")
	if len(behs) == 0 {
		t.Fatal("no behaviours")
	}
	for bi, b := range behs {
		r := kit.Rand(int64(31000 + bi))
		in := b.Get("init")
		tip0, txBlock, req := in.Get("tip").Int(), in.Get("txBlock").Int(), uint(in.Get("req").Int())
		steps := b.Get("steps").List()
		mined := 0
		for _, s := range steps {
			if s.Get("a").Str() == "MineBlock" {
				mined++
			}
		}
		// the watched transaction, its block size and position (seeded)
		watched := c31RandTx(r, 0xC31)
		size := 1 + r.Intn(17)
		if r.Intn(8) == 0 {
			size = []int{1, 2, 3, 5, 9, 16, 17}[r.Intn(7)]
		}
		pos := 0
		if size > 1 {
			pos = 1 + r.Intn(size-1)
		}
		c := &c31Chain{blocks: map[uint]*c31Block{}, steps: steps}
		var prev [32]byte
		copy(prev[:], c31RandBytes(r, 32))
		for m := 1; m <= tip0+mined; m++ {
			h := uint(m + c31HeightOffset)
			var blk *c31Block
			if m == txBlock {
				blk = c31NewBlock(r, h, prev, size, watched, pos)
			} else {
				blk = c31NewBlock(r, h, prev, 1+r.Intn(9), nil, 0)
			}
			c.blocks[h] = blk
			prev = blk.hash
		}
		c.tip = uint(tip0 + c31HeightOffset)
		if txBlock == 0 {
			c.mempool = watched
		}
		txid := c31dsha(watched.Serialize(Standard))

		var (
			tx       *Transaction
			proof    *SpvProof
			err      error
			panicked interface{}
		)
		func() {
			defer func() { panicked = recover() }()
			tx, proof, err = AssembleSpvProof(Hash(txid), req, c)
		}()
		nt := ""
		if mined > 0 || b.Get("ok").Bool() {
			nt = kit.Hash(b.X)
		}
		sample := map[string]interface{}{"init": in.X, "size": size, "pos": pos, "mined": mined, "ok": b.Get("ok").Bool()}
		rep.Eval(nt, sample)
		rep.Count("size:"+fmt.Sprint(size), 1)
		ctxInfo := func(step int) interface{} {
			return map[string]interface{}{"behaviour": c31Steps(b, step), "tree_size": size, "position": pos, "calls": c.calls}
		}
		key := func(k string) string { return k }
		if panicked != nil {
			rep.Diverge("panic", fmt.Sprintf("AssembleSpvProof panicked: %v", panicked), ctxInfo(len(steps)), nil, nil)
			continue
		}
		// the independent verdict on whatever was returned comes first: it is the property itself
		if err == nil {
			rep.Count("returned", 1)
			if proof == nil {
				rep.Diverge("proof:nil", "AssembleSpvProof returned neither an error nor a proof", ctxInfo(len(steps)), nil, nil)
				continue
			}
			m, bad := c31Verify(c, txid, tx, proof, req)
			if len(bad) > 0 {
				rep.Diverge(key("proof:rejected"), "the independent verifier rejects the assembled proof: "+bad[0], ctxInfo(len(steps)),
					map[string]interface{}{"block": txBlock, "position": pos, "required": req},
					map[string]interface{}{"mapped": m, "defects": bad, "merkle_proof": hex.EncodeToString(proof.MerkleProof), "tx_index": proof.TxIndexInBlock})
				continue
			}
			if m.Block != txBlock || int(m.Position) != pos {
				rep.Diverge("proof:wrong-block", fmt.Sprintf("the proof proves (block %d, position %d), the transaction is at (block %d, position %d)", m.Block, m.Position, txBlock, pos),
					ctxInfo(len(steps)), nil, m)
				continue
			}
		} else {
			rep.Count("failed", 1)
		}
		if len(c.problems) > 0 {
			p := c.problems[0]
			rep.Diverge(p.key, p.what, ctxInfo(p.step), nil, c.calls)
			continue
		}
		// trailing MineBlock steps are not observable
		rest := c.cur
		for rest < len(steps) && steps[rest].Get("a").Str() == "MineBlock" {
			rest++
		}
		if rest != len(steps) {
			rep.Diverge("assemble:returned-early:"+steps[rest].Get("a").Str(),
				fmt.Sprintf("AssembleSpvProof returned (err=%v) where the specification's assembler goes on with %s", err, steps[rest].Get("a").Str()),
				ctxInfo(rest), nil, c.calls)
			continue
		}
		if b.Get("ok").Bool() != (err == nil) {
			rep.Diverge(fmt.Sprintf("assemble:ok=%v", err == nil),
				fmt.Sprintf("AssembleSpvProof returned err=%v, the specification's assembly ends with ok=%v (%s)", err, b.Get("ok").Bool(), steps[len(steps)-1].Get("cause").Str()),
				ctxInfo(len(steps)), b.Get("ok").Bool(), fmt.Sprint(err))
			continue
		}
		if err == nil {
			m, _ := c31Verify(c, txid, tx, proof, req)
			want := b.Get("hdrs").Ints()
			if fmt.Sprint(want) != fmt.Sprint(m.Headers) {
				rep.Diverge("proof:headers", fmt.Sprintf("proof headers are blocks %v, the specification's proof has %v", m.Headers, want), ctxInfo(len(steps)), want, m.Headers)
			}
		}
	}
}
