//go:build verif

package sortition

// C42 conformance harness. Behaviours of /verif/specs/Sortition (every chain
// state x every failing step x every answer changed at every position of one
// check, exhaustively; sequences of three checks, simulated) are replayed on
// the REAL checkOperatorStatus / checkRewardsEligibility / MonitorPool with the
// REAL policies (ConjunctionPolicy over BetaOperatorPolicy and a second policy,
// as pkg/tbtc wires them) against a scripted recording chain.
//
// The scripted chain holds a cursor into the behaviour. Every query of the
// real code first applies the environment steps (Flip) that precede the next
// client step, then is compared with that step (which query the code issues =
// its control location) and answered as the behaviour says (chain state or
// injected failure). Transactions (JoinSortitionPool, UpdateOperatorStatus,
// RestoreRewardEligibility) are recorded with the answers given so far in the
// check. After every check the harness compares the consumed steps, the
// returned error, and the set of requests with the specification, and -
// independently of the specification's step order - judges every recorded
// request against the property statement on the answers the code received.

import (
	"context"
	"fmt"
	"math/big"
	"sort"
	"sync"
	"testing"
	"time"

	"github.com/keep-network/keep-core/internal/testutils"
	kit "github.com/keep-network/keep-core/internal/verifkit"
	"github.com/keep-network/keep-core/pkg/chain"
)

var c42QueryOf = map[string]string{
	"QRegistered": "OperatorToStakingProvider",
	"QInPool":     "IsOperatorInPool",
	"QUpToDate":   "IsOperatorUpToDate",
	"QEligible":   "IsEligibleForRewards",
	"QCanRestore": "CanRestoreRewardEligibility",
	"Restore":     "RestoreRewardEligibility",
	"QLocked":     "IsPoolLocked",
	"Update":      "UpdateOperatorStatus",
	"QChaosnet":   "IsChaosnetActive",
	"QBeta":       "IsBetaOperator",
	"QOther":      "other.ShouldJoin",
	"Join":        "JoinSortitionPool",
}

var c42FactOf = map[string]string{
	"IsOperatorInPool": "inPool", "IsOperatorUpToDate": "upToDate", "IsEligibleForRewards": "eligible",
	"CanRestoreRewardEligibility": "canRestore", "IsPoolLocked": "locked", "IsChaosnetActive": "chaosnet",
	"IsBetaOperator": "beta", "other.ShouldJoin": "other",
}

var errC42Injected = fmt.Errorf("verif: injected chain failure")

type c42Request struct {
	Kind    string          `json:"kind"`
	Answers map[string]bool `json:"answers"` // answers received in this check before the request
	Check   int             `json:"check"`
}

type c42Problem struct {
	key, what string
	step      int
}

// c42Chain is the scripted recording chain.
type c42Chain struct {
	mu         sync.Mutex
	steps      []kit.V
	cur        int
	state      map[string]bool
	registered bool
	answers    map[string]bool // answers given in the current check
	check      int
	requests   []c42Request
	problems   []c42Problem
	calls      []string
	finished   bool
	done       chan struct{}
	stopAt     int // monitor mode: index one past the last step to serve (len(steps))
}

func newC42Chain(b kit.V) *c42Chain {
	c := &c42Chain{steps: b.Get("steps").List(), state: map[string]bool{}, answers: map[string]bool{}, done: make(chan struct{})}
	in := b.Get("init")
	for _, f := range in.Get("chain").Keys() {
		c.state[f] = in.Get("chain").Get(f).Bool()
	}
	c.registered = in.Get("registered").Bool()
	c.stopAt = len(c.steps)
	return c
}

func (c *c42Chain) setState(v kit.V) {
	for _, f := range v.Keys() {
		c.state[f] = v.Get(f).Bool()
	}
}

// skipEnv applies the environment steps in front of the cursor. A StartCheck
// step is consumed only when the code asks IsOperatorInPool (a check starts).
func (c *c42Chain) skipEnv(call string) {
	for c.cur < len(c.steps) {
		a := c.steps[c.cur].Get("a").Str()
		if a == "Flip" {
			c.setState(c.steps[c.cur].Get("chain"))
			c.cur++
			continue
		}
		if a == "StartCheck" && call == "IsOperatorInPool" {
			c.check++
			c.answers = map[string]bool{}
			c.cur++
			continue
		}
		return
	}
}

func (c *c42Chain) finishIfDone() {
	if !c.finished && c.cur >= c.stopAt {
		c.finished = true
		close(c.done)
	}
}

// abort ends the behaviour after a divergence (monitor mode must not wait for the rest).
func (c *c42Chain) abort() {
	if !c.finished {
		c.finished = true
		close(c.done)
	}
}

// serve handles one call of the real code. It returns (answer, fail).
func (c *c42Chain) serve(call string) (bool, bool) {
	c.mu.Lock()
	defer c.mu.Unlock()
	if c.finished {
		return false, true // the behaviour is over (monitor mode): fail everything quietly
	}
	c.calls = append(c.calls, call)
	c.skipEnv(call)
	fault := false
	matched := false
	if c.cur < len(c.steps) {
		s := c.steps[c.cur]
		want := c42QueryOf[s.Get("a").Str()]
		if want == call {
			matched = true
			fault = s.Get("fault").Bool()
			c.cur++
			defer func() {
				// the step's effect (a successful transaction changes the chain)
				if !fault {
					c.setState(s.Get("chain"))
				}
				c.finishIfDone()
			}()
		} else {
			if want == "" {
				c.problems = append(c.problems, c42Problem{
					key:  "step:check-over:observed=" + call,
					what: "the specification's check is over (it returned here), the real code went on and called " + call,
					step: c.cur})
			} else {
				c.problems = append(c.problems, c42Problem{
					key:  fmt.Sprintf("step:%s:expected=%s,observed=%s", s.Get("a").Str(), want, call),
					what: fmt.Sprintf("at specification step %s the client must call %s, the real code called %s", s.Get("a").Str(), want, call),
					step: c.cur})
			}
			c.abort()
		}
	} else {
		c.problems = append(c.problems, c42Problem{
			key:  "step:end:observed=" + call,
			what: "the real code called " + call + " after the specification's behaviour had ended",
			step: c.cur})
		c.abort()
	}
	_ = matched
	switch call {
	case "JoinSortitionPool", "UpdateOperatorStatus", "RestoreRewardEligibility":
		ans := map[string]bool{}
		for k, v := range c.answers {
			ans[k] = v
		}
		kind := map[string]string{"JoinSortitionPool": "join", "UpdateOperatorStatus": "update", "RestoreRewardEligibility": "restore"}[call]
		c.requests = append(c.requests, c42Request{Kind: kind, Answers: ans, Check: c.check})
		return false, fault
	case "OperatorToStakingProvider":
		return c.registered, fault
	}
	f := c42FactOf[call]
	if !fault {
		c.answers[f] = c.state[f]
	}
	return c.state[f], fault
}

func (c *c42Chain) q(call string) (bool, error) {
	v, fail := c.serve(call)
	if fail {
		return false, errC42Injected
	}
	return v, nil
}

func (c *c42Chain) OperatorToStakingProvider() (chain.Address, bool, error) {
	v, err := c.q("OperatorToStakingProvider")
	if err != nil || !v {
		return "", false, err
	}
	return chain.Address("0x80C63B577DC79B2432357BECC5b431dfb8E181DD"), true, nil
}
func (c *c42Chain) EligibleStake(chain.Address) (*big.Int, error) {
	return nil, fmt.Errorf("verif: not part of the monitoring contract")
}
func (c *c42Chain) IsPoolLocked() (bool, error)         { return c.q("IsPoolLocked") }
func (c *c42Chain) IsOperatorInPool() (bool, error)     { return c.q("IsOperatorInPool") }
func (c *c42Chain) IsOperatorUpToDate() (bool, error)   { return c.q("IsOperatorUpToDate") }
func (c *c42Chain) IsEligibleForRewards() (bool, error) { return c.q("IsEligibleForRewards") }
func (c *c42Chain) CanRestoreRewardEligibility() (bool, error) {
	return c.q("CanRestoreRewardEligibility")
}
func (c *c42Chain) IsChaosnetActive() (bool, error) { return c.q("IsChaosnetActive") }
func (c *c42Chain) IsBetaOperator() (bool, error)   { return c.q("IsBetaOperator") }
func (c *c42Chain) JoinSortitionPool() error        { _, err := c.q("JoinSortitionPool"); return err }
func (c *c42Chain) UpdateOperatorStatus() error     { _, err := c.q("UpdateOperatorStatus"); return err }
func (c *c42Chain) RestoreRewardEligibility() error {
	_, err := c.q("RestoreRewardEligibility")
	return err
}
func (c *c42Chain) GetOperatorID(chain.Address) (chain.OperatorID, error) {
	return 0, fmt.Errorf("verif: not part of the monitoring contract")
}

// c42Other is the second policy of the conjunction (pkg/tbtc: enough
// pre-parameters in the pool); its answer is the fact "other".
type c42Other struct{ c *c42Chain }

func (o *c42Other) ShouldJoin() bool {
	v, fail := o.c.serve("other.ShouldJoin")
	return v && !fail
}

// c42Judge applies the property statement to one recorded request, on the
// answers the code had received in that check.
func c42Judge(r c42Request) string {
	a := r.Answers
	got := func(f string) (bool, bool) { v, ok := a[f]; return v, ok }
	isFalse := func(f string) bool { v, ok := got(f); return ok && !v }
	isTrue := func(f string) bool { v, ok := got(f); return ok && v }
	switch r.Kind {
	case "join":
		policy := isTrue("other") && (isFalse("chaosnet") || isTrue("beta"))
		if !(isFalse("inPool") && isFalse("upToDate") && isFalse("locked") && policy) {
			return "joining requested although not (operator out of the pool, not up to date, pool unlocked, policy allows)"
		}
	case "update":
		if !(isTrue("inPool") && isFalse("upToDate") && isFalse("locked")) {
			return "status update requested although not (operator in the pool, out of date, pool unlocked)"
		}
	case "restore":
		if !(isTrue("inPool") && isFalse("eligible") && isTrue("canRestore")) {
			return "restoring reward eligibility requested although the chain did not say it can be restored"
		}
	}
	return ""
}

func c42Kinds(rs []c42Request, check int) []string {
	set := map[string]bool{}
	for _, r := range rs {
		if r.Check == check {
			set[r.Kind] = true
		}
	}
	var out []string
	for k := range set {
		out = append(out, k)
	}
	sort.Strings(out)
	return out
}

func c42Ctx(b kit.V, upto int) interface{} {
	steps := b.Get("steps").List()
	var out []string
	for j := 0; j < len(steps) && j <= upto; j++ {
		s := steps[j]
		f := ""
		if s.Get("fault").Bool() {
			f = "!"
		}
		x := s.Get("a").Str()
		if x == "Flip" {
			x += "(" + s.Get("f").Str() + ")"
		}
		out = append(out, x+f)
	}
	return map[string]interface{}{"init": b.Get("init").X, "steps": out}
}

func c42Policy(c *c42Chain) JoinPolicy {
	return NewConjunctionPolicy(NewBetaOperatorPolicy(c, &testutils.MockLogger{}), &c42Other{c})
}

func c42Report(rep *kit.Report, b kit.V, c *c42Chain) {
	for _, p := range c.problems {
		rep.Diverge(p.key, p.what, c42Ctx(b, p.step), nil, c.calls)
	}
	for _, r := range c.requests {
		rep.Count("request:"+r.Kind, 1)
		if why := c42Judge(r); why != "" {
			rep.Diverge("request:"+r.Kind+":not-permitted", why, c42Ctx(b, len(c.steps)), nil, r)
		}
	}
}

// direct replay: one checkOperatorStatus call per StartCheck of the behaviour
func c42Direct(rep *kit.Report, b kit.V) {
	c := newC42Chain(b)
	steps := c.steps
	policy := c42Policy(c)
	// the check boundaries in the behaviour
	i := 0
	if len(steps) > 0 && steps[0].Get("a").Str() == "QRegistered" {
		// MonitorPool's own query: consumed by the monitor-mode test; here only its verdict matters
		if steps[0].Get("pc").Str() == "stopped" {
			return
		}
		c.cur = 1
		i = 1
	}
	check := 0
	for i < len(steps) {
		// find the next StartCheck
		for i < len(steps) && steps[i].Get("a").Str() != "StartCheck" {
			i++
		}
		if i >= len(steps) {
			break
		}
		check++
		// the end of this check: the first later step after which pc = "idle"
		end := i + 1
		for end < len(steps) && !(steps[end].Get("a").Str() != "Flip" && steps[end].Get("pc").Str() == "idle") {
			end++
		}
		if end >= len(steps) {
			end = len(steps) - 1
		}
		var err error
		var panicked interface{}
		func() {
			defer func() { panicked = recover() }()
			err = checkOperatorStatus(&testutils.MockLogger{}, c, policy)
		}()
		if panicked != nil {
			rep.Diverge("panic", fmt.Sprintf("checkOperatorStatus panicked: %v", panicked), c42Ctx(b, end), nil, c.calls)
			return
		}
		if len(c.problems) > 0 {
			break
		}
		last := steps[end]
		c.mu.Lock()
		cur := c.cur
		c.mu.Unlock()
		if cur != end+1 {
			nextA := "?"
			if cur < len(steps) {
				nextA = steps[cur].Get("a").Str()
			}
			rep.Diverge("check:returned-early:"+nextA,
				fmt.Sprintf("checkOperatorStatus returned before the specification's check was over (next expected step %s)", nextA),
				c42Ctx(b, end), c42QueryOf[nextA], c.calls)
			break
		}
		wantErr := last.Get("outcome").Str() == "error"
		if (err != nil) != wantErr {
			rep.Diverge(fmt.Sprintf("check:error=%v", err != nil),
				fmt.Sprintf("checkOperatorStatus returned error=%v, the specification's check ends with %q", err, last.Get("outcome").Str()),
				c42Ctx(b, end), last.Get("outcome").Str(), fmt.Sprint(err))
		}
		want := last.Get("issued").Strs()
		sort.Strings(want)
		got := c42Kinds(c.requests, check)
		if fmt.Sprint(want) != fmt.Sprint(got) {
			rep.Diverge("check:requests", fmt.Sprintf("check issued %v, the specification's check issues %v", got, want), c42Ctx(b, end), want, got)
		}
		i = end + 1
	}
	c42Report(rep, b, c)
}

func c42NonTrivial(b kit.V) string {
	for _, s := range b.Get("steps").List() {
		switch s.Get("a").Str() {
		case "Join", "Update", "Restore", "Flip":
			return kit.Hash(b.X)
		}
		if s.Get("fault").Bool() {
			return kit.Hash(b.X)
		}
	}
	return ""
}

func TestVerif_C42_Checks(t *testing.T) {
	kit.RequireEngine(t)
	rep := kit.NewReport("C42", "checks")
	defer rep.Write(t)
	for _, b := range kit.LoadCases(t, "behaviours.ndjson") {
		rep.Eval(c42NonTrivial(b), b.Get("init").X)
		for _, s := range b.Get("steps").List() {
			rep.Count("step:"+s.Get("a").Str(), 1)
		}
		c42Direct(rep, b)
	}
}

// TestVerif_C42_Monitor drives the same behaviours through the real MonitorPool
// (registration query, immediate first check, later checks on the ticker).
func TestVerif_C42_Monitor(t *testing.T) {
	kit.RequireEngine(t)
	rep := kit.NewReport("C42", "monitor")
	defer rep.Write(t)
	behs := kit.Pick(kit.LoadCases(t, "behaviours.ndjson"), kit.IntEnv("VERIF_MONITOR_RUNS", 300), 42)
	sem := make(chan struct{}, 8)
	var wg sync.WaitGroup
	for _, b := range behs {
		steps := b.Get("steps").List()
		if len(steps) == 0 || steps[0].Get("a").Str() != "QRegistered" {
			continue
		}
		wg.Add(1)
		sem <- struct{}{}
		go func(b kit.V, steps []kit.V) {
			defer wg.Done()
			defer func() { <-sem }()
			rep.Eval(c42NonTrivial(b), b.Get("init").X)
			c := newC42Chain(b)
			ctx, cancel := context.WithCancel(context.Background())
			defer cancel()
			var err error
			var panicked interface{}
			func() {
				defer func() { panicked = recover() }()
				err = MonitorPool(ctx, &testutils.MockLogger{}, c, 2*time.Millisecond, c42Policy(c))
			}()
			if panicked != nil {
				rep.Diverge("panic", fmt.Sprintf("MonitorPool panicked: %v", panicked), c42Ctx(b, 0), nil, nil)
				return
			}
			verdict := steps[0].Get("pc").Str()
			fault0 := steps[0].Get("fault").Bool()
			switch {
			case verdict == "stopped" && fault0:
				if err == nil {
					rep.Diverge("monitor:register-error", "a failing OperatorToStakingProvider query did not stop MonitorPool", c42Ctx(b, 0), "error", nil)
				}
			case verdict == "stopped":
				if err != errOperatorUnknown {
					rep.Diverge("monitor:unknown-operator", fmt.Sprintf("MonitorPool returned %v for an operator without staking provider", err), c42Ctx(b, 0), "errOperatorUnknown", fmt.Sprint(err))
				}
			default:
				if err != nil {
					rep.Diverge("monitor:error", "MonitorPool failed for a registered operator: "+err.Error(), c42Ctx(b, 0), nil, nil)
				}
			}
			if verdict != "stopped" {
				// the ticker drives the remaining checks
				select {
				case <-c.done:
				case <-time.After(120 * time.Second):
					t.Errorf("the monitor did not complete the behaviour within 120 s")
					return
				}
			}
			cancel()
			c.mu.Lock()
			defer c.mu.Unlock()
			c.finished = true
			// per-check request sets
			if len(c.problems) == 0 {
				ci := 0
				for j, s := range steps {
					if s.Get("a").Str() == "StartCheck" {
						ci++
						end := j + 1
						for end < len(steps) && !(steps[end].Get("a").Str() != "Flip" && steps[end].Get("pc").Str() == "idle") {
							end++
						}
						if end >= len(steps) {
							end = len(steps) - 1
						}
						want := steps[end].Get("issued").Strs()
						sort.Strings(want)
						got := c42Kinds(c.requests, ci)
						if fmt.Sprint(want) != fmt.Sprint(got) {
							rep.Diverge("monitor:requests", fmt.Sprintf("check %d issued %v, the specification's check issues %v", ci, got, want), c42Ctx(b, end), want, got)
						}
					}
				}
			}
			c42Report(rep, b, c)
		}(b, steps)
	}
	wg.Wait()
}
