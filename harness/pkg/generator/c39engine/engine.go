//go:build verif

// Package verifc39 is the replay engine shared by the two C39 harnesses
// (pkg/generator and pkg/tecdsa/dkg). It is overlaid into the repository at
// internal/verifc39 by the engine; it is not part of keep-core.
//
// It steps a real generator.ParameterPool through behaviours of
// /verif/specs/Pool/Gen_Pool.tla. The harness ("rig") supplies a generateFn and
// a persistence whose calls park in this driver until the behaviour says how
// they return. Steps the worker goroutine takes on its own (loop head, the
// select that delivers into the channel) are "tau" steps of the behaviour; the
// driver waits until every goroutine of the pool is parked (in a gate or
// blocked in the pool's select - decided from goroutine dumps, not from
// timing) and then compares the observable projection of the state.
package verifc39

import (
	"bytes"
	"context"
	"fmt"
	"runtime"
	"sort"
	"strconv"
	"strings"
	"sync"
	"sync/atomic"
	"testing"
	"time"

	kit "github.com/keep-network/keep-core/internal/verifkit"
)

// Outcome of a persistence call as decided by the behaviour.
type Outcome int

const (
	OK Outcome = iota
	Fail
	// CrashAfter: apply the effect to storage, then call Driver.Exit (the
	// process died before the call returned).
	CrashAfter
)

// Inc is one incarnation (process lifetime) of the pool.
type Inc struct {
	N    int
	dead atomic.Bool
}

// Dead reports whether the incarnation was crashed.
func (i *Inc) Dead() bool { return i.dead.Load() }

// GetResult is what a rig reports for one GetNow call.
type GetResult struct {
	ID    int  // value id; 0 when the returned pointer is nil or not a known value
	Empty bool // ErrEmptyPool
	Err   error
}

// Instance is one booted pool + scheduler.
type Instance interface {
	GetNow() GetResult
	Count() int
	Stop()
	Resume()
	Sched() string // "working" | "stopped" | "" (not observable)
	Kill()         // help goroutines of a dead incarnation terminate
}

// Rig adapts a concrete instantiation of the pool.
type Rig interface {
	Name() string
	Reset()
	Boot(d *Driver, inc *Inc, size int, readable []int) Instance
	Disk() []int
	// StorageCheck lets the rig compare storage byte-for-byte; returns a
	// description of a problem or "".
	StorageCheck() string
}

type reply struct {
	id  int
	out Outcome
	die bool
}

type parked struct {
	goid  int64
	point string // "gen" | "save" | "delete"
	id    int
	inc   *Inc
	ch    chan reply
}

// Driver owns the gates.
type Driver struct {
	mu      sync.Mutex
	parked  []*parked
	exited  chan int64 // goroutines that called Exit
	arrived map[string]int
	wait    time.Duration
}

func newDriver() *Driver {
	return &Driver{exited: make(chan int64, 64), arrived: map[string]int{},
		wait: time.Duration(kit.IntEnv("VERIF_C39_WAIT_S", 40)) * time.Second}
}

func curGoid() int64 {
	var buf [64]byte
	n := runtime.Stack(buf[:], false)
	f := strings.Fields(string(buf[:n]))
	if len(f) < 2 {
		return -1
	}
	id, _ := strconv.ParseInt(f[1], 10, 64)
	return id
}

func (d *Driver) park(point string, id int, inc *Inc) reply {
	if inc.Dead() {
		runtime.Goexit()
	}
	p := &parked{goid: curGoid(), point: point, id: id, inc: inc, ch: make(chan reply, 1)}
	d.mu.Lock()
	d.parked = append(d.parked, p)
	d.arrived[point]++
	d.mu.Unlock()
	r := <-p.ch
	if r.die || inc.Dead() {
		runtime.Goexit()
	}
	return r
}

// AtGenerate is called by the rig's generateFn; returns the value id to
// produce, 0 for nil.
func (d *Driver) AtGenerate(inc *Inc, ctx context.Context) int {
	return d.park("gen", 0, inc).id
}

// AtSave is called by the rig's persistence at the start of Save.
func (d *Driver) AtSave(inc *Inc, id int) Outcome { return d.park("save", id, inc).out }

// AtDelete is called by the rig's persistence at the start of Delete.
func (d *Driver) AtDelete(inc *Inc, id int) Outcome { return d.park("delete", id, inc).out }

// Exit ends the calling goroutine after a CrashAfter effect was applied.
func (d *Driver) Exit() {
	d.exited <- curGoid()
	runtime.Goexit()
}

func (d *Driver) find(point string, goid int64) *parked {
	d.mu.Lock()
	defer d.mu.Unlock()
	for _, p := range d.parked {
		if p.point == point && p.goid == goid {
			return p
		}
	}
	return nil
}

func (d *Driver) release(p *parked, r reply) {
	d.mu.Lock()
	for i, q := range d.parked {
		if q == p {
			d.parked = append(d.parked[:i:i], d.parked[i+1:]...)
			break
		}
	}
	d.mu.Unlock()
	p.ch <- r
}

func (d *Driver) releaseAllDie() {
	d.mu.Lock()
	ps := d.parked
	d.parked = nil
	d.mu.Unlock()
	for _, p := range ps {
		p.ch <- reply{die: true}
	}
}

func (d *Driver) snapshotParked() []parked {
	d.mu.Lock()
	defer d.mu.Unlock()
	out := make([]parked, len(d.parked))
	for i, p := range d.parked {
		out[i] = *p
	}
	return out
}

// ------------------------------------------------------------ goroutine dumps

type gInfo struct {
	id      int64
	status  string
	worker  bool // created by Scheduler.startWorker
	inPark  bool // inside Driver.park
	inCtor  bool // inside NewParameterPool itself (not the worker closure)
	inGet   bool // inside ParameterPool.GetNow
	topFunc string
}

const workerMarker = "pkg/generator.(*Scheduler).startWorker"

var (
	scanMu  sync.Mutex
	scanBuf = make([]byte, 1<<17)
)

func scan() []gInfo { return scanWith("verifc39.(*Driver).park(") }

func scanWith(parkMarker string) []gInfo {
	scanMu.Lock()
	defer scanMu.Unlock()
	var buf []byte
	for {
		n := runtime.Stack(scanBuf, true)
		if n < len(scanBuf) {
			buf = scanBuf[:n]
			break
		}
		scanBuf = make([]byte, 2*len(scanBuf))
	}
	var out []gInfo
	for _, blk := range bytes.Split(buf, []byte("\n\n")) {
		s := string(blk)
		if !strings.HasPrefix(s, "goroutine ") {
			continue
		}
		nl := strings.IndexByte(s, '\n')
		if nl < 0 {
			continue
		}
		hdr := s[:nl]
		f := strings.Fields(hdr)
		id, _ := strconv.ParseInt(f[1], 10, 64)
		st := ""
		if a := strings.IndexByte(hdr, '['); a >= 0 {
			if b := strings.IndexByte(hdr[a:], ']'); b > 0 {
				st = hdr[a+1 : a+b]
				if c := strings.IndexByte(st, ','); c >= 0 {
					st = st[:c]
				}
			}
		}
		body := s[nl+1:]
		top := body
		if e := strings.IndexByte(top, '\n'); e >= 0 {
			top = top[:e]
		}
		g := gInfo{id: id, status: st, topFunc: top}
		g.worker = strings.Contains(body, "created by github.com/keep-network/keep-core/"+workerMarker)
		g.inPark = strings.Contains(body, parkMarker)
		g.inGet = strings.Contains(body, "pkg/generator.(*ParameterPool[") && strings.Contains(body, ".GetNow(")
		g.inCtor = strings.HasPrefix(top, "github.com/keep-network/keep-core/pkg/generator.NewParameterPool[") &&
			!strings.Contains(top, ".func")
		out = append(out, g)
	}
	return out
}

// CurGoid returns the id of the calling goroutine.
func CurGoid() int64 { return curGoid() }

// WorkerGoroutines inspects a dump of all goroutines and reports those created
// by Scheduler.startWorker: how many exist, how many of them are parked in a
// channel receive inside a function whose name contains parkMarker, how many
// are blocked in a select / channel send elsewhere, and how many are in any
// other (transient) state. sig identifies the set of goroutines and states.
func WorkerGoroutines(parkMarker string) (alive, parkedN, blocked, transient int, sig string) {
	var parts []string
	for _, g := range scanWith(parkMarker) {
		if !g.worker {
			continue
		}
		alive++
		switch {
		case g.inPark && g.status == "chan receive":
			parkedN++
		case !g.inPark && (g.status == "select" || g.status == "chan send"):
			blocked++
		default:
			transient++
		}
		parts = append(parts, fmt.Sprintf("%d:%s:%v", g.id, g.status, g.inPark))
	}
	sort.Strings(parts)
	return alive, parkedN, blocked, transient, strings.Join(parts, ",")
}

type workerScan struct {
	alive, parkedN, blocked, transient int
	sig                                string
}

func scanWorkers() workerScan {
	var ws workerScan
	var parts []string
	for _, g := range scan() {
		if !g.worker {
			continue
		}
		ws.alive++
		switch {
		case g.inPark && g.status == "chan receive":
			ws.parkedN++
		case !g.inPark && (g.status == "select" || g.status == "chan send"):
			ws.blocked++
		default:
			ws.transient++
		}
		parts = append(parts, fmt.Sprintf("%d:%s:%v", g.id, g.status, g.inPark))
	}
	sort.Strings(parts)
	ws.sig = strings.Join(parts, ",")
	return ws
}

// ------------------------------------------------------------ replay

type getter struct {
	g      int
	goid   atomic.Int64
	done   chan getOutcome
	result *getOutcome // set once received
}

type getOutcome struct {
	res    GetResult
	exited bool        // Goexit (crash) before GetNow returned
	pan    interface{} // panic inside GetNow
}

// Obs is the observable projection compared with the specification's state.
type Obs struct {
	Disk    []int             `json:"disk"`
	PoolLen int               `json:"poolLen"`
	Handed  []int             `json:"handed"`
	Sched   string            `json:"sched,omitempty"`
	Gen     []int             `json:"gen"`  // spec worker ids parked in generateFn
	Save    map[string]int    `json:"save"` // spec worker id -> value parked in Save
	Alive   int               `json:"alive"`
	Blocked int               `json:"blocked"` // workers blocked delivering into the full channel
	Getters map[string]string `json:"getters"`
}

type replay struct {
	t       *testing.T
	rep     *kit.Report
	rig     Rig
	d       *Driver
	inc     *Inc
	inst    Instance
	size    int
	incN    int
	wmap    map[int]int64 // spec worker id -> goid
	gets    map[int]*getter
	hand    []int
	caseX   interface{}
	key     string
	lastCtl string
}

func ints(v kit.V) []int {
	out := v.Ints()
	if out == nil {
		out = []int{}
	}
	return out
}

func expectedObs(st kit.V, pool []int, withSched bool) Obs {
	o := Obs{Disk: ints(st.Get("disk")), PoolLen: len(pool), Handed: ints(st.Get("handed")),
		Gen: []int{}, Save: map[string]int{}, Getters: map[string]string{}}
	if withSched {
		o.Sched = st.Get("sched").Str()
	}
	for i, w := range st.Get("workers").List() {
		switch w.Get("pc").Str() {
		case "gen":
			o.Gen = append(o.Gen, i+1)
		case "save":
			o.Save[strconv.Itoa(i+1)] = w.Get("val").Int()
		case "push":
			o.Blocked++
		}
		if w.Get("pc").Str() != "exited" {
			o.Alive++
		}
	}
	for i, g := range st.Get("getters").List() {
		if g.Get("pc").Str() == "popped" {
			o.Getters[strconv.Itoa(i+1)] = "popped:" + strconv.Itoa(g.Get("val").Int())
		}
	}
	return o
}

func (o Obs) diff(e Obs) string {
	eq := func(a, b []int) bool {
		if len(a) != len(b) {
			return false
		}
		for i := range a {
			if a[i] != b[i] {
				return false
			}
		}
		return true
	}
	switch {
	case !eq(o.Disk, e.Disk):
		return "disk"
	case o.PoolLen != e.PoolLen:
		return "pool"
	case !eq(o.Handed, e.Handed):
		return "handed"
	case o.Sched != e.Sched:
		return "sched"
	case o.Alive != e.Alive:
		return "alive"
	case o.Blocked != e.Blocked:
		return "blocked"
	case !eq(o.Gen, e.Gen):
		return "gen"
	case fmt.Sprint(o.Save) != fmt.Sprint(e.Save):
		return "save"
	case fmt.Sprint(o.Getters) != fmt.Sprint(e.Getters):
		return "getters"
	}
	return ""
}

// observe takes one consistent snapshot; stable=false when some goroutine of
// the pool is still on its way.
func (r *replay) observe() (Obs, bool) {
	s1 := scanWorkers()
	o := Obs{Disk: r.rig.Disk(), PoolLen: r.inst.Count(), Handed: append([]int{}, r.hand...),
		Sched: r.inst.Sched(), Gen: []int{}, Save: map[string]int{}, Getters: map[string]string{}}
	if o.Disk == nil {
		o.Disk = []int{}
	}
	stable := s1.transient == 0
	ps := r.d.snapshotParked()
	rev := map[int64]int{}
	for w, g := range r.wmap {
		rev[g] = w
	}
	nWorkerParked := 0
	for _, p := range ps {
		if p.inc != r.inc {
			stable = false // leftovers of a dead incarnation are still around
			continue
		}
		switch p.point {
		case "gen":
			nWorkerParked++
			o.Gen = append(o.Gen, rev[p.goid]) // 0 = not yet known
		case "save":
			nWorkerParked++
			o.Save[strconv.Itoa(rev[p.goid])] = p.id
		}
	}
	sort.Ints(o.Gen)
	if nWorkerParked != s1.parkedN {
		stable = false
	}
	o.Alive, o.Blocked = s1.alive, s1.blocked
	gids := make([]int, 0, len(r.gets))
	for g := range r.gets {
		gids = append(gids, g)
	}
	sort.Ints(gids)
	for _, g := range gids {
		gt := r.gets[g]
		k := strconv.Itoa(g)
		if gt.result == nil {
			select {
			case x := <-gt.done:
				gt.result = &x
			default:
			}
		}
		switch {
		case gt.result != nil:
			x := gt.result
			switch {
			case x.pan != nil:
				o.Getters[k] = fmt.Sprintf("panicked:%v", x.pan)
			case x.exited:
				o.Getters[k] = "exited"
			case x.res.Empty:
				o.Getters[k] = "returned:empty"
			case x.res.Err != nil:
				o.Getters[k] = "returned:err"
			default:
				o.Getters[k] = "returned:" + strconv.Itoa(x.res.ID)
			}
		default:
			found := false
			for _, p := range ps {
				if p.point == "delete" && p.goid == gt.goid.Load() && p.inc == r.inc {
					o.Getters[k] = "popped:" + strconv.Itoa(p.id)
					found = true
				}
			}
			if !found {
				stable = false
				o.Getters[k] = "running"
			}
		}
	}
	s2 := scanWorkers()
	if s2.sig != s1.sig || s2.transient != 0 {
		stable = false
	}
	return o, stable
}

// learnWorkers maps goroutines that arrived in generateFn for the first time
// to the specification's newest workers.
func (r *replay) learnWorkers(st kit.V) {
	known := map[int64]bool{}
	for _, g := range r.wmap {
		known[g] = true
	}
	var fresh []int64
	for _, p := range r.d.snapshotParked() {
		if p.inc == r.inc && p.point == "gen" && !known[p.goid] {
			fresh = append(fresh, p.goid)
		}
	}
	var unk []int
	for i, w := range st.Get("workers").List() {
		if _, ok := r.wmap[i+1]; !ok && w.Get("pc").Str() == "gen" {
			unk = append(unk, i+1)
		}
	}
	if len(fresh) == 1 && len(unk) == 1 {
		r.wmap[unk[0]] = fresh[0]
	}
}

type settleResult int

const (
	matched settleResult = iota
	matchedAlt
	mismatch
)

// settle waits for quiescence and compares; alt (if not nil) is the other
// legal outcome of a select race.
func (r *replay) settle(st kit.V, alt *[]int, withSched bool) (settleResult, Obs, Obs) {
	exp := expectedObs(st, ints(st.Get("pool")), withSched)
	var expAlt Obs
	if alt != nil {
		expAlt = expectedObs(st, *alt, withSched)
	}
	deadline := time.Now().Add(r.d.wait)
	var firstStableMismatch time.Time
	nStable := 0
	spins := 0
	for {
		r.learnWorkers(st)
		o, stable := r.observe()
		if !withSched {
			o.Sched = ""
		}
		if stable {
			if o.diff(exp) == "" {
				return matched, o, exp
			}
			if alt != nil && o.diff(expAlt) == "" {
				return matchedAlt, o, expAlt
			}
			if nStable == 0 {
				firstStableMismatch = time.Now()
			}
			nStable++
			if nStable >= 5 && time.Since(firstStableMismatch) > 150*time.Millisecond {
				return mismatch, o, exp
			}
		} else {
			nStable = 0
		}
		if time.Now().After(deadline) {
			r.t.Fatalf("verifc39: goroutines of the pool did not become quiescent within %s (case %s); last observation %+v, scan %+v",
				r.d.wait, r.key, o, scanWorkers())
		}
		spins++
		if spins < 200 {
			runtime.Gosched()
		} else {
			time.Sleep(200 * time.Microsecond)
		}
	}
}

func pause(n *int) {
	*n++
	if *n < 200 {
		runtime.Gosched()
	} else {
		time.Sleep(200 * time.Microsecond)
	}
}

func (r *replay) boot(readable []int) bool {
	r.incN++
	r.inc = &Inc{N: r.incN}
	r.wmap = map[int]int64{}
	r.gets = map[int]*getter{}
	done := make(chan Instance, 1)
	inc := r.inc
	go func() { done <- r.rig.Boot(r.d, inc, r.size, readable) }()
	deadline := time.Now().Add(r.d.wait)
	bspins := 0
	for {
		select {
		case r.inst = <-done:
			return true
		default:
		}
		if bspins < 50 {
			pause(&bspins)
			continue
		}
		// the constructor writes the loaded entries into the channel; if it
		// loads more than the capacity it blocks forever
		nBlocked := 0
		for _, g := range scan() {
			if g.inCtor && g.status == "chan send" {
				nBlocked++
			}
		}
		if nBlocked > 0 {
			time.Sleep(20 * time.Millisecond)
			again := 0
			for _, g := range scan() {
				if g.inCtor && g.status == "chan send" {
					again++
				}
			}
			select {
			case r.inst = <-done:
				return true
			default:
			}
			if again > 0 {
				r.rep.Diverge(r.rig.Name()+":Boot:blocked", "NewParameterPool blocks writing loaded parameters into the pool channel: it loads more than the configured pool size",
					r.caseX, fmt.Sprintf("at most %d loaded", r.size), fmt.Sprintf("storage %v readable %v", r.rig.Disk(), readable))
				return false
			}
		}
		if time.Now().After(deadline) {
			r.t.Fatalf("verifc39: NewParameterPool did not return within %s", r.d.wait)
		}
		pause(&bspins)
	}
}

// crash abandons the current incarnation: nothing of it touches storage again.
func (r *replay) crash() bool {
	r.inc.dead.Store(true)
	deadline := time.Now().Add(r.d.wait)
	var stuckSince time.Time
	for n := 0; ; {
		r.d.releaseAllDie()
		if r.inst != nil && n%16 == 0 {
			r.inst.Kill()
		}
		busy := false
		ws := scanWorkers()
		if ws.alive > 0 {
			busy = true
		}
		for _, g := range scan() {
			if g.inGet {
				busy = true
			}
		}
		if !busy {
			break
		}
		// every context was cancelled (Scheduler.stop) and nothing is parked in
		// the harness any more: a worker that stays blocked in the pool's
		// select ignores its context
		if r.inst != nil && r.inst.Sched() != "" && ws.alive == ws.blocked && ws.transient == 0 {
			if stuckSince.IsZero() {
				stuckSince = time.Now()
			} else if time.Since(stuckSince) > 3*time.Second {
				r.rep.Diverge(r.rig.Name()+":Stop:blocked", "a worker goroutine stays blocked delivering into the full pool after the scheduler cancelled its context",
					r.caseX, "the worker drops the parameter and terminates", fmt.Sprintf("%d worker goroutine(s) blocked in the pool's select", ws.blocked))
				return false
			}
		} else {
			stuckSince = time.Time{}
		}
		if time.Now().After(deadline) {
			r.t.Fatalf("verifc39: goroutines of a crashed incarnation did not terminate: %+v", scan())
		}
		pause(&n)
	}
	// drain exit notifications
	for {
		select {
		case <-r.d.exited:
			continue
		default:
		}
		break
	}
	return true
}

func (r *replay) waitExit(goid int64) {
	deadline := time.After(r.d.wait)
	for {
		select {
		case g := <-r.d.exited:
			if g == goid {
				return
			}
		case <-deadline:
			r.t.Fatalf("verifc39: goroutine %d did not apply its storage effect", goid)
		}
	}
}

func (r *replay) spawnGetter(g int) {
	gt := &getter{g: g, done: make(chan getOutcome, 1)}
	r.gets[g] = gt
	inst := r.inst
	started := make(chan struct{})
	go func() {
		returned := false
		defer func() {
			if x := recover(); x != nil {
				gt.done <- getOutcome{pan: fmt.Sprint(x)}
			} else if !returned {
				gt.done <- getOutcome{exited: true}
			}
		}()
		gt.goid.Store(curGoid())
		close(started)
		res := inst.GetNow()
		returned = true
		gt.done <- getOutcome{res: res}
	}()
	<-started
}

// waitGetter waits until the GetNow call of getter g returned (true) or is
// parked in Delete (false).
func (r *replay) waitGetter(g int) bool {
	gt := r.gets[g]
	deadline := time.Now().Add(r.d.wait)
	for {
		if gt.result == nil {
			select {
			case x := <-gt.done:
				gt.result = &x
			default:
			}
		}
		if gt.result != nil {
			return true
		}
		if r.d.find("delete", gt.goid.Load()) != nil {
			return false
		}
		if time.Now().After(deadline) {
			r.t.Fatalf("verifc39: GetNow of getter %d neither returned nor reached Delete", g)
		}
		runtime.Gosched()
	}
}

func (r *replay) diverge(step kit.V, idx int, field, what string, exp, obs interface{}) {
	a := step.Get("a").Str()
	ka := a
	if step.Get("tau").Bool() && r.lastCtl != "" {
		ka = r.lastCtl // the controlled step whose consequences are being observed
	}
	r.rep.Diverge(fmt.Sprintf("%s:%s:%s", r.rig.Name(), ka, field),
		fmt.Sprintf("%s (behaviour %s, step %d %s)", what, r.key, idx+1, a),
		r.caseX, exp, obs)
}

// takeReturn consumes the finished GetNow of getter g and checks the returned
// value against the properties directly.
func (r *replay) takeReturn(step kit.V, idx int, g int) (getOutcome, bool) {
	gt := r.gets[g]
	if gt == nil {
		r.t.Fatalf("verifc39: behaviour %s step %d: no GetNow in flight for getter %d", r.key, idx+1, g)
	}
	if gt.result == nil {
		select {
		case x := <-gt.done:
			gt.result = &x
		case <-time.After(r.d.wait):
			r.t.Fatalf("verifc39: GetNow of getter %d did not return", g)
		}
	}
	x := *gt.result
	delete(r.gets, g)
	if x.pan != nil {
		r.diverge(step, idx, "panic", fmt.Sprintf("GetNow panicked: %v", x.pan), "a parameter or an error", x.pan)
		return x, false
	}
	return x, true
}

func (r *replay) checkHandOut(step kit.V, idx int, id int) bool {
	ok := true
	if id <= 0 {
		r.diverge(step, idx, "invalid-handout", "GetNow returned a nil / unknown parameter without an error", "a generated parameter", id)
		ok = false
	}
	for _, h := range r.hand {
		if h == id && id > 0 {
			r.diverge(step, idx, "double-handout", fmt.Sprintf("GetNow returned parameter %d for the second time", id), r.hand, id)
			ok = false
		}
	}
	for _, dsk := range r.rig.Disk() {
		if dsk == id && id > 0 {
			r.diverge(step, idx, "still-on-disk", fmt.Sprintf("GetNow returned parameter %d while it is still in storage", id), "removed before use", r.rig.Disk())
			ok = false
		}
	}
	r.hand = append(r.hand, id)
	return ok
}

// Replay runs every behaviour on the rig.
func Replay(t *testing.T, rep *kit.Report, rig Rig, cases []kit.V) {
	d := newDriver()
	withSched := false
	for ci, c := range cases {
		r := &replay{t: t, rep: rep, rig: rig, d: d, size: c.Get("size").Int(), caseX: nil,
			key: kit.Hash(c.Get("steps").X)}
		steps := c.Get("steps").List()
		// a compact form of the behaviour for reports
		var compact []string
		for _, s := range steps {
			x := s.Get("a").Str()
			if s.Get("w").Int() > 0 {
				x += fmt.Sprintf("(w%d)", s.Get("w").Int())
			}
			if s.Get("g").Int() > 0 {
				x += fmt.Sprintf("(g%d)", s.Get("g").Int())
			}
			if an := s.Get("a").Str(); an == "Restart" || strings.HasSuffix(an, "Crash") {
				x += fmt.Sprintf("%v", s.Get("r").Ints())
			}
			compact = append(compact, x)
		}
		r.caseX = map[string]interface{}{"size": r.size, "steps": compact}
		rig.Reset()
		if !r.boot([]int{}) {
			continue
		}
		withSched = r.inst.Sched() != ""
		nontrivial := false
		ok := true
		diverted := false
		var alt *[]int
		for i := 0; i < len(steps) && ok && !diverted; i++ {
			s := steps[i]
			a := s.Get("a").Str()
			w, g := s.Get("w").Int(), s.Get("g").Int()
			rep.Count("step_"+a, 1)
			if s.Get("tau").Bool() {
				if s.Get("race").Bool() {
					p := ints(s.Get("alt"))
					alt = &p
				}
			} else {
				alt = nil
				r.lastCtl = a
				switch a {
				case "WGenerate", "WGenerateNil":
					p := d.find("gen", r.wmap[w])
					if p == nil {
						t.Fatalf("verifc39: %s step %d: worker %d is not parked in generateFn", r.key, i+1, w)
					}
					id := 0
					if a == "WGenerate" {
						id = s.Get("ret").Int()
					}
					d.release(p, reply{id: id})
				case "WSaveOk", "WSaveFail", "WSaveCrash":
					p := d.find("save", r.wmap[w])
					if p == nil {
						t.Fatalf("verifc39: %s step %d: worker %d is not parked in Save", r.key, i+1, w)
					}
					nontrivial = nontrivial || a != "WSaveOk"
					switch a {
					case "WSaveOk":
						d.release(p, reply{out: OK})
					case "WSaveFail":
						d.release(p, reply{out: Fail})
					case "WSaveCrash":
						d.release(p, reply{out: CrashAfter})
						r.waitExit(p.goid)
						if !r.crash() {
							return
						}
						ok = r.boot(s.Get("r").Ints())
					}
				case "Restart":
					nontrivial = true
					if !r.crash() {
						return
					}
					ok = r.boot(s.Get("r").Ints())
				case "Stop":
					nontrivial = true
					r.inst.Stop()
				case "Resume":
					r.inst.Resume()
				case "GPop":
					r.spawnGetter(g)
				case "GPopEmpty":
					r.spawnGetter(g)
					if r.waitGetter(g) {
						x, fine := r.takeReturn(s, i, g)
						if !fine {
							ok = false
						} else if !x.res.Empty {
							if x.res.Err == nil {
								r.checkHandOut(s, i, x.res.ID)
							}
							r.diverge(s, i, "return", "GetNow on an empty pool did not return ErrEmptyPool", "ErrEmptyPool", fmt.Sprintf("%+v", x.res))
							ok = false
						}
					}
				case "GDeleteOk", "GDeleteFail", "GDeleteCrash":
					gt := r.gets[g]
					var p *parked
					if gt != nil {
						p = d.find("delete", gt.goid.Load())
					}
					if p == nil {
						t.Fatalf("verifc39: %s step %d: getter %d is not parked in Delete", r.key, i+1, g)
					}
					switch a {
					case "GDeleteOk":
						d.release(p, reply{out: OK})
						x, fine := r.takeReturn(s, i, g)
						if !fine {
							ok = false
							break
						}
						if x.res.Err != nil || x.res.Empty || x.exited {
							r.diverge(s, i, "return", "GetNow failed although the pool had a parameter and Delete succeeded", s.Get("ret").Int(), fmt.Sprintf("%+v", x))
							ok = false
							break
						}
						if !r.checkHandOut(s, i, x.res.ID) {
							ok = false
						}
					case "GDeleteFail":
						nontrivial = true
						d.release(p, reply{out: Fail})
						x, fine := r.takeReturn(s, i, g)
						if !fine {
							ok = false
							break
						}
						if x.res.Err == nil && !x.exited {
							// the value was handed out although it is still in storage
							r.checkHandOut(s, i, x.res.ID)
							r.diverge(s, i, "return", "GetNow returned a parameter although deleting it from storage failed", "an error", x.res.ID)
							ok = false
						}
					case "GDeleteCrash":
						nontrivial = true
						d.release(p, reply{out: CrashAfter})
						r.waitExit(p.goid)
						if !r.crash() {
							return
						}
						ok = r.boot(s.Get("r").Ints())
					}
				default:
					t.Fatalf("verifc39: unknown action %q", a)
				}
				if !ok {
					break
				}
			}
			// compare at quiescent points: before the next controlled step
			if i+1 < len(steps) && steps[i+1].Get("tau").Bool() {
				continue
			}
			res, obs, exp := r.settle(s.Get("st"), alt, withSched)
			switch res {
			case matchedAlt:
				diverted = true
				rep.Count("race_other_branch", 1)
			case mismatch:
				field := obs.diff(exp)
				r.diverge(s, i, field, fmt.Sprintf("state of the real pool differs from the specification in %q after the step", field), exp, obs)
				ok = false
			default:
				if alt != nil {
					rep.Count("race_same_branch", 1)
				}
			}
			if msg := rig.StorageCheck(); msg != "" && ok {
				r.diverge(s, i, "storage", msg, "", "")
				ok = false
			}
			alt = nil
		}
		if ok && !diverted {
			rep.Count("behaviours_completed", 1)
		}
		k := ""
		if nontrivial {
			k = r.key
		}
		var sample interface{}
		if ci < 3 {
			sample = r.caseX
		}
		rep.Eval(k, sample)
		if !r.crash() {
			return
		}
	}
}
