//go:build verif

package tbtcpg

// C33 conformance harness: every scenario emitted by /verif/specs/Discovery is
// realized on a chain fake (the package's LocalChain plus real event filters:
// wallet public key hash and start block) and executed on the real
//   findDeposits / DepositSweepTask.FindDepositsToSweep,
//   findPendingRedemptions / RedemptionTask.FindPendingRedemptions,
//   ProposalGenerator.Generate (instrumented tasks; real task list for a subset)
// and the returned lists / proposals / errors are compared with the
// specification.
//
// Time: a request in age slot a is created (a + 1/2) hours before time.Now();
// thresholds (minimum ages, delays, timeout) are whole hours. A comparison can
// only flip if a single case took more than 30 minutes.

import (
	"crypto/sha256"
	"fmt"
	"sort"
	"strings"
	"testing"
	"time"

	kit "github.com/keep-network/keep-core/internal/verifkit"
	"github.com/keep-network/keep-core/pkg/bitcoin"
	"github.com/keep-network/keep-core/pkg/tbtc"
)

const c33Unit = time.Hour

type c33Chain struct {
	*LocalChain
	depositEvents    []*tbtc.DepositRevealedEvent
	redemptionEvents []*tbtc.RedemptionRequestedEvent
	fault            string
	sweepMaxSize     uint16
	redemptionMax    uint16
	heartbeatValid   bool
	calls            map[string]int
}

func (c *c33Chain) hit(call string) error {
	c.calls[call]++
	if c.fault == call {
		return fmt.Errorf("injected failure of %s", call)
	}
	return nil
}

func c33Wanted(list [][20]byte, pkh [20]byte) bool {
	if len(list) == 0 {
		return true
	}
	for _, w := range list {
		if w == pkh {
			return true
		}
	}
	return false
}

func (c *c33Chain) PastDepositRevealedEvents(f *tbtc.DepositRevealedEventFilter) ([]*tbtc.DepositRevealedEvent, error) {
	if err := c.hit("depositEvents"); err != nil {
		return nil, err
	}
	out := []*tbtc.DepositRevealedEvent{}
	for _, e := range c.depositEvents {
		if f != nil && (e.BlockNumber < f.StartBlock || (f.EndBlock != nil && e.BlockNumber > *f.EndBlock) || !c33Wanted(f.WalletPublicKeyHash, e.WalletPublicKeyHash)) {
			continue
		}
		cp := *e
		out = append(out, &cp)
	}
	return out, nil
}

func (c *c33Chain) PastRedemptionRequestedEvents(f *tbtc.RedemptionRequestedEventFilter) ([]*tbtc.RedemptionRequestedEvent, error) {
	if err := c.hit("events"); err != nil {
		return nil, err
	}
	out := []*tbtc.RedemptionRequestedEvent{}
	for _, e := range c.redemptionEvents {
		if f != nil && (e.BlockNumber < f.StartBlock || (f.EndBlock != nil && e.BlockNumber > *f.EndBlock) || !c33Wanted(f.WalletPublicKeyHash, e.WalletPublicKeyHash)) {
			continue
		}
		cp := *e
		out = append(out, &cp)
	}
	return out, nil
}

func (c *c33Chain) GetPendingRedemptionRequest(w [20]byte, s bitcoin.Script) (*tbtc.RedemptionRequest, bool, error) {
	if err := c.hit("pending"); err != nil {
		return nil, false, err
	}
	return c.LocalChain.GetPendingRedemptionRequest(w, s)
}

func (c *c33Chain) GetRedemptionDelay(w [20]byte, s bitcoin.Script) (time.Duration, error) {
	if err := c.hit("delay"); err != nil {
		return 0, err
	}
	return c.LocalChain.GetRedemptionDelay(w, s)
}

func (c *c33Chain) GetDepositSweepMaxSize() (uint16, error) {
	if err := c.hit("sweepMaxSize"); err != nil {
		return 0, err
	}
	return c.sweepMaxSize, nil
}

func (c *c33Chain) GetRedemptionMaxSize() (uint16, error) {
	if err := c.hit("redemptionMaxSize"); err != nil {
		return 0, err
	}
	return c.redemptionMax, nil
}

func (c *c33Chain) ValidateHeartbeatProposal(w [20]byte, p *tbtc.HeartbeatProposal) error {
	c.calls["validateHeartbeat"]++
	if !c.heartbeatValid {
		return fmt.Errorf("heartbeat proposal rejected")
	}
	return nil
}

func c33Hash(s string) [32]byte { return sha256.Sum256([]byte("verif-c33-" + s)) }

func c33PKH(s string) [20]byte {
	h := c33Hash(s)
	var out [20]byte
	copy(out[:], h[:20])
	return out
}

func c33NewChain(fault string) *c33Chain {
	lc := NewLocalChain()
	bc := NewMockBlockCounter()
	bc.SetCurrentBlock(c33CurrentBlock)
	lc.SetBlockCounter(bc)
	lc.SetAverageBlockTime(12 * time.Second)
	return &c33Chain{LocalChain: lc, fault: fault, calls: map[string]int{}, heartbeatValid: true}
}

const c33CurrentBlock = 1000000

// ---------------------------------------------------------------- deposits

type c33DepObs struct {
	Sel   []int    `json:"sel"`
	Attrs []string `json:"attrs"`
	Err   string   `json:"err"`
}

func c33RunDeposits(t *testing.T, rep *kit.Report, ci int, cs kit.V) {
	in, exp := cs.Get("in"), cs.Get("expected")
	key := "deposits:" + kit.Hash(in.X)
	this, other := c33PKH("this-wallet"), c33PKH("other-wallet")
	now := time.Now()
	ch := c33NewChain("none")
	btc := NewLocalBitcoinChain()
	ch.SetDepositMinAge(uint32((2 * c33Unit).Seconds())) // DepositMinAge of the spec
	posOf := map[string]int{}
	states := map[int]string{}
	for i, ev := range in.Get("events").List() {
		pos := i + 1
		state := ev.Get("state").Str()
		states[pos] = state
		txHash := bitcoin.Hash(c33Hash(fmt.Sprintf("funding-%d-%d", ci, pos)))
		idx := uint32((ci + pos) % 3)
		posOf[fmt.Sprintf("%x:%d", txHash[:], idx)] = pos
		wallet := this
		if state == "other" {
			wallet = other
		}
		ch.depositEvents = append(ch.depositEvents, &tbtc.DepositRevealedEvent{
			FundingTxHash: txHash, FundingOutputIndex: idx, WalletPublicKeyHash: wallet,
			Amount: 100000, BlockNumber: uint64(5000 + 10*ev.Get("block").Int()),
		})
		age := 3
		if state == "young" {
			age = 1
		}
		req := &tbtc.DepositChainRequest{
			Amount:     100000,
			RevealedAt: now.Add(-time.Duration(age)*c33Unit - c33Unit/2),
			SweptAt:    time.Unix(0, 0),
		}
		if state == "swept" || state == "sweptc5" {
			req.SweptAt = now.Add(-10 * time.Minute)
		}
		if state != "missing" {
			ch.SetDepositRequest(txHash, idx, req)
		}
		switch state {
		case "conf5", "sweptc5":
			btc.SetTransactionConfirmations(txHash, 5)
		case "conferr":
			// confirmations unknown: GetTransactionConfirmations fails
		case "ok7":
			btc.SetTransactionConfirmations(txHash, 7)
		default:
			btc.SetTransactionConfirmations(txHash, 6)
		}
	}
	limit := in.Get("limit").Int()
	skipSwept, skipUnconfirmed := in.Get("flags").Idx(0).Bool(), in.Get("flags").Idx(1).Bool()
	pkh := this
	if in.Get("filter").Str() == "all" {
		pkh = [20]byte{}
	}
	var deposits []*Deposit
	var err error
	var refs []*DepositReference
	var refsErr error
	ranRefs := false
	func() {
		defer func() {
			if r := recover(); r != nil {
				err = fmt.Errorf("PANIC: %v", r)
			}
		}()
		deposits, err = findDeposits(logger, ch, btc, pkh, limit, skipSwept, skipUnconfirmed)
		if skipSwept && skipUnconfirmed && in.Get("filter").Str() == "this" {
			ranRefs = true
			refs, refsErr = NewDepositSweepTask(ch, btc).FindDepositsToSweep(logger, pkh, uint16(limit))
		}
	}()
	obs := c33DepObs{}
	if err != nil {
		obs.Err = err.Error()
	}
	for _, d := range deposits {
		pos := posOf[fmt.Sprintf("%x:%d", d.FundingTxHash[:], d.FundingOutputIndex)]
		obs.Sel = append(obs.Sel, pos)
		obs.Attrs = append(obs.Attrs, fmt.Sprintf("block=%d swept=%v conf=%d", d.RevealBlock, d.IsSwept, d.Confirmations))
	}
	nontrivial := ""
	if exp.Get("err").Str() == "" && len(exp.Get("sel").List()) > 0 {
		nontrivial = key
	}
	rep.Eval(nontrivial, cs.X)
	rep.Count("deposits/"+map[bool]string{true: "ok", false: "error"}[exp.Get("err").Str() == ""], 1)
	var problems []string
	switch {
	case strings.HasPrefix(obs.Err, "PANIC"):
		problems = append(problems, "findDeposits panicked: "+obs.Err)
	case exp.Get("err").Str() == "noRequest":
		if err == nil || !strings.Contains(obs.Err, "no deposit request for key") {
			problems = append(problems, fmt.Sprintf("expected the 'no deposit request' error, got %q with %v", obs.Err, obs.Sel))
		}
	case err != nil:
		problems = append(problems, "findDeposits failed: "+obs.Err)
	default:
		want := exp.Get("sel").Ints()
		if fmt.Sprint(obs.Sel) != fmt.Sprint(want) && !(len(obs.Sel) == 0 && len(want) == 0) {
			problems = append(problems, fmt.Sprintf("selected deposits %v, expected %v", obs.Sel, want))
		} else {
			events := in.Get("events").List()
			for n, d := range deposits {
				pos := obs.Sel[n]
				st := states[pos]
				wantSwept := st == "swept" || st == "sweptc5"
				wantConf := map[string]uint{"conf5": 5, "sweptc5": 5, "conferr": 0, "ok7": 7}[st]
				if _, special := map[string]bool{"conf5": true, "sweptc5": true, "conferr": true, "ok7": true}[st]; !special {
					wantConf = 6
				}
				wantBlock := uint64(5000 + 10*events[pos-1].Get("block").Int())
				if d.IsSwept != wantSwept || d.Confirmations != wantConf || d.RevealBlock != wantBlock {
					problems = append(problems, fmt.Sprintf("deposit %d reported as %s, expected block=%d swept=%v conf=%d", pos, obs.Attrs[n], wantBlock, wantSwept, wantConf))
				}
			}
		}
		if ranRefs {
			var got []int
			for _, r := range refs {
				got = append(got, posOf[fmt.Sprintf("%x:%d", r.FundingTxHash[:], r.FundingOutputIndex)])
			}
			if refsErr != nil {
				problems = append(problems, "FindDepositsToSweep failed: "+refsErr.Error())
			} else if fmt.Sprint(got) != fmt.Sprint(want) && !(len(got) == 0 && len(want) == 0) {
				problems = append(problems, fmt.Sprintf("FindDepositsToSweep selected %v, expected %v", got, want))
			}
		}
	}
	if len(problems) > 0 {
		rep.Diverge(key, "deposit discovery: "+strings.Join(problems, "; "), cs.X, exp.X, obs)
	}
}

// ---------------------------------------------------------------- redemptions

func c33RunRedemptions(t *testing.T, rep *kit.Report, ci int, cs kit.V) {
	in, exp := cs.Get("in"), cs.Get("expected")
	key := "redemptions:" + kit.Hash(in.X)
	this, other := c33PKH("this-wallet"), c33PKH("other-wallet")
	now := time.Now()
	fault := in.Get("fault").Str()
	ch := c33NewChain(fault)
	const minAge, timeout = 2, 7 // RequestMinAge, RequestTimeout of the spec configurations
	timeoutSeconds := uint32((timeout * c33Unit).Seconds())
	ch.SetRedemptionParameters(0, 0, 0, 0, timeoutSeconds, nil, 0)
	ch.SetRedemptionRequestMinAge(uint32((minAge * c33Unit).Seconds()))
	// the event filter the code must use: current block - (timeout / average block time + 1000)
	start := uint64(c33CurrentBlock) - (uint64(timeoutSeconds)/12 + 1000)
	scriptOf := func(k string) bitcoin.Script {
		s, _ := bitcoin.PayToWitnessPublicKeyHash(c33PKH("redeemer-" + k))
		return s
	}
	labelOf := map[string]string{}
	walletsOfKey := map[string]map[[20]byte]bool{}
	for _, ev := range in.Get("events").List() {
		k := ev.Get("key").Str()
		wallet := this
		if ev.Get("wallet").Str() == "other" {
			wallet = other
		}
		block := start + uint64(10*ev.Get("block").Int())
		if ev.Get("block").Int() == 0 {
			block = start - 50
		}
		labelOf[string(scriptOf(k))] = k
		ch.redemptionEvents = append(ch.redemptionEvents, &tbtc.RedemptionRequestedEvent{
			WalletPublicKeyHash: wallet, RedeemerOutputScript: scriptOf(k), RequestedAmount: 50000, BlockNumber: block,
		})
		if walletsOfKey[k] == nil {
			walletsOfKey[k] = map[[20]byte]bool{}
		}
		walletsOfKey[k][wallet] = true
	}
	for _, k := range in.Get("keys").Keys() {
		st := in.Get("keys").Get(k)
		for wallet := range walletsOfKey[k] {
			ch.SetRedemptionDelay(wallet, scriptOf(k), time.Duration(st.Get("delay").Int())*c33Unit)
			if st.Get("pending").Bool() {
				ch.SetPendingRedemptionRequest(wallet, &tbtc.RedemptionRequest{
					RedeemerOutputScript: scriptOf(k), RequestedAmount: 50000,
					RequestedAt: now.Add(-time.Duration(st.Get("age").Int())*c33Unit - c33Unit/2),
				})
			}
		}
	}
	limit := uint16(in.Get("limit").Int())
	var got []*RedemptionRequest
	var err error
	var scripts []bitcoin.Script
	var scriptsErr error
	func() {
		defer func() {
			if r := recover(); r != nil {
				err = fmt.Errorf("PANIC: %v", r)
			}
		}()
		got, err = findPendingRedemptions(logger, ch, this, c33CurrentBlock, limit, timeoutSeconds, uint32((minAge * c33Unit).Seconds()))
		scripts, scriptsErr = NewRedemptionTask(ch, nil).FindPendingRedemptions(logger, this, limit)
	}()
	render := func(err error, keys []string) string {
		e := ""
		if err != nil {
			e = "error"
		}
		return e + "[" + strings.Join(keys, ",") + "]"
	}
	var gotKeys, gotKeys2 []string
	for _, r := range got {
		l, ok := labelOf[string(r.RedeemerOutputScript)]
		if !ok || r.WalletPublicKeyHash != this {
			l = "foreign:" + l
		}
		gotKeys = append(gotKeys, l)
	}
	for _, s := range scripts {
		gotKeys2 = append(gotKeys2, labelOf[string(s)])
	}
	allowed := map[string]bool{}
	var allowedList []string
	for _, a := range cs.Get("allowed").List() {
		var e error
		if a.Get("err").Str() != "" {
			e = fmt.Errorf("x")
		}
		r := render(e, a.Get("sel").Strs())
		allowed[r] = true
		allowedList = append(allowedList, r)
	}
	sort.Strings(allowedList)
	nontrivial := ""
	if exp.Get("err").Str() == "" && len(exp.Get("sel").List()) > 0 {
		nontrivial = key
	}
	rep.Eval(nontrivial, cs.X)
	rep.Count("redemptions/"+map[bool]string{true: "ok", false: "error:" + exp.Get("err").Str()}[exp.Get("err").Str() == ""], 1)
	if len(allowedList) > 1 {
		rep.Count("redemptions/ties", 1)
	}
	obs := map[string]interface{}{"findPendingRedemptions": render(err, gotKeys), "FindPendingRedemptions": render(scriptsErr, gotKeys2),
		"err": fmt.Sprint(err), "err2": fmt.Sprint(scriptsErr)}
	var problems []string
	if err != nil && strings.HasPrefix(err.Error(), "PANIC") {
		problems = append(problems, "panicked: "+err.Error())
	} else {
		if !allowed[render(err, gotKeys)] {
			problems = append(problems, fmt.Sprintf("findPendingRedemptions returned %s (%v), allowed %v", render(err, gotKeys), err, allowedList))
		}
		if !allowed[render(scriptsErr, gotKeys2)] {
			problems = append(problems, fmt.Sprintf("FindPendingRedemptions returned %s (%v), allowed %v", render(scriptsErr, gotKeys2), scriptsErr, allowedList))
		}
		wantErr := map[string]string{"events": "failed to get past redemption requested events", "pending": "failed to get pending redemption request",
			"delay": "failed to get redemption delay"}[exp.Get("err").Str()]
		if wantErr != "" && err != nil && !strings.Contains(err.Error(), wantErr) {
			problems = append(problems, fmt.Sprintf("error %q, expected %q", err, wantErr))
		}
	}
	if len(problems) > 0 {
		rep.Diverge(key, "redemption discovery: "+strings.Join(problems, "; "), cs.X, map[string]interface{}{"allowed": allowedList}, obs)
	}
}

// ---------------------------------------------------------------- generator

var c33Actions = map[string]tbtc.WalletActionType{
	"Noop": tbtc.ActionNoop, "Heartbeat": tbtc.ActionHeartbeat, "DepositSweep": tbtc.ActionDepositSweep,
	"Redemption": tbtc.ActionRedemption, "MovingFunds": tbtc.ActionMovingFunds, "MovedFundsSweep": tbtc.ActionMovedFundsSweep,
}

type c33Task struct {
	action  tbtc.WalletActionType
	outcome string
	ran     *[]string
}

type c33Proposal struct {
	tbtc.NoopProposal
	action tbtc.WalletActionType
}

func (p *c33Proposal) ActionType() tbtc.WalletActionType { return p.action }

func (tk *c33Task) Run(*tbtc.CoordinationProposalRequest) (tbtc.CoordinationProposal, bool, error) {
	*tk.ran = append(*tk.ran, tk.action.String())
	switch tk.outcome {
	case "proposal":
		return &c33Proposal{action: tk.action}, true, nil
	case "error":
		return nil, false, fmt.Errorf("injected task failure")
	}
	return nil, false, nil
}

func (tk *c33Task) ActionType() tbtc.WalletActionType { return tk.action }

func c33RunGenerate(t *testing.T, rep *kit.Report, ci int, cs kit.V) {
	in, exp := cs.Get("in"), cs.Get("expected")
	key := "generate:" + kit.Hash(in.X)
	var checklist []tbtc.WalletActionType
	for _, a := range in.Get("checklist").Strs() {
		checklist = append(checklist, c33Actions[a])
	}
	supported := in.Get("outcome").Keys()
	// the generator's task list in the order of NewProposalGenerator, rotated by the case
	// number so that the result cannot depend on the task list order
	order := []string{"DepositSweep", "Redemption", "Heartbeat", "MovingFunds", "MovedFundsSweep"}
	var ran []string
	var tasks []ProposalTask
	for i := range order {
		a := order[(i+ci)%len(order)]
		for _, s := range supported {
			if s == a {
				tasks = append(tasks, &c33Task{action: c33Actions[a], outcome: in.Get("outcome").Get(a).Str(), ran: &ran})
			}
		}
	}
	request := &tbtc.CoordinationProposalRequest{WalletPublicKeyHash: c33PKH("this-wallet"), ActionsChecklist: checklist}
	var proposal tbtc.CoordinationProposal
	var err error
	func() {
		defer func() {
			if r := recover(); r != nil {
				err = fmt.Errorf("PANIC: %v", r)
			}
		}()
		proposal, err = (&ProposalGenerator{tasks: tasks}).Generate(request)
	}()
	nontrivial := ""
	if len(checklist) > 1 {
		nontrivial = key
	}
	rep.Eval(nontrivial, cs.X)
	rep.Count("generate/"+map[bool]string{true: "ok", false: "error"}[exp.Get("err").Str() == ""], 1)
	obs := map[string]interface{}{"err": fmt.Sprint(err), "ran": ran}
	if proposal != nil {
		obs["proposal"] = proposal.ActionType().String()
	}
	problems := c33CompareGenerate(exp, proposal, err)
	if want := exp.Get("ran").Strs(); fmt.Sprint(ran) != fmt.Sprint(want) && !(len(ran) == 0 && len(want) == 0) {
		problems = append(problems, fmt.Sprintf("tasks run %v, expected %v", ran, want))
	}
	if len(problems) > 0 {
		rep.Diverge(key, "proposal generator: "+strings.Join(problems, "; "), cs.X, exp.X, obs)
		return
	}

	// ---- the same checklist on the real task list (NewProposalGenerator), for the outcomes
	// that can be arranged without a full proposal-validation environment
	for _, a := range in.Get("checklist").Strs() {
		if a == "MovingFunds" || a == "MovedFundsSweep" {
			return
		}
	}
	out := in.Get("outcome")
	if out.Get("DepositSweep").Str() == "proposal" || out.Get("Redemption").Str() == "proposal" || out.Get("Heartbeat").Str() == "none" {
		return
	}
	ch := c33NewChain("none")
	ch.sweepMaxSize, ch.redemptionMax = 5, 5
	ch.SetDepositMinAge(3600)
	ch.SetRedemptionParameters(0, 0, 0, 0, 7*3600, nil, 0)
	ch.SetRedemptionRequestMinAge(3600)
	// DepositSweep / Redemption: "none" = nothing to discover, "error" = the first chain call fails
	faults := []string{}
	if out.Get("DepositSweep").Str() == "error" {
		faults = append(faults, "sweepMaxSize")
	}
	if out.Get("Redemption").Str() == "error" {
		faults = append(faults, "redemptionMaxSize")
	}
	ch.heartbeatValid = out.Get("Heartbeat").Str() == "proposal"
	real := NewProposalGenerator(&c33MultiFault{c33Chain: ch, faults: faults}, NewLocalBitcoinChain())
	var proposal2 tbtc.CoordinationProposal
	var err2 error
	func() {
		defer func() {
			if r := recover(); r != nil {
				err2 = fmt.Errorf("PANIC: %v", r)
			}
		}()
		proposal2, err2 = real.Generate(request)
	}()
	rep.Count("generate/real-tasks", 1)
	if problems := c33CompareGenerate(exp, proposal2, err2); len(problems) > 0 {
		obs2 := map[string]interface{}{"err": fmt.Sprint(err2)}
		if proposal2 != nil {
			obs2["proposal"] = proposal2.ActionType().String()
		}
		rep.Diverge("real:"+key, "proposal generator with its real tasks: "+strings.Join(problems, "; "), cs.X, exp.X, obs2)
	}
}

// c33MultiFault makes several chain calls fail at once.
type c33MultiFault struct {
	*c33Chain
	faults []string
}

func (m *c33MultiFault) has(f string) bool {
	for _, x := range m.faults {
		if x == f {
			return true
		}
	}
	return false
}

func (m *c33MultiFault) GetDepositSweepMaxSize() (uint16, error) {
	if m.has("sweepMaxSize") {
		return 0, fmt.Errorf("injected failure of sweepMaxSize")
	}
	return m.c33Chain.GetDepositSweepMaxSize()
}

func (m *c33MultiFault) GetRedemptionMaxSize() (uint16, error) {
	if m.has("redemptionMaxSize") {
		return 0, fmt.Errorf("injected failure of redemptionMaxSize")
	}
	return m.c33Chain.GetRedemptionMaxSize()
}

func c33CompareGenerate(exp kit.V, proposal tbtc.CoordinationProposal, err error) []string {
	var problems []string
	switch {
	case err != nil && strings.HasPrefix(err.Error(), "PANIC"):
		problems = append(problems, "Generate panicked: "+err.Error())
	case exp.Get("err").Str() != "":
		want := fmt.Sprintf("error while running proposal task [%s]", exp.Get("err").Str())
		if err == nil {
			problems = append(problems, fmt.Sprintf("Generate returned a proposal (%v), expected %q", proposal.ActionType(), want))
		} else if !strings.Contains(err.Error(), want) {
			problems = append(problems, fmt.Sprintf("Generate failed with %q, expected %q", err, want))
		}
	case err != nil:
		problems = append(problems, "Generate failed: "+err.Error())
	case proposal == nil:
		problems = append(problems, "Generate returned neither a proposal nor an error")
	default:
		if got, want := proposal.ActionType().String(), exp.Get("sel").Idx(0).Str(); got != want {
			problems = append(problems, fmt.Sprintf("Generate returned a %s proposal, expected %s", got, want))
		}
	}
	return problems
}

func TestVerif_C33_Discovery(t *testing.T) {
	kit.RequireEngine(t)
	rep := kit.NewReport("C33", "discovery")
	defer rep.Write(t)
	// the generator's real task list must be the one the specification assumes
	var have []string
	for _, tk := range NewProposalGenerator(c33NewChain("none"), NewLocalBitcoinChain()).tasks {
		have = append(have, tk.ActionType().String())
	}
	if fmt.Sprint(have) != "[DepositSweep Redemption Heartbeat MovingFunds MovedFundsSweep]" {
		t.Fatalf("task list of NewProposalGenerator changed: %v (update specs/Discovery SupportedActions)", have)
	}
	start := time.Now()
	for ci, cs := range kit.LoadCases(t, "cases.ndjson") {
		switch cs.Get("in").Get("kind").Str() {
		case "deposits":
			c33RunDeposits(t, rep, ci, cs)
		case "redemptions":
			c33RunRedemptions(t, rep, ci, cs)
		case "generate":
			c33RunGenerate(t, rep, ci, cs)
		default:
			t.Fatalf("case %d: unknown kind", ci)
		}
	}
	rep.Extra["replay_wall_s"] = time.Since(start).Seconds()
}
