//go:build verif

package btcdiff

// C43 conformance harness: lock-step replay of TLC-generated behaviours of
// /verif/specs/DifficultyMaintainer on the REAL control loop
// (bitcoinDifficultyMaintainer.startControlLoop -> proveEpochs ->
// verifySubmissionEligibility / proveNextEpoch / getBlockHeaders /
// waitForCurrentEpochUpdate).
//
// The maintainer runs in its own goroutine against scripted chains in which
// every query parks until the driver handles the corresponding step of the
// behaviour. Environment steps (blocks mined, another maintainer's retarget,
// the node catching up, governance changes) are applied to the scripted chains
// between the maintainer's queries exactly as in the behaviour. After every
// maintainer step the driver compares: which query the real code issues (its
// control location), the heights of the headers it fetches, the method, count
// and heights of the headers it submits; at the end the query the code issues
// next is compared with the specification's final control location.
//
// Abstraction function: the model epoch length L (8) is mapped to 2016 so that
// distances to epoch boundaries are preserved: model block e*L+o is real block
// (e+400)*2016+o for o < L/2 and (e+401)*2016-(L-o) otherwise; model epoch e is
// real epoch e+400. Back-off times are 1 ms (Config), the poll sleep of
// waitForCurrentEpochUpdate is the code's hard-wired second.

import (
	"context"
	"fmt"
	"math/big"
	"sync"
	"testing"
	"time"

	logging "github.com/ipfs/go-log/v2"

	kit "github.com/keep-network/keep-core/internal/verifkit"
	"github.com/keep-network/keep-core/pkg/bitcoin"
	"github.com/keep-network/keep-core/pkg/chain"
	"github.com/keep-network/keep-core/pkg/chain/local_v1"
	"github.com/keep-network/keep-core/pkg/operator"
)

const c43EpochOffset = 400

type c43Reply struct {
	val interface{}
	err error
}

type c43Query struct {
	kind    string
	height  uint
	headers []*bitcoin.BlockHeader
	address chain.Address
	reply   chan c43Reply
}

// c43World is the scripted environment: Bitcoin chain + relay.
type c43World struct {
	L                       int
	height                  int // model height
	relay, visible          int // model epochs
	proofLen                int
	ready, authDir, authRef bool
	signer                  chain.Signing
	q                       chan *c43Query
	closed                  chan struct{}
	once                    sync.Once
}

func (w *c43World) realHeight(b int) uint {
	e, o := b/w.L, b%w.L
	if o < w.L/2 {
		return uint((e+c43EpochOffset)*bitcoinDifficultyEpochLength + o)
	}
	return uint((e+1+c43EpochOffset)*bitcoinDifficultyEpochLength - (w.L - o))
}

func (w *c43World) header(h uint) *bitcoin.BlockHeader {
	return &bitcoin.BlockHeader{Version: 2, Time: uint32(h), Bits: 0x1d00ffff - uint32(h/bitcoinDifficultyEpochLength), Nonce: uint32(h)}
}

func (w *c43World) apply(env kit.V) {
	w.height = env.Get("height").Int()
	w.relay = env.Get("relay").Int()
	w.visible = env.Get("visible").Int()
	w.proofLen = env.Get("proofLen").Int()
	w.ready = env.Get("ready").Bool()
	w.authDir = env.Get("authDirect").Bool()
	w.authRef = env.Get("authRefund").Bool()
}

func (w *c43World) shutdown() { w.once.Do(func() { close(w.closed) }) }

var errC43Shutdown = fmt.Errorf("verif: scripted chain shut down")

func (w *c43World) ask(q *c43Query) c43Reply {
	q.reply = make(chan c43Reply, 1)
	select {
	case w.q <- q:
	case <-w.closed:
		return c43Reply{err: errC43Shutdown}
	}
	select {
	case r := <-q.reply:
		return r
	case <-w.closed:
		return c43Reply{err: errC43Shutdown}
	}
}

// ---- bitcoin.Chain
type c43Btc struct {
	bitcoin.Chain
	w *c43World
}

func (b *c43Btc) GetLatestBlockHeight() (uint, error) {
	r := b.w.ask(&c43Query{kind: "GetLatestBlockHeight"})
	if r.err != nil {
		return 0, r.err
	}
	return r.val.(uint), nil
}

func (b *c43Btc) GetBlockHeader(h uint) (*bitcoin.BlockHeader, error) {
	r := b.w.ask(&c43Query{kind: "GetBlockHeader", height: h})
	if r.err != nil {
		return nil, r.err
	}
	return r.val.(*bitcoin.BlockHeader), nil
}

// ---- btcdiff.Chain
type c43Relay struct{ w *c43World }

func (c *c43Relay) Ready() (bool, error) {
	r := c.w.ask(&c43Query{kind: "Ready"})
	if r.err != nil {
		return false, r.err
	}
	return r.val.(bool), nil
}
func (c *c43Relay) IsAuthorized(a chain.Address) (bool, error) {
	r := c.w.ask(&c43Query{kind: "IsAuthorized", address: a})
	if r.err != nil {
		return false, r.err
	}
	return r.val.(bool), nil
}
func (c *c43Relay) IsAuthorizedForRefund(a chain.Address) (bool, error) {
	r := c.w.ask(&c43Query{kind: "IsAuthorizedForRefund", address: a})
	if r.err != nil {
		return false, r.err
	}
	return r.val.(bool), nil
}
func (c *c43Relay) Signing() chain.Signing { return c.w.signer }
func (c *c43Relay) Retarget(h []*bitcoin.BlockHeader) error {
	return c.w.ask(&c43Query{kind: "Retarget", headers: h}).err
}
func (c *c43Relay) RetargetWithRefund(h []*bitcoin.BlockHeader) error {
	return c.w.ask(&c43Query{kind: "RetargetWithRefund", headers: h}).err
}
func (c *c43Relay) CurrentEpoch() (uint64, error) {
	r := c.w.ask(&c43Query{kind: "CurrentEpoch"})
	if r.err != nil {
		return 0, r.err
	}
	return r.val.(uint64), nil
}
func (c *c43Relay) ProofLength() (uint64, error) {
	r := c.w.ask(&c43Query{kind: "ProofLength"})
	if r.err != nil {
		return 0, r.err
	}
	return r.val.(uint64), nil
}
func (c *c43Relay) GetCurrentAndPrevEpochDifficulty() (*big.Int, *big.Int, error) {
	return nil, nil, fmt.Errorf("verif: not part of the difficulty maintainer's contract")
}

var errC43Injected = fmt.Errorf("verif: injected query failure")

type c43Driver struct {
	t       *testing.T
	rep     *kit.Report
	w       *c43World
	pending *c43Query
	dp      bool
}

const c43QueryWait = 180 * time.Second

// next returns the maintainer's next query; nil if none arrives (harness failure).
func (d *c43Driver) next() *c43Query {
	if d.pending != nil {
		q := d.pending
		d.pending = nil
		return q
	}
	select {
	case q := <-d.w.q:
		return q
	case <-time.After(c43QueryWait):
		return nil
	}
}

func (d *c43Driver) via() string {
	if d.dp {
		return "Retarget"
	}
	return "RetargetWithRefund"
}

func (d *c43Driver) authKind() string {
	if d.dp {
		return "IsAuthorized"
	}
	return "IsAuthorizedForRefund"
}

// answer computes the scripted chain's answer to a read query in the current state.
func (d *c43Driver) answer(q *c43Query) c43Reply {
	w := d.w
	switch q.kind {
	case "Ready":
		return c43Reply{val: w.ready}
	case "IsAuthorized":
		return c43Reply{val: w.authDir && q.address == w.signer.Address()}
	case "IsAuthorizedForRefund":
		return c43Reply{val: w.authRef && q.address == w.signer.Address()}
	case "GetLatestBlockHeight":
		return c43Reply{val: w.realHeight(w.height)}
	case "CurrentEpoch":
		return c43Reply{val: uint64(w.visible + c43EpochOffset)}
	case "ProofLength":
		return c43Reply{val: uint64(w.proofLen)}
	case "GetBlockHeader":
		if q.height > w.realHeight(w.height) {
			return c43Reply{err: fmt.Errorf("verif: block header at height %d does not exist (tip %d)", q.height, w.realHeight(w.height))}
		}
		return c43Reply{val: w.header(q.height)}
	}
	return c43Reply{err: fmt.Errorf("verif: unscripted query %s", q.kind)}
}

func c43ExpectedKind(d *c43Driver, pc string) string {
	switch pc {
	case "start", "backoff":
		return "Ready"
	case "auth":
		return d.authKind()
	case "height", "idle":
		return "GetLatestBlockHeight"
	case "epoch", "wait":
		return "CurrentEpoch"
	case "plen":
		return "ProofLength"
	case "headers":
		return "GetBlockHeader"
	case "submit":
		return d.via()
	}
	return "?"
}

func c43Heights(hs []*bitcoin.BlockHeader) []uint {
	out := make([]uint, len(hs))
	for i, h := range hs {
		if h == nil {
			out[i] = 0
		} else {
			out[i] = uint(h.Nonce)
		}
	}
	return out
}

func c43EqualHeights(a, b []uint) bool {
	if len(a) != len(b) {
		return false
	}
	for i := range a {
		if a[i] != b[i] {
			return false
		}
	}
	return true
}

// replay runs one behaviour; it returns false on a harness failure.
func c43Replay(t *testing.T, rep *kit.Report, bi int, b kit.V) bool {
	key, _, err := operator.GenerateKeyPair(local_v1.DefaultCurve)
	if err != nil {
		t.Errorf("key generation: %v", err)
		return false
	}
	w := &c43World{L: b.Get("L").Int(), signer: local_v1.NewSigner(key), q: make(chan *c43Query), closed: make(chan struct{})}
	w.apply(b.Get("init").Get("env"))
	dp := b.Get("init").Get("disableProxy").Bool()
	d := &c43Driver{t: t, rep: rep, w: w, dp: dp}
	bdm := &bitcoinDifficultyMaintainer{
		config:   Config{DisableProxy: dp, IdleBackOffTime: time.Millisecond, RestartBackOffTime: time.Millisecond},
		btcChain: &c43Btc{w: w},
		chain:    &c43Relay{w: w},
	}
	ctx, cancel := context.WithCancel(context.Background())
	done := make(chan interface{}, 1)
	go func() {
		defer func() { done <- recover() }()
		bdm.startControlLoop(ctx)
	}()
	stop := func() bool {
		cancel()
		w.shutdown()
		select {
		case p := <-done:
			if p != nil {
				rep.Diverge("panic", fmt.Sprintf("the maintainer loop panicked: %v", p), b.Get("init").X, nil, nil)
			}
			return true
		case <-time.After(c43QueryWait):
			t.Errorf("behaviour %d: the control loop did not stop after cancellation", bi)
			return false
		}
	}
	steps := b.Get("steps").List()
	nt := ""
	for _, s := range steps {
		if s.Get("a").Str() == "Submit" {
			nt = kit.Hash(b.X)
		}
	}
	rep.Eval(nt, b.Get("init").X)
	prefix := func(i int) interface{} {
		lo := i - 12
		if lo < 0 {
			lo = 0
		}
		var out []string
		for j := lo; j <= i && j < len(steps); j++ {
			s := steps[j]
			f := ""
			if s.Get("fault").Bool() {
				f = "!"
			}
			out = append(out, fmt.Sprintf("%d:%s%s->%s", j, s.Get("a").Str(), f, s.Get("pc").Str()))
		}
		return map[string]interface{}{"init": b.Get("init").X, "steps_until_divergence": out, "env": steps[i].Get("env").X}
	}
	for i, s := range steps {
		a := s.Get("a").Str()
		rep.Count("step:"+a, 1)
		var want string
		switch a {
		case "QueryReady":
			want = "Ready"
		case "QueryAuth":
			want = d.authKind()
		case "QueryHeight":
			want = "GetLatestBlockHeight"
		case "QueryEpoch", "PollEpoch":
			want = "CurrentEpoch"
		case "QueryProofLen":
			want = "ProofLength"
		case "FetchHeaders":
			want = "GetBlockHeader"
		case "Submit":
			want = d.via()
		default: // environment step or a back-off elapsing: nothing to synchronize with
			w.apply(s.Get("env"))
			continue
		}
		q := d.next()
		if q == nil {
			t.Errorf("behaviour %d step %d (%s): the maintainer issued no query within %v", bi, i, a, c43QueryWait)
			stop()
			return false
		}
		if q.kind != want {
			rep.Diverge(fmt.Sprintf("step:%s:expected=%s,observed=%s", a, want, q.kind),
				fmt.Sprintf("at specification step %s the maintainer must issue %s, the real loop issued %s", a, want, q.kind),
				prefix(i), want, q.kind)
			q.reply <- c43Reply{err: errC43Shutdown}
			return stop()
		}
		fault := s.Get("fault").Bool()
		switch a {
		case "FetchHeaders":
			var got []uint
			var expect []uint
			for m := s.Get("first").Int(); m <= s.Get("last").Int(); m++ {
				expect = append(expect, w.realHeight(m))
			}
			for {
				got = append(got, q.height)
				if fault {
					q.reply <- c43Reply{err: errC43Injected}
					break
				}
				q.reply <- d.answer(q)
				q = d.next()
				if q == nil {
					t.Errorf("behaviour %d step %d: no query after a header fetch", bi, i)
					stop()
					return false
				}
				if q.kind != "GetBlockHeader" {
					d.pending = q
					break
				}
			}
			if !fault && !c43EqualHeights(got, expect) {
				rep.Diverge("headers:fetched", fmt.Sprintf("fetched headers %v, the proof range is %v", got, expect), prefix(i), expect, got)
				return stop()
			}
			if fault && (len(got) != 1 || got[0] != expect[0]) {
				rep.Diverge("headers:first", fmt.Sprintf("first fetched header %v, the proof range starts at %d", got, expect[0]), prefix(i), expect, got)
				return stop()
			}
		case "Submit":
			var expect []uint
			for m := s.Get("first").Int(); m <= s.Get("last").Int(); m++ {
				expect = append(expect, w.realHeight(m))
			}
			got := c43Heights(q.headers)
			rep.Count("submissions", 1)
			if !c43EqualHeights(got, expect) {
				rep.Diverge("submit:headers",
					fmt.Sprintf("submitted headers of heights %v, must be exactly %v (epoch %d, proof length %d)", got, expect,
						s.Get("epoch").Int()+c43EpochOffset, len(expect)/2),
					prefix(i), expect, got)
				q.reply <- c43Reply{err: errC43Shutdown}
				return stop()
			}
			if s.Get("ok").Bool() {
				rep.Count("accepted", 1)
				q.reply <- c43Reply{}
			} else {
				rep.Count("rejected", 1)
				q.reply <- c43Reply{err: fmt.Errorf("verif: retarget rejected by the relay")}
			}
		default:
			if fault {
				q.reply <- c43Reply{err: errC43Injected}
			} else {
				q.reply <- d.answer(q)
			}
		}
		w.apply(s.Get("env"))
	}
	// what the loop does next must match the specification's control location
	if len(steps) > 0 {
		last := steps[len(steps)-1]
		want := c43ExpectedKind(d, last.Get("pc").Str())
		q := d.next()
		if q == nil {
			t.Errorf("behaviour %d: no query after the last step (pc %s)", bi, last.Get("pc").Str())
			stop()
			return false
		}
		if q.kind != want {
			rep.Diverge(fmt.Sprintf("final:expected=%s,observed=%s", want, q.kind),
				fmt.Sprintf("after the behaviour the maintainer is at %q and must issue %s, the real loop issued %s", last.Get("pc").Str(), want, q.kind),
				prefix(len(steps)-1), want, q.kind)
		}
		q.reply <- c43Reply{err: errC43Shutdown}
	}
	return stop()
}

func TestVerif_C43_Replay(t *testing.T) {
	kit.RequireEngine(t)
	rep := kit.NewReport("C43", "replay")
	defer rep.Write(t)
	_ = logging.SetLogLevel("keep-maintainer-btcdiff", "fatal")
	behs := kit.LoadCases(t, "behaviours.ndjson")
	if len(behs) == 0 {
		t.Fatal("no behaviours")
	}
	workers := kit.IntEnv("VERIF_WORKERS", 8)
	var wg sync.WaitGroup
	idx := make(chan int)
	var failed sync.Once
	abort := make(chan struct{})
	for k := 0; k < workers; k++ {
		wg.Add(1)
		go func() {
			defer wg.Done()
			for i := range idx {
				if !c43Replay(t, rep, i, behs[i]) {
					failed.Do(func() { close(abort) })
				}
			}
		}()
	}
feed:
	for i := range behs {
		select {
		case idx <- i:
		case <-abort:
			break feed
		}
	}
	close(idx)
	wg.Wait()
}
