//go:build verif

package spv

// C32 conformance harness. Every input enumerated by
// /verif/specs/SpvConfirmations (start offsets around epoch boundaries x
// difficulty factors x previous/current difficulties x relay epochs x
// confirmations x failing query) is put behind recording mock chains and
// passed to the real getProofInfo; all four results are compared with the
// DECLARATIVE answer of the specification (classification of the range and the
// least number of headers whose accumulated difficulty reaches factor x the
// first header's difficulty). A second test runs the real proveTransactions
// round over the same inputs and compares the decision (error / skipped /
// submitted with how many confirmations).
//
// Abstraction function: a model difficulty d is the real difficulty d*K with a
// scale K chosen per case among 1, 10^13 (the magnitude of mainnet
// difficulties) and 2^70 (beyond uint64); quotients and zero-ness of
// remainders are invariant under the scale.

import (
	"fmt"
	"math/big"
	"sync"
	"testing"

	kit "github.com/keep-network/keep-core/internal/verifkit"
	"github.com/keep-network/keep-core/pkg/bitcoin"
	"github.com/keep-network/keep-core/pkg/maintainer/btcdiff"
)

type c32Calls struct {
	mu    sync.Mutex
	calls []string
}

func (c *c32Calls) add(s string) {
	c.mu.Lock()
	c.calls = append(c.calls, s)
	c.mu.Unlock()
}

func (c *c32Calls) has(s string) bool {
	c.mu.Lock()
	defer c.mu.Unlock()
	for _, x := range c.calls {
		if x == s {
			return true
		}
	}
	return false
}

// c32Btc answers the two Bitcoin queries of getProofInfo; every other method
// of bitcoin.Chain is absent (nil embedded interface).
type c32Btc struct {
	bitcoin.Chain
	rec    *c32Calls
	latest uint
	confs  uint
	txHash bitcoin.Hash
	failAt string
}

func (b *c32Btc) GetLatestBlockHeight() (uint, error) {
	b.rec.add("latest")
	if b.failAt == "latest" {
		return 0, fmt.Errorf("verif: injected failure of GetLatestBlockHeight")
	}
	return b.latest, nil
}

func (b *c32Btc) GetTransactionConfirmations(h bitcoin.Hash) (uint, error) {
	b.rec.add("confirmations")
	if b.failAt == "confirmations" {
		return 0, fmt.Errorf("verif: injected failure of GetTransactionConfirmations")
	}
	if h != b.txHash {
		return 0, fmt.Errorf("verif: confirmations requested for an unexpected transaction %s", h.Hex(bitcoin.InternalByteOrder))
	}
	return b.confs, nil
}

type c32Spv struct {
	Chain
	rec    *c32Calls
	factor *big.Int
	failAt string
}

func (s *c32Spv) TxProofDifficultyFactor() (*big.Int, error) {
	s.rec.add("factor")
	if s.failAt == "factor" {
		return nil, fmt.Errorf("verif: injected failure of TxProofDifficultyFactor")
	}
	return new(big.Int).Set(s.factor), nil
}

type c32Diff struct {
	btcdiff.Chain
	rec       *c32Calls
	epoch     uint64
	cur, prev *big.Int
	failAt    string
}

func (d *c32Diff) CurrentEpoch() (uint64, error) {
	d.rec.add("epoch")
	if d.failAt == "epoch" {
		return 0, fmt.Errorf("verif: injected failure of CurrentEpoch")
	}
	return d.epoch, nil
}

func (d *c32Diff) GetCurrentAndPrevEpochDifficulty() (*big.Int, *big.Int, error) {
	d.rec.add("difficulties")
	if d.failAt == "difficulties" {
		return nil, nil, fmt.Errorf("verif: injected failure of GetCurrentAndPrevEpochDifficulty")
	}
	return new(big.Int).Set(d.cur), new(big.Int).Set(d.prev), nil
}

var c32Scales = []*big.Int{
	big.NewInt(1),
	big.NewInt(10000000000000),
	new(big.Int).Lsh(big.NewInt(1), 70),
}

type c32Case struct {
	v       kit.V
	key     string
	class   string
	errAt   string
	rec     *c32Calls
	btc     *c32Btc
	spv     *c32Spv
	diff    *c32Diff
	tx      *bitcoin.Transaction
	expErr  bool
	expIn   bool
	expAcc  uint
	expReq  uint
	expDec  string
	nontriv string
}

func c32Build(c kit.V, idx int, scale *big.Int) *c32Case {
	k := &c32Case{v: c, rec: &c32Calls{}}
	k.class = c.Get("class").Str()
	k.errAt = c.Get("errAt").Str()
	k.key = fmt.Sprintf("info:ce=%d,d=%d,off=%d,f=%d,prev=%d,cur=%d,conf=%d,err=%s",
		c.Get("ce").Int(), c.Get("d").Int(), c.Get("off").Int(), c.Get("factor").Int(),
		c.Get("prevD").Int(), c.Get("curD").Int(), c.Get("conf").Int(), k.errAt)
	k.tx = &bitcoin.Transaction{
		Version: 1,
		Inputs: []*bitcoin.TransactionInput{{
			Outpoint: &bitcoin.TransactionOutpoint{OutputIndex: uint32(idx)},
			Sequence: 0xffffffff,
		}},
		Outputs:  []*bitcoin.TransactionOutput{{Value: int64(idx) + 1, PublicKeyScript: []byte{0x51}}},
		Locktime: uint32(idx),
	}
	k.btc = &c32Btc{rec: k.rec, latest: uint(c.Get("latest").Int()), confs: uint(c.Get("conf").Int()),
		txHash: k.tx.Hash(), failAt: k.errAt}
	k.spv = &c32Spv{rec: k.rec, factor: big.NewInt(int64(c.Get("factor").Int())), failAt: k.errAt}
	k.diff = &c32Diff{rec: k.rec, epoch: uint64(c.Get("ce").Int()),
		cur:    new(big.Int).Mul(big.NewInt(int64(c.Get("curD").Int())), scale),
		prev:   new(big.Int).Mul(big.NewInt(int64(c.Get("prevD").Int())), scale),
		failAt: k.errAt}
	e := c.Get("expected")
	k.expErr, k.expIn = e.Get("err").Bool(), e.Get("within").Bool()
	k.expAcc, k.expReq = uint(e.Get("acc").Int()), uint(e.Get("req").Int())
	k.expDec = c.Get("decision").Str()
	// non-trivial: the arithmetic branch, a failing query, or a range touching an epoch boundary
	off, f := c.Get("off").Int(), c.Get("factor").Int()
	if k.class == "spanning" || k.errAt != "none" || (off < 0 && off+f >= 0) || off == 0 {
		k.nontriv = k.key
	}
	return k
}

func c32Load(t *testing.T) []kit.V {
	cases := kit.LoadCases(t, "cases.ndjson")
	if len(cases) == 0 {
		t.Fatal("no cases")
	}
	return cases
}

func TestVerif_C32_ProofInfo(t *testing.T) {
	kit.RequireEngine(t)
	rep := kit.NewReport("C32", "proofinfo")
	defer rep.Write(t)
	rnd := kit.Rand(32)
	for i, c := range c32Load(t) {
		scale := c32Scales[rnd.Intn(len(c32Scales))]
		k := c32Build(c, i, scale)
		var (
			within   bool
			acc, req uint
			err      error
			panicked interface{}
		)
		func() {
			defer func() { panicked = recover() }()
			within, acc, req, err = getProofInfo(k.tx.Hash(), k.btc, k.spv, k.diff)
		}()
		rep.Eval(k.nontriv, c.X)
		rep.Count("class:"+k.class, 1)
		if k.errAt != "none" {
			rep.Count("failing:"+k.errAt, 1)
		}
		obs := map[string]interface{}{"within": within, "acc": acc, "req": req, "err": fmt.Sprint(err),
			"calls": k.rec.calls, "scale": scale.String()}
		if panicked != nil {
			rep.Diverge(k.key, fmt.Sprintf("getProofInfo panicked: %v", panicked), c.X, c.Get("expected").X, obs)
			continue
		}
		expErr := k.expErr
		if k.errAt == "difficulties" {
			// the difficulties are needed for spanning proofs only; a failure of a query
			// the function chose to issue anyway may surface as an error
			expErr = k.rec.has("difficulties")
			if k.expErr && !expErr {
				rep.Diverge(k.key, "spanning proof computed without fetching the epoch difficulties", c.X, c.Get("expected").X, obs)
				continue
			}
		} else if k.errAt != "none" && !k.rec.has(k.errAt) {
			rep.Diverge(k.key, "getProofInfo did not issue the "+k.errAt+" query", c.X, c.Get("expected").X, obs)
			continue
		}
		if expErr {
			if err == nil {
				rep.Diverge(k.key, "failure of the "+k.errAt+" query was swallowed", c.X, c.Get("expected").X, obs)
			} else if within || acc != 0 || req != 0 {
				rep.Diverge(k.key, "error returned together with non-zero results", c.X, c.Get("expected").X, obs)
			}
			continue
		}
		if err != nil {
			rep.Diverge(k.key, "getProofInfo failed although every issued query succeeded: "+err.Error(), c.X, c.Get("expected").X, obs)
			continue
		}
		if within != k.expIn {
			rep.Diverge(k.key, fmt.Sprintf("proof range misclassified: range is %q for the relay, isProofWithinRelayRange = %v", k.class, within),
				c.X, c.Get("expected").X, obs)
			continue
		}
		if req != k.expReq {
			what := fmt.Sprintf("required confirmations %d, the least sufficient number is %d (class %s)", req, k.expReq, k.class)
			if req < k.expReq {
				what += ": accumulated difficulty of the proof is insufficient"
			} else {
				what += ": not minimal"
			}
			rep.Diverge(k.key, what, c.X, c.Get("expected").X, obs)
			continue
		}
		if acc != k.expAcc {
			rep.Diverge(k.key, fmt.Sprintf("accumulated confirmations %d, chain says %d", acc, k.expAcc), c.X, c.Get("expected").X, obs)
		}
	}
}

// TestVerif_C32_Round runs one real proveTransactions round per input and
// compares the decision taken for the transaction.
func TestVerif_C32_Round(t *testing.T) {
	kit.RequireEngine(t)
	rep := kit.NewReport("C32", "round")
	defer rep.Write(t)
	rnd := kit.Rand(33)
	for i, c := range c32Load(t) {
		scale := c32Scales[rnd.Intn(len(c32Scales))]
		k := c32Build(c, i, scale)
		sm := &spvMaintainer{config: Config{HistoryDepth: 7, TransactionLimit: 3}, spvChain: k.spv, btcDiffChain: k.diff, btcChain: k.btc}
		type submission struct {
			hash bitcoin.Hash
			req  uint
		}
		var submitted []submission
		getter := func(historyDepth uint64, transactionLimit int, btcChain bitcoin.Chain, spvChain Chain) ([]*bitcoin.Transaction, error) {
			return []*bitcoin.Transaction{k.tx}, nil
		}
		submitter := func(h bitcoin.Hash, required uint, btcChain bitcoin.Chain, spvChain Chain) error {
			submitted = append(submitted, submission{h, required})
			return nil
		}
		var err error
		var panicked interface{}
		func() {
			defer func() { panicked = recover() }()
			err = sm.proveTransactions(getter, submitter)
		}()
		rep.Eval(k.nontriv, c.X)
		rep.Count("decision:"+k.expDec, 1)
		obs := map[string]interface{}{"err": fmt.Sprint(err), "submitted": len(submitted), "calls": k.rec.calls}
		if len(submitted) > 0 {
			obs["required"] = submitted[0].req
		}
		key := "round:" + k.key[len("info:"):]
		if panicked != nil {
			rep.Diverge(key, fmt.Sprintf("proveTransactions panicked: %v", panicked), c.X, k.expDec, obs)
			continue
		}
		exp := k.expDec
		if k.errAt == "difficulties" {
			if k.rec.has("difficulties") {
				exp = "error"
			} else if exp == "error" {
				rep.Diverge(key, "spanning proof decided without fetching the epoch difficulties", c.X, k.expDec, obs)
				continue
			}
		}
		switch exp {
		case "error":
			if err == nil || len(submitted) != 0 {
				rep.Diverge(key, "a failing query did not abort the round", c.X, exp, obs)
			}
		case "skip-range", "skip-confirmations":
			if err != nil {
				rep.Diverge(key, "round failed for a transaction that must be skipped: "+err.Error(), c.X, exp, obs)
			} else if len(submitted) != 0 {
				rep.Diverge(key, fmt.Sprintf("proof submitted (required=%d) although the transaction must be skipped (%s)", submitted[0].req, exp), c.X, exp, obs)
			}
		case "submit":
			if err != nil {
				rep.Diverge(key, "round failed for a provable transaction: "+err.Error(), c.X, exp, obs)
			} else if len(submitted) != 1 || submitted[0].hash != k.tx.Hash() {
				rep.Diverge(key, "provable transaction was not submitted exactly once", c.X, exp, obs)
			} else if submitted[0].req != k.expReq {
				rep.Diverge(key, fmt.Sprintf("proof submitted with %d required confirmations, the least sufficient number is %d", submitted[0].req, k.expReq), c.X, exp, obs)
			}
		default:
			t.Fatalf("unknown decision %q", exp)
		}
	}
}
