//go:build verif

package firewall

// Overlay helper of the NetPath composition check (XNP): the end-to-end
// harness lives in package libp2p and runs the real AnyApplicationPolicy with
// short caching periods. The periods are constants here; this file (compiled
// into the package by `go test -overlay`, never part of keep-core) swaps the
// two TimeCaches of a freshly built policy for caches with the given periods.

import (
	"time"

	"github.com/keep-network/keep-common/pkg/cache"
	"github.com/keep-network/keep-core/pkg/net"
)

// VerifSetCachePeriods replaces the positive and the negative result cache of
// a policy built by AnyApplicationPolicy. It reports whether fw is such a policy.
func VerifSetCachePeriods(fw net.Firewall, positive, negative time.Duration) bool {
	p, ok := fw.(*anyApplicationPolicy)
	if !ok {
		return false
	}
	p.positiveResultCache = cache.NewTimeCache(positive)
	p.negativeResultCache = cache.NewTimeCache(negative)
	return true
}
