//go:build verif

package firewall

// C21 conformance harness (see /verif/specs/Firewall).
//
// TestVerif_C21_Replay steps the real anyApplicationPolicy (built by
// AnyApplicationPolicy, with the two TimeCaches replaced by caches of short
// periods) through TLC-generated behaviours: Tick = one real time unit U,
// Validate(p, ans) = a real Validate call with scripted applications that
// answer ans[i] (yes / no / error) when asked. After every call the verdict,
// the applications that were asked (and their order) and the content of both
// caches are compared with the specification.
//
// Real time: cache periods are (period + 1/2) * U; a call made at model time c
// must start and end inside [c*U, c*U + 0.4*U]. Then every age the TimeCache
// computes is at least 0.1*U away from the period, on the side the
// specification says. A behaviour in which any call missed its window is
// repeated with a larger U and finally dropped as inconclusive - never judged.

import (
	"errors"
	"fmt"
	"math/big"
	"sync"
	"testing"
	"time"

	"github.com/keep-network/keep-common/pkg/cache"
	kit "github.com/keep-network/keep-core/internal/verifkit"
	"github.com/keep-network/keep-core/pkg/chain/local_v1"
	"github.com/keep-network/keep-core/pkg/operator"
)

type c21App struct {
	idx int
	mu  *sync.Mutex
	ans *[]string // answers of the current call, shared by all applications of a policy
	log *[]int    // indexes of the applications asked during the current call, in order
}

var errC21Boom = errors.New("verif: application failed")

func (a *c21App) IsRecognized(*operator.PublicKey) (bool, error) {
	a.mu.Lock()
	defer a.mu.Unlock()
	*a.log = append(*a.log, a.idx)
	switch (*a.ans)[a.idx-1] {
	case "yes":
		return true, nil
	case "no":
		return false, nil
	}
	return false, errC21Boom
}

type c21Outcome struct {
	divergence *kit.Divergence
	late       bool
	calls      int
	nontrivial bool
	// calls in which other applications were asked than the specification asks
	askedDiffers int
}

func c21Replay(c kit.V, keys map[string]*operator.PublicKey, unit time.Duration) c21Outcome {
	var out c21Outcome
	napps := c.Get("napps").Int()
	var mu sync.Mutex
	ans := make([]string, napps)
	var asked []int
	apps := make([]Application, napps)
	for i := range apps {
		apps[i] = &c21App{idx: i + 1, mu: &mu, ans: &ans, log: &asked}
	}
	var allowed []*operator.PublicKey
	for _, p := range c.Get("allow").Strs() {
		allowed = append(allowed, keys[p])
	}
	policy := AnyApplicationPolicy(apps, NewAllowList(allowed)).(*anyApplicationPolicy)
	half := unit / 2
	policy.positiveResultCache = cache.NewTimeCache(time.Duration(c.Get("posPeriod").Int())*unit + half)
	policy.negativeResultCache = cache.NewTimeCache(time.Duration(c.Get("negPeriod").Int())*unit + half)

	peers := make([]string, 0, len(keys))
	for p := range keys {
		peers = append(peers, p)
	}
	start := time.Now()
	clock := 0
	window := unit * 4 / 10
	for i, s := range c.Get("steps").List() {
		if s.Get("a").Str() == "Tick" {
			clock++
			if d := time.Until(start.Add(time.Duration(clock) * unit)); d > 0 {
				time.Sleep(d)
			}
			continue
		}
		p := s.Get("p").Str()
		mu.Lock()
		copy(ans, s.Get("ans").Strs())
		asked = asked[:0]
		mu.Unlock()
		t0 := time.Since(start)
		var err error
		func() {
			defer func() {
				if r := recover(); r != nil {
					err = fmt.Errorf("panic: %v", r)
					out.divergence = &kit.Divergence{Key: "panic", What: fmt.Sprintf("Validate panicked: %v", r), Case: c.X}
				}
			}()
			err = policy.Validate(keys[p])
		}()
		t1 := time.Since(start)
		if out.divergence != nil {
			return out
		}
		lo := time.Duration(clock) * unit
		if t0 < lo || t1 > lo+window {
			out.late = true
			return out
		}
		out.calls++
		res := "error"
		if err == nil {
			res = "admit"
		} else if errors.Is(err, errNotRecognized) {
			res = "reject"
		}
		mu.Lock()
		gotAsked := append([]int(nil), asked...)
		mu.Unlock()
		want := s.Get("res").Str()
		src := s.Get("src").Str()
		if src != "eval" || want == "error" {
			out.nontrivial = true
		}
		where := map[string]interface{}{"behaviour": c.X, "at": i + 1, "unit_ms": unit.Milliseconds()}
		if res != want {
			what := fmt.Sprintf("step %d Validate(%s) with answers %v at time %d returned %s (%v), the specification gives %s (%s)", i+1, p, ans, clock, res, err, want, src)
			key := "verdict:" + want + "->" + res
			switch {
			case res == "admit" && want == "error":
				what += ": the peer is admitted although the recognition check failed before any application recognized it"
			case res == "admit":
				what += ": the peer is admitted although it is not allowlisted, no application recognized it in this call and no positive answer is within the caching period"
			case want == "admit":
				what += ": a peer that is allowlisted, freshly recognized or recognized within the caching period is turned away"
			case want == "error" && res == "reject":
				what += ": a failed recognition check is reported as a rejection"
			}
			out.divergence = &kit.Divergence{Key: key, What: what, Case: where, Expected: want, Observed: res}
			return out
		}
		// the applications that were asked, in order: 1..asked
		wantAsked := s.Get("asked").Int()
		okAsked := len(gotAsked) == wantAsked
		for j := range gotAsked {
			if gotAsked[j] != j+1 {
				okAsked = false
			}
		}
		if !okAsked {
			// who is asked is the code's business as long as verdicts and caches agree: reported, not judged
			out.askedDiffers++
		}
		// both caches
		for _, kind := range []string{"pos", "neg"} {
			wantSet := map[string]bool{}
			for _, q := range s.Get(kind).Strs() {
				wantSet[q] = true
			}
			tc := policy.positiveResultCache
			if kind == "neg" {
				tc = policy.negativeResultCache
			}
			for _, q := range peers {
				if has := tc.Has(keys[q].String()); has != wantSet[q] {
					what := fmt.Sprintf("step %d after Validate(%s) = %s with answers %v at time %d: %s cache holds %s = %v, the specification says %v", i+1, p, res, ans, clock, map[string]string{"pos": "positive", "neg": "negative"}[kind], q, has, wantSet[q])
					if want == "error" && has {
						what += ": a failed recognition check must not be remembered"
					}
					out.divergence = &kit.Divergence{Key: "cache:" + kind + ":" + want, What: what, Case: where, Expected: wantSet[q], Observed: has}
					return out
				}
			}
		}
	}
	return out
}

func TestVerif_C21_Replay(t *testing.T) {
	kit.RequireEngine(t)
	rep := kit.NewReport("C21", "replay")
	defer rep.Write(t)
	cases := kit.LoadCases(t, "behaviours.ndjson")
	keys := map[string]*operator.PublicKey{}
	for _, p := range []string{"a", "b"} {
		_, pk, err := operator.GenerateKeyPair(local_v1.DefaultCurve)
		if err != nil {
			t.Fatal(err)
		}
		keys[p] = pk
	}
	// peer c holds the mirror key (x, -y) of peer a: another operator, same X coordinate
	// (the compressed forms differ in the 02/03 prefix only)
	keys["c"] = &operator.PublicKey{Curve: keys["a"].Curve, X: new(big.Int).Set(keys["a"].X),
		Y: new(big.Int).Sub(local_v1.DefaultCurve.Params().P, keys["a"].Y)}
	if keys["c"].String() == keys["a"].String() || !local_v1.DefaultCurve.IsOnCurve(keys["c"].X, keys["c"].Y) {
		t.Fatalf("fixture: mirror key")
	}
	units := []time.Duration{40 * time.Millisecond, 100 * time.Millisecond, 250 * time.Millisecond}
	if u := kit.IntEnv("VERIF_UNIT_MS", 0); u > 0 {
		units = []time.Duration{time.Duration(u) * time.Millisecond, time.Duration(3*u) * time.Millisecond}
	}
	par := kit.IntEnv("VERIF_PARALLEL", 8)
	pending := cases
	for round, unit := range units {
		if len(pending) == 0 {
			break
		}
		if round > 0 {
			par = (par + 1) / 2 // fewer at a time when the machine is evidently busy
		}
		outs := make([]c21Outcome, len(pending))
		sem := make(chan struct{}, par)
		var wg sync.WaitGroup
		for i := range pending {
			wg.Add(1)
			sem <- struct{}{}
			go func(i int) {
				defer wg.Done()
				defer func() { <-sem }()
				outs[i] = c21Replay(pending[i], keys, unit)
			}(i)
		}
		wg.Wait()
		var again []kit.V
		for i, o := range outs {
			switch {
			case o.divergence != nil:
				d := o.divergence
				rep.Diverge(d.Key, d.What, d.Case, d.Expected, d.Observed)
				rep.Eval(kit.Hash(pending[i].X), nil)
			case o.late:
				again = append(again, pending[i])
				rep.Count(fmt.Sprintf("late_unit_%dms", unit.Milliseconds()), 1)
			default:
				key := ""
				if o.nontrivial {
					key = kit.Hash(pending[i].X)
				}
				rep.Eval(key, map[string]interface{}{"steps": pending[i].Get("steps").Len(), "calls": o.calls, "unit_ms": unit.Milliseconds()})
				rep.Count("conclusive", 1)
				rep.Count("calls_compared", o.calls)
				rep.Count("calls_asking_other_applications", o.askedDiffers)
			}
		}
		pending = again
	}
	rep.Count("inconclusive", len(pending))
	rep.Unrealized = len(pending)
}
