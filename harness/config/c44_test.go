//go:build verif

package config

// C44 conformance harness: every input combination enumerated by
// /verif/specs/Config (network flags x explicit sources of peers, Electrum URL
// and contract addresses) is turned into a real TOML file plus a real pflag
// set and passed through Config.ReadConfig; the resolved configuration is
// compared with the specification's Resolve.

import (
	"fmt"
	"os"
	"path/filepath"
	"reflect"
	"strings"
	"testing"

	"github.com/ethereum/go-ethereum/common"
	"github.com/spf13/pflag"
	"github.com/spf13/viper"

	commonEthereum "github.com/keep-network/keep-common/pkg/chain/ethereum"
	"github.com/keep-network/keep-core/config/network"
	kit "github.com/keep-network/keep-core/internal/verifkit"
	"github.com/keep-network/keep-core/pkg/bitcoin"
	chainEthereum "github.com/keep-network/keep-core/pkg/chain/ethereum"
	ethereumBeacon "github.com/keep-network/keep-core/pkg/chain/ethereum/beacon/gen"
	ethereumEcdsa "github.com/keep-network/keep-core/pkg/chain/ethereum/ecdsa/gen"
	ethereumTbtc "github.com/keep-network/keep-core/pkg/chain/ethereum/tbtc/gen"
	ethereumThreshold "github.com/keep-network/keep-core/pkg/chain/ethereum/threshold/gen"
)

var c44AllContracts = []string{
	chainEthereum.RandomBeaconContractName, chainEthereum.TokenStakingContractName,
	chainEthereum.WalletRegistryContractName, chainEthereum.BridgeContractName,
	chainEthereum.MaintainerProxyContractName, chainEthereum.LightRelayContractName,
	chainEthereum.LightRelayMaintainerProxyContractName, chainEthereum.WalletProposalValidatorContractName,
}

func c44Addr(kind string, i int) string {
	prefix := map[string]string{"default": "d", "file": "f", "flag": "a"}[kind]
	return "0x" + strings.Repeat(prefix, 38) + fmt.Sprintf("%02x", i+1)
}

func c44ReadList(t *testing.T, dir, name string) []string {
	b, err := os.ReadFile(filepath.Join(dir, name))
	if err != nil {
		t.Fatalf("cannot read embedded default list: %v", err)
	}
	var out []string
	for _, l := range strings.Split(string(b), "\n") {
		l = strings.TrimSpace(l)
		if l == "" || strings.HasPrefix(l, "#") {
			continue
		}
		out = append(out, l)
	}
	return out
}

func TestVerif_C44_Resolve(t *testing.T) {
	kit.RequireEngine(t)
	rep := kit.NewReport("C44", "resolve")
	defer rep.Write(t)
	if err := os.Setenv(EthereumPasswordEnvVariable, "verif"); err != nil {
		t.Fatal(err)
	}
	// build-time defaults (empty in a plain build): give each contract a recognizable default
	defaults := map[string]*string{
		chainEthereum.RandomBeaconContractName:               &ethereumBeacon.RandomBeaconAddress,
		chainEthereum.TokenStakingContractName:               &ethereumThreshold.TokenStakingAddress,
		chainEthereum.WalletRegistryContractName:             &ethereumEcdsa.WalletRegistryAddress,
		chainEthereum.BridgeContractName:                     &ethereumTbtc.BridgeAddress,
		chainEthereum.MaintainerProxyContractName:            &ethereumTbtc.MaintainerProxyAddress,
		chainEthereum.LightRelayContractName:                 &ethereumTbtc.LightRelayAddress,
		chainEthereum.LightRelayMaintainerProxyContractName:  &ethereumTbtc.LightRelayMaintainerProxyAddress,
		chainEthereum.WalletProposalValidatorContractName:    &ethereumTbtc.WalletProposalValidatorAddress,
	}
	idx := map[string]int{}
	for i, c := range c44AllContracts {
		idx[c] = i
		*defaults[c] = c44Addr("default", i)
	}
	defPeers := map[string][]string{"mainnet": c44ReadList(t, "_peers", "mainnet"), "testnet": c44ReadList(t, "_peers", "testnet")}
	defElectrum := map[string][]string{"mainnet": c44ReadList(t, "_electrum_urls", "mainnet"), "testnet": c44ReadList(t, "_electrum_urls", "testnet")}
	explicitPeers := []string{"/ip4/10.9.8.7/tcp/3919/ipfs/16Uiu2HAmVerifExplicitPeerAAAAAAAAAAAAAAAAAAAAAAAAAAAAAA", "/dns4/explicit.example/tcp/3919/ipfs/16Uiu2HAmVerifExplicitPeerBBBBBBBBBBBBBBBBBBBBBBBBBBBBBB"}
	const explicitElectrum = "tcp://explicit.electrum.example:50001"
	tmp := t.TempDir()

	cases := kit.LoadCases(t, "cases.ndjson")
	for ci, c := range cases {
		viper.Reset()
		fs := pflag.NewFlagSet("verif", pflag.ContinueOnError)
		fs.Bool(network.Mainnet.String(), false, "")
		fs.Bool(network.Testnet.String(), false, "")
		fs.Bool(network.Developer.String(), false, "")
		fs.StringSlice("network.peers", []string{}, "")
		fs.String("bitcoin.electrum.url", "", "")
		for _, cn := range c44AllContracts {
			fs.String(GetDeveloperContractAddressKey(cn), "", "")
		}
		set := func(name, val string) {
			if err := fs.Set(name, val); err != nil {
				t.Fatalf("flag %s: %v", name, err)
			}
		}
		if c.Get("testnet").Bool() {
			set(network.Testnet.String(), "true")
		}
		if c.Get("developer").Bool() {
			set(network.Developer.String(), "true")
		}
		var file strings.Builder
		// optionally the file itself names a network (the `network` key of the ethereum / bitcoin
		// sections) that differs from the one selected by the flags: the selection must win
		ethNetLine, btcNetSection := "", ""
		if c.Get("netInFile").Str() == "other" {
			other := map[string]int{"mainnet": 3, "testnet": 1, "developer": 2}[c.Get("expected").Get("network").Str()]
			ethNetLine = fmt.Sprintf("Network = %d\n", other)
			btcNetSection = fmt.Sprintf("[bitcoin]\nNetwork = %d\n\n", other)
		}
		file.WriteString("[ethereum]\nURL = \"ws://127.0.0.1:8546\"\nKeyFile = \"/tmp/verif-keyfile\"\n" + ethNetLine + "\n[storage]\nDir = \"/tmp/verif-storage\"\n\n" + btcNetSection)
		wantPeers := explicitPeers
		switch c.Get("peers").Str() {
		case "fileSingle":
			wantPeers = explicitPeers[:1]
			file.WriteString("[network]\nPeers = [\"" + explicitPeers[0] + "\"]\n\n")
		case "file":
			file.WriteString("[network]\nPeers = [\"" + strings.Join(explicitPeers, "\", \"") + "\"]\n\n")
		case "flag":
			set("network.peers", strings.Join(explicitPeers, ","))
		}
		switch c.Get("electrum").Str() {
		case "file":
			file.WriteString("[bitcoin.electrum]\nURL = \"" + explicitElectrum + "\"\n\n")
		case "flag":
			set("bitcoin.electrum.url", explicitElectrum)
		}
		wantAddr := map[string]string{}
		var dev strings.Builder
		for _, cn := range c44AllContracts {
			src := "unset"
			if c.Get("contracts").Has(cn) {
				src = c.Get("contracts").Get(cn).Str()
			}
			switch src {
			case "fileMalformed":
				// one digit missing: explicit, but not a well-formed address
				bad := c44Addr("file", idx[cn])
				bad = bad[:len(bad)-1]
				dev.WriteString(fmt.Sprintf("%sAddress = \"%s\"\n", cn, bad))
				wantAddr[cn] = "malformed:" + bad
			case "file":
				dev.WriteString(fmt.Sprintf("%sAddress = \"%s\"\n", cn, c44Addr("file", idx[cn])))
				wantAddr[cn] = c44Addr("file", idx[cn])
			case "flag":
				set(GetDeveloperContractAddressKey(cn), c44Addr("flag", idx[cn]))
				wantAddr[cn] = c44Addr("flag", idx[cn])
			default:
				wantAddr[cn] = c44Addr("default", idx[cn])
			}
		}
		if dev.Len() > 0 {
			file.WriteString("[developer]\n" + dev.String())
		}
		path := filepath.Join(tmp, fmt.Sprintf("c%d.toml", ci))
		if err := os.WriteFile(path, []byte(file.String()), 0o600); err != nil {
			t.Fatal(err)
		}

		cfg := &Config{}
		var readErr error
		func() {
			defer func() {
				if r := recover(); r != nil {
					readErr = fmt.Errorf("panic: %v", r)
				}
			}()
			readErr = cfg.ReadConfig(path, fs)
		}()
		os.Remove(path)
		exp := c.Get("expected")
		nontrivial := ""
		if c.Get("peers").Str() == "unset" || c.Get("electrum").Str() == "unset" || strings.Contains(c.Get("contracts").JSON(), "unset") {
			nontrivial = kit.Hash(c.X)
		}
		rep.Eval(nontrivial, c.X)
		key := fmt.Sprintf("config:%s", kit.Hash(c.X))
		if readErr != nil {
			rep.Diverge(key, "ReadConfig failed on a valid combination: "+readErr.Error(), c.X, exp.X, nil)
			continue
		}
		var problems []string
		// networks
		wantEth := map[string]commonEthereum.Network{"mainnet": commonEthereum.Mainnet, "sepolia": commonEthereum.Sepolia, "developer": commonEthereum.Developer}[exp.Get("ethereum").Str()]
		wantBtc := map[string]bitcoin.Network{"mainnet": bitcoin.Mainnet, "testnet": bitcoin.Testnet, "regtest": bitcoin.Regtest}[exp.Get("bitcoin").Str()]
		if cfg.Ethereum.Network != wantEth {
			problems = append(problems, fmt.Sprintf("ethereum network %v, expected %v", cfg.Ethereum.Network, wantEth))
		}
		if cfg.Bitcoin.Network != wantBtc {
			problems = append(problems, fmt.Sprintf("bitcoin network %v, expected %v", cfg.Bitcoin.Network, wantBtc))
		}
		// peers
		switch p := exp.Get("peers").Str(); {
		case p == "explicit":
			if !reflect.DeepEqual(cfg.LibP2P.Peers, wantPeers) {
				problems = append(problems, fmt.Sprintf("explicit peers overridden: %v", cfg.LibP2P.Peers))
			}
		case p == "none":
			if len(cfg.LibP2P.Peers) != 0 {
				problems = append(problems, fmt.Sprintf("peers filled in for a network without defaults: %v", cfg.LibP2P.Peers))
			}
		default:
			want := defPeers[strings.TrimPrefix(p, "default:")]
			if !reflect.DeepEqual(cfg.LibP2P.Peers, want) {
				problems = append(problems, fmt.Sprintf("peers %v, expected the embedded %s list %v", cfg.LibP2P.Peers, p, want))
			}
		}
		// electrum
		switch e := exp.Get("electrum").Str(); {
		case e == "explicit":
			if cfg.Bitcoin.Electrum.URL != explicitElectrum {
				problems = append(problems, "explicit Electrum URL overridden: "+cfg.Bitcoin.Electrum.URL)
			}
		case e == "none":
			if cfg.Bitcoin.Electrum.URL != "" {
				problems = append(problems, "Electrum URL filled in for a network without defaults: "+cfg.Bitcoin.Electrum.URL)
			}
		default:
			want := defElectrum[strings.TrimPrefix(e, "default:")]
			found := false
			for _, u := range want {
				if u == cfg.Bitcoin.Electrum.URL {
					found = true
				}
			}
			if !found {
				problems = append(problems, fmt.Sprintf("Electrum URL %q is not one of the embedded %s URLs", cfg.Bitcoin.Electrum.URL, e))
			}
		}
		// contracts
		for _, cn := range c44AllContracts {
			got, err := cfg.Ethereum.ContractAddress(cn)
			if strings.HasPrefix(wantAddr[cn], "malformed:") {
				raw := cfg.Ethereum.ContractAddresses[strings.ToLower(cn)]
				if raw != strings.TrimPrefix(wantAddr[cn], "malformed:") || err == nil {
					problems = append(problems, fmt.Sprintf("explicit (malformed) address of %s was replaced: stored %q, resolves to %s (err=%v)", cn, raw, got.Hex(), err))
				}
				continue
			}
			if err != nil {
				problems = append(problems, fmt.Sprintf("contract %s: %v", cn, err))
				continue
			}
			if got != common.HexToAddress(wantAddr[cn]) {
				problems = append(problems, fmt.Sprintf("contract %s resolved to %s, expected %s", cn, got.Hex(), wantAddr[cn]))
			}
		}
		if len(problems) > 0 {
			rep.Diverge(key, "resolved configuration differs from the specification: "+strings.Join(problems, "; "), c.X, exp.X, problems)
		}
	}
	viper.Reset()
}
