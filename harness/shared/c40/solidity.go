//go:build verif

// Package verifc40 is the contract side of the C40 conformance harnesses
// (specs/ChainRules). It is overlaid at internal/verifc40 by
// engine/props/C40.py and deliberately imports nothing of keep-core except
// the verification kit.
//
// It contains, written from the Solidity sources and the Solidity ABI
// specification and NOT from the Go client:
//
//   - AbiEncode: abi.encode for the value types the contracts hash
//     (uintN, bool, bytes, uintN[]), head/tail layout as in the ABI spec;
//   - Keccak / EthSignedMessageHash (ECDSA.toEthSignedMessageHash);
//   - OZRecover: OpenZeppelin ECDSA.recover (length 65, S in the lower half,
//     V in {27, 28}, ecrecover);
//   - DkgValidator: EcdsaDkgValidator.validate and its four parts,
//     EcdsaDkg.submitResult's submitter rule, Wallets.addWallet's wallet ID;
//   - VerifyClaim / NotifyOperatorInactivity: EcdsaInactivity.verifyClaim and
//     the WalletRegistry checks in front of it;
//   - Alpha: the abstraction function from the specification's abstract hash
//     terms ([fn, args] records over typed abstract values) to bytes;
//   - Values: concrete representatives of the abstract value classes (keys
//     with short coordinates, chain IDs, start blocks, nonces, operator IDs).
//
// No EVM is available offline: this transcription is trusted (and compared
// with the TLA+ transcription on every generated case).
package verifc40

import (
	"bytes"
	"crypto/ecdsa"
	"fmt"
	"math/big"

	"github.com/ethereum/go-ethereum/crypto"
	"golang.org/x/crypto/sha3"

	kit "github.com/keep-network/keep-core/internal/verifkit"
)

// ------------------------------------------------------------------ ABI

// Val is one Solidity value to be ABI-encoded.
type Val struct {
	T     string     // "uint256", "uint32", "uint8", "bool", "bytes", "uint8[]", "uint32[]", "uint256[]"
	Word  *big.Int   // uintN
	Bool  bool       // bool
	Bytes []byte     // bytes
	Arr   []*big.Int // uintN[]
}

func U256(x *big.Int) Val { return Val{T: "uint256", Word: x} }
func Bytes(b []byte) Val  { return Val{T: "bytes", Bytes: b} }
func Bool(b bool) Val     { return Val{T: "bool", Bool: b} }
func Arr(t string, xs []*big.Int) Val {
	return Val{T: t, Arr: xs}
}

func word(x *big.Int) []byte {
	if x.Sign() < 0 || x.BitLen() > 256 {
		panic(fmt.Sprintf("verifc40: %v is not a uint256", x))
	}
	out := make([]byte, 32)
	b := x.Bytes()
	copy(out[32-len(b):], b)
	return out
}

func (v Val) dynamic() bool {
	return v.T == "bytes" || (len(v.T) > 2 && v.T[len(v.T)-2:] == "[]")
}

// enc is enc(X) of the ABI specification for a single value.
func (v Val) enc() []byte {
	switch {
	case v.T == "bool":
		if v.Bool {
			return word(big.NewInt(1))
		}
		return word(big.NewInt(0))
	case v.T == "bytes":
		// enc(len) followed by the bytes, padded with trailing zeros to a multiple of 32
		out := word(big.NewInt(int64(len(v.Bytes))))
		out = append(out, v.Bytes...)
		for len(out)%32 != 0 {
			out = append(out, 0)
		}
		return out
	case v.dynamic():
		// T[]: enc(len) followed by the encoding of the elements (static, one word each)
		out := word(big.NewInt(int64(len(v.Arr))))
		for _, e := range v.Arr {
			out = append(out, word(e)...)
		}
		return out
	default: // uintN
		return word(v.Word)
	}
}

// AbiEncode is abi.encode(vals...): heads (value or offset of the tail) then tails.
func AbiEncode(vals ...Val) []byte {
	headLen := 32 * len(vals)
	var head, tail []byte
	for _, v := range vals {
		if v.dynamic() {
			head = append(head, word(big.NewInt(int64(headLen+len(tail))))...)
			tail = append(tail, v.enc()...)
		} else {
			head = append(head, v.enc()...)
		}
	}
	return append(head, tail...)
}

// Keccak is keccak256 of the concatenation of the arguments.
func Keccak(parts ...[]byte) [32]byte {
	h := sha3.NewLegacyKeccak256()
	for _, p := range parts {
		h.Write(p)
	}
	var out [32]byte
	copy(out[:], h.Sum(nil))
	return out
}

// EthSignedMessageHash is ECDSA.toEthSignedMessageHash(bytes32):
// keccak256(abi.encodePacked("\x19Ethereum Signed Message:\n32", hash)).
func EthSignedMessageHash(h [32]byte) [32]byte {
	return Keccak([]byte("\x19Ethereum Signed Message:\n32"), h[:])
}

// Address is an Ethereum address.
type Address [20]byte

// PubkeyAddress is the address of an uncompressed secp256k1 public key.
func PubkeyAddress(pub *ecdsa.PublicKey) Address {
	x, y := pad32(pub.X), pad32(pub.Y)
	h := Keccak(x, y)
	var a Address
	copy(a[:], h[12:])
	return a
}

func pad32(x *big.Int) []byte {
	out := make([]byte, 32)
	b := x.Bytes()
	copy(out[32-len(b):], b)
	return out
}

var secp256k1N, _ = new(big.Int).SetString("fffffffffffffffffffffffffffffffebaaedce6af48a03bbfd25e8cd0364141", 16)

// secp256k1n / 2 as in ECDSA.tryRecover:
// 0x7FFFFFFFFFFFFFFFFFFFFFFFFFFFFFFF5D576E7357A4501DDFE92F46681B20A0
var halfN, _ = new(big.Int).SetString("7FFFFFFFFFFFFFFFFFFFFFFFFFFFFFFF5D576E7357A4501DDFE92F46681B20A0", 16)

// OZRecover is OpenZeppelin's ECDSA.recover(hash, signature); an error is a revert.
func OZRecover(hash [32]byte, sig []byte) (Address, error) {
	if len(sig) != 65 {
		return Address{}, fmt.Errorf("ECDSA: invalid signature length")
	}
	r, s, v := sig[0:32], sig[32:64], sig[64]
	if new(big.Int).SetBytes(s).Cmp(halfN) > 0 {
		return Address{}, fmt.Errorf("ECDSA: invalid signature 's' value")
	}
	if v != 27 && v != 28 {
		return Address{}, fmt.Errorf("ECDSA: invalid signature 'v' value")
	}
	raw := append(append(append([]byte{}, r...), s...), v-27)
	pub, err := crypto.SigToPub(hash[:], raw)
	if err != nil {
		// ecrecover returned address(0)
		return Address{}, fmt.Errorf("ECDSA: invalid signature")
	}
	return PubkeyAddress(pub), nil
}

// ------------------------------------------------------------------ DKG result validator

// DkgResult is EcdsaDkg.Result.
type DkgResult struct {
	SubmitterMemberIndex     *big.Int
	GroupPubKey              []byte
	MisbehavedMembersIndices []uint8
	Signatures               []byte
	SigningMembersIndices    []*big.Int
	Members                  []uint32
	MembersHash              [32]byte
}

// Pool is what the contracts ask the sortition pool.
type Pool struct {
	Selected  []uint32           // selectGroup(groupSize, seed)
	Operators map[uint32]Address // getIDOperator(s)
}

// DkgValidator is EcdsaDkgValidator with its constants.
type DkgValidator struct {
	GroupSize, GroupThreshold, ActiveThreshold int
	ChainID                                    *big.Int // block.chainid
	Pool                                       Pool
}

const (
	publicKeyByteSize = 64 // uint256 public constant publicKeyByteSize = 64;
	signatureByteSize = 65 // uint256 public constant signatureByteSize = 65;
)

func u(x int) *big.Int { return big.NewInt(int64(x)) }

// ValidateFields is validateFields(result).
func (d DkgValidator) ValidateFields(r DkgResult) (bool, string) {
	if len(r.GroupPubKey) != publicKeyByteSize {
		return false, "Malformed group public key"
	}
	mis := r.MisbehavedMembersIndices
	if d.GroupSize-len(mis) < 0 {
		return false, "revert"
	}
	if d.GroupSize-len(mis) < d.ActiveThreshold {
		return false, "Too many members misbehaving during DKG"
	}
	if len(mis) > 1 {
		if mis[0] < 1 || int(mis[len(mis)-1]) > d.GroupSize {
			return false, "Corrupted misbehaved members indices"
		}
		for i := 1; i < len(mis); i++ {
			if mis[i-1] >= mis[i] {
				return false, "Corrupted misbehaved members indices"
			}
		}
	}
	signaturesCount := len(r.Signatures) / signatureByteSize
	if len(r.Signatures) == 0 {
		return false, "No signatures provided"
	}
	if len(r.Signatures)%signatureByteSize != 0 {
		return false, "Malformed signatures array"
	}
	sidx := r.SigningMembersIndices
	if signaturesCount != len(sidx) {
		return false, "Unexpected signatures count"
	}
	if signaturesCount < d.GroupThreshold {
		return false, "Too few signatures"
	}
	if signaturesCount > d.GroupSize {
		return false, "Too many signatures"
	}
	if sidx[0].Cmp(u(1)) < 0 || sidx[len(sidx)-1].Cmp(u(d.GroupSize)) > 0 {
		return false, "Corrupted signing member indices"
	}
	for i := 1; i < len(sidx); i++ {
		if sidx[i-1].Cmp(sidx[i]) >= 0 {
			return false, "Corrupted signing member indices"
		}
	}
	return true, ""
}

func uint8Arr(xs []uint8) Val {
	out := make([]*big.Int, len(xs))
	for i, x := range xs {
		out[i] = u(int(x))
	}
	return Arr("uint8[]", out)
}

func uint32Arr(xs []uint32) Val {
	out := make([]*big.Int, len(xs))
	for i, x := range xs {
		out[i] = new(big.Int).SetUint64(uint64(x))
	}
	return Arr("uint32[]", out)
}

// SignedDigest is the hash validateSignatures recovers against.
func (d DkgValidator) SignedDigest(r DkgResult, startBlock *big.Int) [32]byte {
	return EthSignedMessageHash(Keccak(AbiEncode(
		U256(d.ChainID), Bytes(r.GroupPubKey), uint8Arr(r.MisbehavedMembersIndices), U256(startBlock))))
}

// ValidateSignatures is validateSignatures(result, startBlock); err is a revert.
func (d DkgValidator) ValidateSignatures(r DkgResult, startBlock *big.Int) (bool, error) {
	hash := d.SignedDigest(r, startBlock)
	addrs := make([]Address, len(r.SigningMembersIndices))
	for i, idx := range r.SigningMembersIndices {
		k := new(big.Int).Sub(idx, u(1))
		if k.Sign() < 0 || k.Cmp(u(len(r.Members))) >= 0 {
			return false, fmt.Errorf("panic: array index out of bounds / underflow")
		}
		a, ok := d.Pool.Operators[r.Members[k.Int64()]]
		if !ok {
			a = Address{} // unknown ID: address(0)
		}
		addrs[i] = a
	}
	count := len(r.Signatures) / signatureByteSize
	for i := 0; i < count; i++ {
		current := r.Signatures[signatureByteSize*i : signatureByteSize*(i+1)]
		rec, err := OZRecover(hash, current)
		if err != nil {
			return false, err
		}
		if i >= len(addrs) {
			return false, fmt.Errorf("panic: array index out of bounds")
		}
		if addrs[i] != rec {
			return false, nil
		}
	}
	return true, nil
}

// ValidateGroupMembers is validateGroupMembers(result, seed).
func (d DkgValidator) ValidateGroupMembers(r DkgResult) bool {
	actual := d.Pool.Selected
	if len(r.Members) != len(actual) {
		return false
	}
	for i := range r.Members {
		if r.Members[i] != actual[i] {
			return false
		}
	}
	return true
}

// GroupMembers is the array validateMembersHash hashes; err is a revert.
func (d DkgValidator) GroupMembers(r DkgResult) ([]uint32, error) {
	mis := r.MisbehavedMembersIndices
	if len(mis) > 0 {
		if len(r.Members)-len(mis) < 0 {
			return nil, fmt.Errorf("panic: underflow")
		}
		groupMembers := make([]uint32, len(r.Members)-len(mis))
		k, j := 0, 0
		for i := 0; i < len(r.Members); i++ {
			if mis[k] == 0 {
				return nil, fmt.Errorf("panic: underflow")
			}
			if i != int(mis[k])-1 {
				if j >= len(groupMembers) {
					return nil, fmt.Errorf("panic: array index out of bounds")
				}
				groupMembers[j] = r.Members[i]
				j++
			} else if k < len(mis)-1 {
				k++
			}
		}
		return groupMembers, nil
	}
	return r.Members, nil
}

// ValidateMembersHash is validateMembersHash(result).
func (d DkgValidator) ValidateMembersHash(r DkgResult) (bool, error) {
	gm, err := d.GroupMembers(r)
	if err != nil {
		return false, err
	}
	return Keccak(AbiEncode(uint32Arr(gm))) == r.MembersHash, nil
}

// Validate is validate(result, seed, startBlock).
func (d DkgValidator) Validate(r DkgResult, startBlock *big.Int) (bool, string) {
	if ok, msg := d.ValidateFields(r); !ok {
		return false, msg
	}
	ok, err := d.ValidateSignatures(r, startBlock)
	if err != nil {
		return false, "revert"
	}
	if !ok {
		return false, "Invalid signatures"
	}
	if !d.ValidateGroupMembers(r) {
		return false, "Invalid group members"
	}
	ok, err = d.ValidateMembersHash(r)
	if err != nil {
		return false, "revert"
	}
	if !ok {
		return false, "Invalid members hash"
	}
	return true, ""
}

// SubmitterRule is the require of EcdsaDkg.submitResult on the submitter index.
func (d DkgValidator) SubmitterRule(r DkgResult, sender Address) bool {
	k := new(big.Int).Sub(r.SubmitterMemberIndex, u(1))
	if k.Sign() < 0 || k.Cmp(u(len(r.Members))) >= 0 {
		return false
	}
	return d.Pool.Operators[r.Members[k.Int64()]] == sender
}

// WalletID is Wallets.addWallet: walletID = keccak256(publicKey).
func WalletID(publicKey []byte) [32]byte { return Keccak(publicKey) }

// ------------------------------------------------------------------ inactivity claims

// Claim is EcdsaInactivity.Claim.
type Claim struct {
	WalletID               [32]byte
	InactiveMembersIndices []*big.Int
	HeartbeatFailed        bool
	Signatures             []byte
	SigningMembersIndices  []*big.Int
}

func validMembersIndices(indices []*big.Int, groupSize int) bool {
	if !(len(indices) > 0 && len(indices) <= groupSize) {
		return false
	}
	if !(indices[0].Sign() > 0 && indices[len(indices)-1].Cmp(u(groupSize)) <= 0) {
		return false
	}
	for i := 0; i < len(indices)-1; i++ {
		if !(indices[i].Cmp(indices[i+1]) < 0) {
			return false
		}
	}
	return true
}

// ClaimDigest is signedMessageHash of verifyClaim.
func ClaimDigest(chainID, nonce *big.Int, walletPubKey []byte, c Claim) [32]byte {
	return EthSignedMessageHash(Keccak(AbiEncode(
		U256(chainID), U256(nonce), Bytes(walletPubKey), Arr("uint256[]", c.InactiveMembersIndices), Bool(c.HeartbeatFailed))))
}

// VerifyClaim is EcdsaInactivity.verifyClaim; a non-empty message is the revert reason.
func VerifyClaim(groupThreshold int, chainID *big.Int, operators map[uint32]Address, c Claim, walletPubKey []byte,
	nonce *big.Int, groupMembers []uint32, sender Address) (string, []uint32) {
	if !validMembersIndices(c.InactiveMembersIndices, len(groupMembers)) {
		return "Corrupted members indices", nil
	}
	signaturesCount := len(c.Signatures) / signatureByteSize
	if len(c.Signatures) == 0 {
		return "No signatures provided", nil
	}
	if len(c.Signatures)%signatureByteSize != 0 {
		return "Malformed signatures array", nil
	}
	if signaturesCount != len(c.SigningMembersIndices) {
		return "Unexpected signatures count", nil
	}
	if signaturesCount < groupThreshold {
		return "Too few signatures", nil
	}
	if signaturesCount > len(groupMembers) {
		return "Too many signatures", nil
	}
	if !validMembersIndices(c.SigningMembersIndices, len(groupMembers)) {
		return "Corrupted members indices", nil
	}
	hash := ClaimDigest(chainID, nonce, walletPubKey, c)
	senderSignatureExists := false
	for i := 0; i < signaturesCount; i++ {
		memberIndex := int(c.SigningMembersIndices[i].Int64())
		checked := c.Signatures[signatureByteSize*i : signatureByteSize*(i+1)]
		rec, err := OZRecover(hash, checked)
		if err != nil {
			return "ECDSA: invalid signature", nil
		}
		if operators[groupMembers[memberIndex-1]] != rec {
			return "Invalid signature", nil
		}
		if !senderSignatureExists && sender == rec {
			senderSignatureExists = true
		}
	}
	if !senderSignatureExists {
		return "Sender must be claim signer", nil
	}
	inactive := make([]uint32, len(c.InactiveMembersIndices))
	for i, idx := range c.InactiveMembersIndices {
		inactive[i] = groupMembers[idx.Int64()-1]
	}
	return "", inactive
}

// RegisteredWallet is the Wallets.Wallet entry plus its public key.
type RegisteredWallet struct {
	MembersIdsHash [32]byte
	PublicKey      []byte // bytes.concat(pubKeyX, pubKeyY)
	Nonce          *big.Int
}

// NotifyOperatorInactivity is the part of WalletRegistry.notifyOperatorInactivity in front of verifyClaim.
func NotifyOperatorInactivity(groupThreshold int, chainID *big.Int, operators map[uint32]Address, w RegisteredWallet,
	c Claim, nonce *big.Int, groupMembers []uint32, sender Address) (string, []uint32) {
	if nonce.Cmp(w.Nonce) != 0 {
		return "Invalid nonce", nil
	}
	if w.MembersIdsHash != Keccak(AbiEncode(uint32Arr(groupMembers))) {
		return "Invalid group members", nil
	}
	return VerifyClaim(groupThreshold, chainID, operators, c, w.PublicKey, nonce, groupMembers, sender)
}

// ------------------------------------------------------------------ abstraction function

// Alpha maps the specification's abstract hash terms to bytes under a binding
// of the abstract value names.
type Alpha struct {
	Ints  map[string]*big.Int // chain IDs, start blocks, nonces
	Keys  map[string][]byte   // key name -> X32 || Y32
	IDMap func(int) uint32    // abstract operator ID -> concrete ID
}

func (a *Alpha) val(arg kit.V) Val {
	t, v := arg.Get("t").Str(), arg.Get("v")
	switch t {
	case "uint256":
		if s, ok := v.X.(string); ok {
			x, ok := a.Ints[s]
			if !ok {
				panic("verifc40: unbound name " + s)
			}
			return U256(x)
		}
		return U256(u(v.Int()))
	case "bool":
		return Bool(v.Bool())
	case "bytes":
		name := v.Get("key").Str()
		b, ok := a.Keys[name]
		if !ok || len(b) != v.Get("len").Int() {
			panic("verifc40: unbound or wrong-length key " + name)
		}
		return Bytes(b)
	case "uint8[]", "uint256[]":
		xs := make([]*big.Int, 0)
		for _, e := range v.Ints() {
			xs = append(xs, u(e))
		}
		return Arr(t, xs)
	case "uint32[]": // operator IDs
		xs := make([]*big.Int, 0)
		for _, e := range v.Ints() {
			xs = append(xs, new(big.Int).SetUint64(uint64(a.IDMap(e))))
		}
		return Arr(t, xs)
	}
	panic("verifc40: unknown abstract type " + t)
}

// Eval turns an abstract hash term into the 32 bytes it stands for.
func (a *Alpha) Eval(term kit.V) [32]byte {
	args := term.Get("args").List()
	switch term.Get("fn").Str() {
	case "keccak256(abi.encode)":
		vals := make([]Val, len(args))
		for i, x := range args {
			vals[i] = a.val(x)
		}
		return Keccak(AbiEncode(vals...))
	case "keccak256":
		return Keccak(a.val(args[0]).Bytes)
	case "toEthSignedMessageHash":
		return EthSignedMessageHash(a.Eval(args[0]))
	}
	panic("verifc40: unknown abstract hash " + term.JSON())
}

// ------------------------------------------------------------------ concrete representatives

// KeyScalar returns the private scalar number i of the deterministic key pool.
func KeyScalar(i int) *big.Int {
	h := Keccak([]byte(fmt.Sprintf("verif-c40-key-%d", i)))
	d := new(big.Int).SetBytes(h[:])
	return d.Mod(d, secp256k1N)
}

// keyPool: indices of pool keys by class (found by search; checked again by GroupKey).
var keyPool = map[string][]int{
	"kFull":    {1, 2, 3, 4, 5},
	"kShortX":  {26, 27, 452, 52639},
	"kShortY":  {294, 465, 608, 236749},
	"kShortXY": {85700, 161415},
}

// GroupKey returns a public key of the class (pick selects the instance) and its 64-byte chain form.
func GroupKey(class string, pick int) (*ecdsa.PublicKey, []byte, error) {
	pool := keyPool[class]
	if len(pool) == 0 {
		return nil, nil, fmt.Errorf("unknown key class %s", class)
	}
	d := KeyScalar(pool[pick%len(pool)])
	curve := crypto.S256()
	x, y := curve.ScalarBaseMult(d.Bytes())
	sx, sy := len(x.Bytes()) < 32, len(y.Bytes()) < 32
	want := map[string][2]bool{"kFull": {false, false}, "kShortX": {true, false}, "kShortY": {false, true}, "kShortXY": {true, true}}[class]
	if sx != want[0] || sy != want[1] {
		return nil, nil, fmt.Errorf("pool key %d is not of class %s", pool[pick%len(pool)], class)
	}
	return &ecdsa.PublicKey{Curve: curve, X: x, Y: y}, append(pad32(x), pad32(y)...), nil
}

func big2(s string) *big.Int {
	x, ok := new(big.Int).SetString(s, 0)
	if !ok {
		panic(s)
	}
	return x
}

// IntClass holds the concrete representatives of the named integer classes.
var IntClass = map[string][]*big.Int{
	"cMainnet": {u(1)},
	"cSepolia": {u(11155111)},
	"cDev":     {u(31337), u(1337), u(1101), u(255), u(256)},
	"cWide":    {big2("4294967297"), big2("18446744073709551617"), big2("0xffffffffffffffffffffffffffffffffffffffffffffffffffffffffffffffff")},
	"bZero":    {u(0)},
	"bSmall":   {u(1), u(2000), u(255), u(256), u(65536)},
	"bLarge":   {big2("4294967301"), big2("9007199254740993"), big2("9223372036854775807")},
	"anotherBlock": {u(7777777)},
	"nZero":    {u(0)},
	"nSmall":   {u(1), u(3), u(255), u(256)},
	"nLarge":   {big2("18446744073709551616"), big2("340282366920938463463374607431768211457"), big2("0xffffffffffffffffffffffffffffffffffffffffffffffffffffffffffffffff")},
	"anotherNonce": {u(424242)},
}

// IntOf picks a representative of the class.
func IntOf(class string, pick int) *big.Int {
	xs := IntClass[class]
	if len(xs) == 0 {
		panic("verifc40: unknown integer class " + class)
	}
	return xs[pick%len(xs)]
}

// IDMaps are injective maps from the specification's small operator IDs to uint32 IDs.
var IDMaps = []func(int) uint32{
	func(i int) uint32 { return uint32(i) },
	func(i int) uint32 { return uint32(i) * 65537 },
	func(i int) uint32 { return 0xFFFFFFFF - uint32(i) },
	func(i int) uint32 { return uint32(i)<<24 | 0x00ABCD00 | uint32(i) },
}

// OperatorKey is the deterministic chain key of the operator with the concrete ID.
func OperatorKey(id uint32) *ecdsa.PrivateKey {
	h := Keccak([]byte(fmt.Sprintf("verif-c40-operator-%d", id)))
	k, err := crypto.ToECDSA(h[:])
	if err != nil {
		panic(err)
	}
	return k
}

// StrangerKey belongs to nobody in any group.
func StrangerKey() *ecdsa.PrivateKey {
	h := Keccak([]byte("verif-c40-stranger"))
	k, err := crypto.ToECDSA(h[:])
	if err != nil {
		panic(err)
	}
	return k
}

// Malleate turns an Ethereum signature [R || S || V] into its twin (R, n-S, other V).
func Malleate(sig []byte) []byte {
	out := append([]byte{}, sig...)
	s := new(big.Int).SetBytes(sig[32:64])
	s.Sub(secp256k1N, s)
	copy(out[32:64], pad32(s))
	if out[64] == 27 {
		out[64] = 28
	} else {
		out[64] = 27
	}
	return out
}

// Adversarial derives the message a dishonest supporter broadcasts. honest is the seat operator's
// honest signature over the right hash, mislabelled its honest signature over another hash,
// stranger a stranger's signature over the right hash.
func Adversarial(kind string, honest, mislabelled, stranger []byte) []byte {
	switch kind {
	case "honest":
		return append([]byte{}, honest...)
	case "mislabelled":
		return append([]byte{}, mislabelled...)
	case "otherOperator":
		return append([]byte{}, stranger...)
	case "highS":
		return Malleate(honest)
	case "len66":
		return append(append([]byte{}, honest...), 0x01)
	case "empty":
		return []byte{}
	case "vFlip":
		out := append([]byte{}, honest...)
		out[64] = 27 + 28 - out[64]
		return out
	case "vRaw":
		out := append([]byte{}, honest...)
		out[64] -= 27
		return out
	case "len64":
		return append([]byte{}, honest[:64]...)
	}
	panic("verifc40: unknown signature kind " + kind)
}

// HazardKinds are the messages whose acceptance by VerifySignature the specification leaves to the
// hazard grain: if the real code accepts one, the assembled result must still be valid.
var HazardKinds = map[string]bool{"vFlip": true, "vRaw": true, "len64": true}

// Equal32 compares a hash with an expected one.
func Equal32(a [32]byte, b []byte) bool { return bytes.Equal(a[:], b) }
