//go:build verif

// Package verifadm is the protocol-independent part of the C12 conformance
// harnesses (specs/Admission). It is overlaid at internal/verifadm by
// engine/props/C12.py.
//
// It owns the abstraction function between the specification's cases and real
// objects:
//
//	network key "P", "Q", ... , outsider   one generated operator key pair each
//	                                        (operator.GenerateKeyPair on the local
//	                                        chain's curve); SenderPublicKey() of a
//	                                        fake net.Message is the uncompressed
//	                                        marshalling the transport layer uses
//	seat s held by key k                   operatorsAddresses[s-1] = address of k,
//	                                        given to the real
//	                                        group.NewMembershipValidator
//	wire index w                           the message is marshalled by the real
//	                                        Marshal with a zero sender index and
//	                                        field 1 (sender index, varint) is put
//	                                        in front with value w; the bytes go
//	                                        through the unmarshaler the package
//	                                        itself registers for the type. A
//	                                        decoding error means the message never
//	                                        reaches the step (the channel drops it)
//	kind own / other                       one of the payload types listed in the
//	                                        specification's row
//
// and the loop that replays every case of a rule on every step of a package.
package verifadm

import (
	"context"
	"encoding/binary"
	"fmt"
	"reflect"
	"sort"
	"sync"
	"testing"
	"time"

	"github.com/keep-network/keep-core/internal/testutils"
	kit "github.com/keep-network/keep-core/internal/verifkit"
	"github.com/keep-network/keep-core/pkg/chain"
	"github.com/keep-network/keep-core/pkg/chain/local_v1"
	"github.com/keep-network/keep-core/pkg/net"
	"github.com/keep-network/keep-core/pkg/operator"
	"github.com/keep-network/keep-core/pkg/protocol/group"
	"github.com/keep-network/keep-core/pkg/protocol/state"
)

const (
	SessionOK  = "verif-session"
	SessionBad = "verif-session-other"
)

// ---------------------------------------------------------------- world

// Key is one network (operator) key.
type Key struct {
	Name     string
	Private  *operator.PrivateKey
	Public   *operator.PublicKey
	PubBytes []byte // what net.Message.SenderPublicKey returns
	Address  chain.Address
	Signing  chain.Signing
}

// World is the group of the specification: seats, their owners, an outsider.
type World struct {
	N         int
	Owner     []string // Owner[s-1] = key name of seat s
	Outsider  string
	Wires     []int
	Keys      map[string]*Key
	Addresses []chain.Address // per seat
	Signing   chain.Signing   // address derivation used by the validator
}

// LoadWorld reads world.ndjson (the world of the single-message cases) and generates the keys.
func LoadWorld(t testing.TB) *World { return LoadWorldFrom(t, "world.ndjson") }

// LoadLoopWorld reads loopworld.ndjson (the world of the message sequences).
func LoadLoopWorld(t testing.TB) *World { return LoadWorldFrom(t, "loopworld.ndjson") }

// LoadWorldFrom reads a world file and generates the keys.
func LoadWorldFrom(t testing.TB, file string) *World {
	ws := kit.LoadCases(t, file)
	if len(ws) < 1 {
		t.Fatalf("verifadm: empty %s", file)
	}
	v := ws[0]
	w := &World{N: v.Get("n").Int(), Owner: v.Get("owner").Strs(), Outsider: v.Get("outsider").Str(),
		Wires: v.Get("wires").Ints(), Keys: map[string]*Key{}}
	if w.N < 2 || len(w.Owner) != w.N || w.Outsider == "" {
		t.Fatalf("verifadm: malformed world %s", v.JSON())
	}
	names := append([]string{w.Outsider}, w.Owner...)
	for _, name := range names {
		if _, ok := w.Keys[name]; ok {
			continue
		}
		priv, pub, err := operator.GenerateKeyPair(local_v1.DefaultCurve)
		if err != nil {
			t.Fatalf("verifadm: key generation: %v", err)
		}
		signer := local_v1.NewSigner(priv)
		addr, err := signer.PublicKeyToAddress(pub)
		if err != nil {
			t.Fatalf("verifadm: address: %v", err)
		}
		w.Keys[name] = &Key{Name: name, Private: priv, Public: pub, PubBytes: operator.MarshalUncompressed(pub),
			Address: addr, Signing: signer}
		if w.Signing == nil {
			w.Signing = signer
		}
	}
	for s := 1; s <= w.N; s++ {
		w.Addresses = append(w.Addresses, w.Keys[w.Owner[s-1]].Address)
	}
	return w
}

// Validator builds the real membership validator of the group.
func (w *World) Validator() *group.MembershipValidator {
	return group.NewMembershipValidator(&testutils.MockLogger{}, w.Addresses, w.Signing)
}

// SeatsOf returns the seats held by a key, ascending.
func (w *World) SeatsOf(key string) []group.MemberIndex {
	var out []group.MemberIndex
	for s := 1; s <= w.N; s++ {
		if w.Owner[s-1] == key {
			out = append(out, group.MemberIndex(s))
		}
	}
	return out
}

// OwnerOf returns the key holding a seat ("" if the seat does not exist).
func (w *World) OwnerOf(seat int) string {
	if seat < 1 || seat > w.N {
		return ""
	}
	return w.Owner[seat-1]
}

// ---------------------------------------------------------------- rows and cases

// Step is one row of the specification's steps table.
type Step struct {
	ID, Pkg, Name, Rule, Observe string
	Accepts, Others              []string
}

// LoadSteps reads the rows of one package.
func LoadSteps(t testing.TB, pkg string) []Step {
	var out []Step
	for _, v := range kit.LoadCases(t, "rows.ndjson") {
		if v.Get("pkg").Str() != pkg {
			continue
		}
		s := Step{ID: v.Get("id").Str(), Pkg: pkg, Name: v.Get("name").Str(), Rule: v.Get("rule").Str(),
			Observe: v.Get("observe").Str(), Accepts: v.Get("accepts").Strs(), Others: v.Get("others").Strs()}
		sort.Strings(s.Accepts)
		sort.Strings(s.Others)
		out = append(out, s)
	}
	sort.Slice(out, func(i, j int) bool { return out[i].ID < out[j].ID })
	if len(out) == 0 {
		t.Fatalf("verifadm: no rows for package %s", pkg)
	}
	return out
}

// Excl is the exclusion of the case: member Who (0 = nobody) is IA / DQ /
// notIncluded, marked before the state began or during its initiation.
type Excl struct {
	Who        int
	Kind, When string
}

// Case is one input of the admission predicate with the specified outcome.
type Case struct {
	Rule     string
	Recv     int
	Key      string
	Wire     uint32
	Kind     string
	BadCtx   map[string]bool
	Excl     Excl
	MsgKey   string
	Leader   string
	Extra    string
	Expected string
	Raw      kit.V
}

func caseFrom(t testing.TB, rule string, in kit.V, expected string, raw kit.V) *Case {
	c := &Case{Rule: rule, Recv: in.Get("recv").Int(), Key: in.Get("key").Str(),
		Wire: uint32(in.Get("wire").Int()), Kind: in.Get("kind").Str(), BadCtx: map[string]bool{},
		Excl:   Excl{Who: in.Get("excl").Get("who").Int(), Kind: in.Get("excl").Get("kind").Str(), When: in.Get("excl").Get("when").Str()},
		MsgKey: in.Get("msgKey").Str(), Leader: in.Get("leader").Str(), Extra: in.Get("extra").Str(),
		Expected: expected, Raw: raw}
	for _, f := range in.Get("badctx").Strs() {
		c.BadCtx[f] = true
	}
	if c.Key == "" || c.Kind == "" {
		t.Fatalf("verifadm: malformed case %s", raw.JSON())
	}
	return c
}

// LoadCases reads cases.ndjson grouped by rule.
func LoadCases(t testing.TB) map[string][]*Case {
	out := map[string][]*Case{}
	for _, v := range kit.LoadCases(t, "cases.ndjson") {
		c := caseFrom(t, v.Get("rule").Str(), v.Get("in"), v.Get("expected").Str(), v)
		if c.Rule == "" || c.Expected == "" {
			t.Fatalf("verifadm: malformed case %s", v.JSON())
		}
		out[c.Rule] = append(out[c.Rule], c)
	}
	return out
}

// Session returns the session identifier the message of the case carries.
func (c *Case) Session() string {
	if c.BadCtx["session"] {
		return SessionBad
	}
	return SessionOK
}

// EmbeddedKey returns the public key the payload of the case embeds.
func (w *World) EmbeddedKey(c *Case) []byte {
	switch c.MsgKey {
	case "net":
		return w.Keys[c.Key].PubBytes
	case "seatOwner":
		if o := w.OwnerOf(int(c.Wire)); o != "" {
			return w.Keys[o].PubBytes
		}
	}
	return w.Keys[w.Outsider].PubBytes
}

// ExcludedBefore / ExcludedDuring name the member the case excludes.
func (c *Case) ExcludedBefore() (group.MemberIndex, string, bool) {
	if c.Excl.Who != 0 && c.Excl.When == "before" {
		return group.MemberIndex(c.Excl.Who), c.Excl.Kind, true
	}
	return 0, "", false
}
func (c *Case) ExcludedDuring() (group.MemberIndex, bool) {
	if c.Excl.Who != 0 && c.Excl.When == "during" {
		return group.MemberIndex(c.Excl.Who), true
	}
	return 0, false
}

// MarkCurrent applies the exclusion of the case to a group the way the
// protocols do (MarkMemberAsInactive / MarkMemberAsDisqualified).
func (c *Case) MarkCurrent(g *group.Group) {
	if c.Excl.Who == 0 {
		return
	}
	if c.Excl.Kind == "IA" {
		g.MarkMemberAsInactive(group.MemberIndex(c.Excl.Who))
	} else {
		g.MarkMemberAsDisqualified(group.MemberIndex(c.Excl.Who))
	}
}

// ---------------------------------------------------------------- fakes

type transportID string

func (t transportID) String() string { return string(t) }

// NetMessage is a received network message.
type NetMessage struct {
	Pub       []byte
	Pay       interface{}
	Typ       string
	OnPayload func() // runs the first time the receiver looks at the payload
	once      sync.Once
}

func (m *NetMessage) TransportSenderID() net.TransportIdentifier { return transportID("verif-peer") }
func (m *NetMessage) SenderPublicKey() []byte                    { return m.Pub }
func (m *NetMessage) Payload() interface{} {
	if m.OnPayload != nil {
		m.once.Do(m.OnPayload)
	}
	return m.Pay
}
func (m *NetMessage) Type() string  { return m.Typ }
func (m *NetMessage) Seqno() uint64 { return 0 }

// Foreign is a payload that is no protocol message of any package.
type Foreign struct{ SenderID group.MemberIndex }

func (f *Foreign) Type() string             { return "verif/foreign" }
func (f *Foreign) Marshal() ([]byte, error) { return []byte{}, nil }
func (f *Foreign) Unmarshal([]byte) error   { return nil }

// Net builds the fake net.Message of a case.
func (w *World) Net(c *Case, payload interface{}) *NetMessage {
	typ := "verif/untyped"
	if tm, ok := payload.(interface{ Type() string }); ok {
		typ = tm.Type()
	}
	return &NetMessage{Pub: w.Keys[c.Key].PubBytes, Pay: payload, Typ: typ}
}

type handler struct {
	ctx context.Context
	fn  func(m net.Message)
}

// Channel is a broadcast channel whose deliveries are made by the harness.
type Channel struct {
	mu           sync.Mutex
	handlers     []*handler
	Sent         []net.TaggedMarshaler
	unmarshalers map[string]func() net.TaggedUnmarshaler
	OnSend       func(m net.TaggedMarshaler)
}

func NewChannel() *Channel {
	return &Channel{unmarshalers: map[string]func() net.TaggedUnmarshaler{}}
}

func (c *Channel) Name() string { return "verif-c12" }
func (c *Channel) Send(ctx context.Context, m net.TaggedMarshaler, s ...net.RetransmissionStrategy) error {
	c.mu.Lock()
	c.Sent = append(c.Sent, m)
	f := c.OnSend
	c.mu.Unlock()
	if f != nil {
		f(m)
	}
	return nil
}
func (c *Channel) Recv(ctx context.Context, fn func(m net.Message)) {
	c.mu.Lock()
	c.handlers = append(c.handlers, &handler{ctx, fn})
	c.mu.Unlock()
}
func (c *Channel) SetUnmarshaler(u func() net.TaggedUnmarshaler) {
	c.mu.Lock()
	c.unmarshalers[u().Type()] = u
	c.mu.Unlock()
}
func (c *Channel) SetFilter(net.BroadcastChannelFilter) error { return nil }

// Handlers returns the number of registered receive handlers.
func (c *Channel) Handlers() int {
	c.mu.Lock()
	defer c.mu.Unlock()
	return len(c.handlers)
}

// Deliver hands the message to every handler whose context is alive.
func (c *Channel) Deliver(m net.Message) int {
	c.mu.Lock()
	hs := append([]*handler{}, c.handlers...)
	c.mu.Unlock()
	n := 0
	for _, h := range hs {
		if h.ctx.Err() == nil {
			h.fn(m)
			n++
		}
	}
	return n
}

// Barrier delivers a foreign message and waits until the receiving loop looks
// at it: every message delivered before has been processed by then (the loops
// under test consume one FIFO channel). It returns false if the loop did not
// get there within the (generous) bound or has ended.
func (c *Channel) Barrier(w *World, done <-chan struct{}) bool {
	seen := make(chan struct{})
	m := &NetMessage{Pub: w.Keys[w.Outsider].PubBytes, Pay: &Foreign{}, Typ: "verif/foreign", OnPayload: func() { close(seen) }}
	if c.Deliver(m) == 0 {
		return false
	}
	select {
	case <-seen:
		return true
	case <-done:
		return false
	case <-time.After(120 * time.Second):
		return false
	}
}

// Decode puts the wire sender index in front of the marshalled template (whose
// own sender index must be zero, so that proto3 omits the field) and decodes
// the bytes with the unmarshaler registered on the channel for the type.
// A nil payload with a nil error cannot happen; an error means "dropped".
func (c *Channel) Decode(template net.TaggedMarshaler, wire uint32) (interface{}, error) {
	body, err := template.Marshal()
	if err != nil {
		return nil, fmt.Errorf("harness: marshal template: %w", err)
	}
	if len(body) > 0 && body[0] == 0x08 {
		return nil, fmt.Errorf("harness: template of %s already carries a sender index", template.Type())
	}
	var bytes []byte
	if wire != 0 {
		bytes = append(bytes, 0x08)
		bytes = binary.AppendUvarint(bytes, uint64(wire))
	}
	bytes = append(bytes, body...)
	c.mu.Lock()
	u, ok := c.unmarshalers[template.Type()]
	c.mu.Unlock()
	if !ok {
		return nil, ErrNoUnmarshaler
	}
	fresh := u()
	if err := fresh.Unmarshal(bytes); err != nil {
		return nil, &DropError{err}
	}
	return fresh, nil
}

// ErrNoUnmarshaler: the package registers no unmarshaler for the type (harness defect).
var ErrNoUnmarshaler = fmt.Errorf("harness: no unmarshaler registered for the message type")

// DropError is a decoding error of the real Unmarshal: the channel drops the message.
type DropError struct{ Err error }

func (d *DropError) Error() string { return "dropped by the decoder: " + d.Err.Error() }

// ---------------------------------------------------------------- observation

// sliceFields returns, for every slice-typed field of the struct st points
// to, its length and the address of its last element.
func sliceFields(st interface{}) map[string][2]uintptr {
	out := map[string][2]uintptr{}
	v := reflect.ValueOf(st).Elem()
	for i := 0; i < v.NumField(); i++ {
		f := v.Field(i)
		if f.Kind() != reflect.Slice {
			continue
		}
		var last uintptr
		if n := f.Len(); n > 0 && f.Index(n-1).Kind() == reflect.Ptr {
			last = f.Index(n - 1).Pointer()
		}
		out[v.Type().Field(i).Name] = [2]uintptr{uintptr(f.Len()), last}
	}
	return out
}

// Receiver is the part of state.SyncState / state.AsyncState under test.
type Receiver interface {
	Receive(msg net.Message) error
}

// ObserveSlices calls the real Receive of a state that keeps accepted messages
// in slice fields and classifies the reaction: "accepted" = exactly one slice
// field grew by exactly this payload, "ignored" = no slice field changed.
func ObserveSlices(st Receiver, msg net.Message, payload interface{}) (string, string, error) {
	before := sliceFields(st)
	if err := st.Receive(msg); err != nil {
		return "", "", fmt.Errorf("Receive returned an error: %v", err)
	}
	after := sliceFields(st)
	grown := []string{}
	for name, a := range after {
		b := before[name]
		switch {
		case a[0] == b[0] && a[1] == b[1]:
		case a[0] == b[0]+1 && a[1] == reflect.ValueOf(payload).Pointer():
			grown = append(grown, name)
		default:
			return "corrupted", fmt.Sprintf("field %s changed from %v to %v", name, b, a), nil
		}
	}
	switch len(grown) {
	case 0:
		return Ignored, "", nil
	case 1:
		return Accepted, "stored in " + grown[0], nil
	}
	return "corrupted", fmt.Sprintf("stored in several fields %v", grown), nil
}

// historySize counts the messages of all types in the history of an async state.
func historySize(base *state.BaseAsyncState) int {
	n := 0
	it := reflect.ValueOf(base).Elem().FieldByName("messages").MapRange()
	for it.Next() {
		n += it.Value().Len()
	}
	return n
}

// ObserveHistory calls the real Receive of an async state and classifies the
// reaction by the BaseAsyncState history: "accepted" = the history grew by
// exactly this message (under its type), "ignored" = the history is unchanged.
func ObserveHistory(st Receiver, base *state.BaseAsyncState, msg net.Message) (string, string, error) {
	before := historySize(base)
	if err := st.Receive(msg); err != nil {
		return "", "", fmt.Errorf("Receive returned an error: %v", err)
	}
	after := historySize(base)
	stored := false
	for _, m := range base.GetAllReceivedMessages(msg.Type()) {
		if m == msg {
			stored = true
		}
	}
	switch {
	case after == before && !stored:
		return Ignored, "", nil
	case after == before+1 && stored:
		return Accepted, "stored in the history under " + msg.Type(), nil
	}
	return "corrupted", fmt.Sprintf("history size %d -> %d, message stored: %v", before, after, stored), nil
}

// WalkSync follows the real Next() chain from first to the state whose type is named.
func WalkSync(first state.SyncState, name string) (state.SyncState, error) {
	st := first
	for i := 0; i < 32 && st != nil && !reflect.ValueOf(st).IsNil(); i++ {
		if reflect.TypeOf(st).Elem().Name() == name {
			return st, nil
		}
		next, err := st.Next()
		if err != nil {
			return nil, err
		}
		st = next
	}
	return nil, fmt.Errorf("harness: state %s is not on the Next() chain", name)
}

// WalkAsync is WalkSync for message-driven states.
func WalkAsync(first state.AsyncState, name string) (state.AsyncState, error) {
	st := first
	for i := 0; i < 32 && st != nil && !reflect.ValueOf(st).IsNil(); i++ {
		if reflect.TypeOf(st).Elem().Name() == name {
			return st, nil
		}
		next, err := st.Next()
		if err != nil {
			return nil, err
		}
		st = next
	}
	return nil, fmt.Errorf("harness: state %s is not on the Next() chain", name)
}

// ---------------------------------------------------------------- replay loop

// Observed outcomes (the specification's alphabet).
const (
	Ignored       = "ignored"
	Accepted      = "accepted"
	Impersonation = "fault:impersonation"
	Mistake       = "fault:mistake"
)

// Driver delivers the case, realized with payload type typ, to the real step
// and returns the observed outcome. A *DropError from Decode must be returned
// as (Ignored, "decoder", nil) by using Dropped.
type Driver func(c *Case, typ string) (outcome string, detail string, err error)

// Dropped converts a decoding result: ok=false means the driver must stop and
// return the given values.
func Dropped(err error) (outcome, detail string, rerr error, stop bool) {
	if err == nil {
		return "", "", nil, false
	}
	if d, ok := err.(*DropError); ok {
		return Ignored, "decoder: " + d.Err.Error(), nil, true
	}
	return "", "", err, true
}

// Run replays, for every step of the package, every case of the step's rule.
func Run(t *testing.T, rep *kit.Report, w *World, steps []Step, cases map[string][]*Case, drivers map[string]Driver) {
	thorough := kit.Thorough()
	stepTable := []map[string]interface{}{}
	for _, s := range steps {
		drv, ok := drivers[s.Name]
		if !ok {
			t.Fatalf("verifadm: no driver for step %s", s.ID)
		}
		cs := cases[s.Rule]
		if len(cs) == 0 {
			t.Fatalf("verifadm: no cases for rule %s (step %s)", s.Rule, s.ID)
		}
		typesTried := map[string]int{}
		outcomes := map[string]int{}
		evals := 0
		for i, c := range cs {
			types := s.Accepts
			if c.Kind != "own" {
				types = s.Others
			}
			if len(types) == 0 {
				t.Fatalf("verifadm: step %s has no payload type for kind %s", s.ID, c.Kind)
			}
			if !thorough {
				types = []string{types[(i+int(kit.Seed()))%len(types)]}
			}
			for _, typ := range types {
				var outcome, detail string
				var err error
				func() {
					defer func() {
						if r := recover(); r != nil {
							outcome, detail = "panic", fmt.Sprint(r)
						}
					}()
					outcome, detail, err = drv(c, typ)
				}()
				if err != nil {
					t.Fatalf("verifadm: step %s type %s case %s: %v", s.ID, typ, c.Raw.JSON(), err)
				}
				evals++
				typesTried[typ]++
				outcomes[outcome]++
				nontrivial := ""
				if c.Kind == "own" && c.Wire <= 255 {
					nontrivial = s.ID + "|" + kit.Hash(c.Raw.X)
				}
				sample := interface{}(nil)
				if c.Expected != Ignored {
					sample = map[string]interface{}{"step": s.ID, "type": typ, "case": c.Raw.X, "observed": outcome}
				}
				rep.Eval(nontrivial, sample)
				if outcome == c.Expected {
					continue
				}
				key := fmt.Sprintf("admission:%s:%s:%s", s.ID, typ, kit.Hash(c.Raw.Get("in").X))
				rep.Diverge(key, describe(w, s, c, typ, outcome, detail),
					map[string]interface{}{"step": s.ID, "type": typ, "in": c.Raw.Get("in").X},
					c.Expected, map[string]interface{}{"outcome": outcome, "detail": detail})
			}
		}
		rep.Count("evaluations:"+s.Name, evals)
		for k, v := range outcomes {
			rep.Count("outcome:"+s.Name+":"+k, v)
		}
		stepTable = append(stepTable, map[string]interface{}{"step": s.ID, "rule": s.Rule, "accepts": s.Accepts,
			"others": s.Others, "observe": s.Observe, "cases": len(cs), "evaluations": evals,
			"payload_types_tried": typesTried, "outcomes": outcomes})
		expectedAccepted := 0
		for _, c := range cs {
			if c.Expected == Accepted {
				expectedAccepted++
			}
		}
		if s.Rule != "silent" && expectedAccepted == 0 {
			t.Fatalf("verifadm: no case of step %s is specified as accepted: vacuous generation", s.ID)
		}
	}
	rep.Extra["steps"] = stepTable
}

// ---------------------------------------------------------------- sequences (specs/Admission/AdmissionLoop.tla)

// Fault is a coordination fault in the specification's terms.
type Fault struct {
	Type    string `json:"type"`
	Culprit string `json:"culprit"` // key name
}

// LoopState is what a receiving loop kept after a sequence of deliveries.
type LoopState struct {
	Stored   []int    `json:"stored"`   // numbers of the admitted messages, in order (kind append)
	Ready    []int    `json:"ready"`    // ready member indexes, ascending (kind set)
	Done     [][2]int `json:"done"`     // [member, message number], ascending (kind firstWins)
	Faults   []Fault  `json:"faults"`   // recorded faults in order (kind untilAccept)
	Returned int      `json:"returned"` // number of the message whose proposal was returned, 0 = none
}

// Sequence is one behaviour of AdmissionLoop: messages and the expected final state.
type Sequence struct {
	Step, Kind string
	Excl       Excl
	Leader     string
	Names      []string
	Msgs       []*Case
	Expected   LoopState
	Raw        kit.V
}

// LoadSequences reads the behaviours of one step from sequences.ndjson.
func LoadSequences(t testing.TB, step string) []*Sequence {
	var out []*Sequence
	letters := map[string]kit.V{}
	for _, v := range kit.LoadCases(t, "alphabet.ndjson") {
		if v.Get("step").Str() == step {
			letters[v.Get("name").Str()] = v
		}
	}
	for _, v := range kit.LoadCases(t, "sequences.ndjson") {
		if v.Get("step").Str() != step {
			continue
		}
		q := &Sequence{Step: step, Kind: v.Get("kind").Str(), Leader: v.Get("leader").Str(), Raw: v,
			Excl: Excl{Who: v.Get("excl").Get("who").Int(), Kind: v.Get("excl").Get("kind").Str(), When: v.Get("excl").Get("when").Str()}}
		for _, name := range v.Get("names").Strs() {
			m, ok := letters[name]
			if !ok {
				t.Fatalf("verifadm: step %s: message %q is not in the alphabet", step, name)
			}
			q.Names = append(q.Names, name)
			q.Msgs = append(q.Msgs, caseFrom(t, "", m.Get("c"), "", m))
		}
		e := v.Get("expected")
		q.Expected = LoopState{Stored: e.Get("stored").Ints(), Ready: e.Get("ready").Ints(), Returned: e.Get("returned").Int(),
			Done: [][2]int{}, Faults: []Fault{}}
		for _, p := range e.Get("done").List() {
			q.Expected.Done = append(q.Expected.Done, [2]int{p.Idx(0).Int(), p.Idx(1).Int()})
		}
		for _, f := range e.Get("faults").List() {
			q.Expected.Faults = append(q.Expected.Faults, Fault{f.Get("type").Str(), f.Get("culprit").Str()})
		}
		sort.Ints(q.Expected.Ready)
		sort.Slice(q.Expected.Done, func(i, j int) bool { return q.Expected.Done[i][0] < q.Expected.Done[j][0] })
		out = append(out, q)
	}
	if len(out) == 0 {
		t.Fatalf("verifadm: no sequences for step %s", step)
	}
	return out
}

// project keeps the fields the kind of loop has.
func project(kind string, s LoopState) interface{} {
	switch kind {
	case "append":
		return map[string]interface{}{"stored": append([]int{}, s.Stored...)}
	case "set":
		return map[string]interface{}{"ready": append([]int{}, s.Ready...)}
	case "firstWins":
		return map[string]interface{}{"done": append([][2]int{}, s.Done...)}
	}
	return map[string]interface{}{"faults": append([]Fault{}, s.Faults...), "returned": s.Returned}
}

// RunSequences replays every behaviour of the step with drive, which must
// deliver the messages to a fresh real receiver and report what it kept.
func RunSequences(t *testing.T, rep *kit.Report, step string, drive func(q *Sequence) (LoopState, string, error)) {
	seqs := LoadSequences(t, step)
	n := 0
	for _, q := range seqs {
		var got LoopState
		var note string
		var err error
		func() {
			defer func() {
				if r := recover(); r != nil {
					note = fmt.Sprintf("panic: %v", r)
					got = LoopState{Returned: -1}
				}
			}()
			got, note, err = drive(q)
		}()
		if err != nil {
			t.Fatalf("verifadm: step %s sequence %v: %v", step, q.Names, err)
		}
		sort.Ints(got.Ready)
		sort.Slice(got.Done, func(i, j int) bool { return got.Done[i][0] < got.Done[j][0] })
		n++
		nontrivial := ""
		if len(q.Msgs) > 1 {
			nontrivial = "seq|" + step + "|" + kit.Hash(q.Names)
		}
		var sample interface{}
		if len(q.Msgs) == 3 {
			sample = map[string]interface{}{"step": step, "messages": q.Names, "kept": project(q.Kind, got)}
		}
		rep.Eval(nontrivial, sample)
		want, have := project(q.Kind, q.Expected), project(q.Kind, got)
		if kit.Hash(want) == kit.Hash(have) {
			continue
		}
		rep.Diverge(fmt.Sprintf("admission-seq:%s:%s", step, kit.Hash(q.Names)),
			fmt.Sprintf("%s: after receiving the messages %v (exclusion %+v, leader %s) the step kept %s, the specification keeps %s%s",
				step, q.Names, q.Excl, q.Leader, mustJSON(have), mustJSON(want), noteSuffix(note)),
			map[string]interface{}{"step": step, "messages": q.Names, "alphabet": letterCases(q)}, want, have)
	}
	rep.Count("sequences:"+step, n)
}

func letterCases(q *Sequence) map[string]interface{} {
	out := map[string]interface{}{}
	for i, n := range q.Names {
		out[n] = q.Msgs[i].Raw.Get("c").X
	}
	return out
}

func mustJSON(x interface{}) string { return kit.V{X: x}.JSON() }
func noteSuffix(s string) string {
	if s == "" {
		return ""
	}
	return " (" + s + ")"
}

func describe(w *World, s Step, c *Case, typ, outcome, detail string) string {
	holder := w.OwnerOf(int(c.Wire))
	if holder == "" {
		holder = "nobody"
	}
	acted := outcome != Ignored
	should := c.Expected != Ignored
	head := ""
	switch {
	case outcome == "panic":
		head = fmt.Sprintf("%s panicked on a %s (%s)", s.ID, typ, detail)
	case acted && !should:
		head = fmt.Sprintf("%s acted on a %s it must ignore (%s)", s.ID, typ, outcome)
	case !acted && should:
		head = fmt.Sprintf("%s ignored a %s it must act on (expected %s)", s.ID, typ, c.Expected)
	default:
		head = fmt.Sprintf("%s reacted to a %s with %s, expected %s", s.ID, typ, outcome, c.Expected)
	}
	return fmt.Sprintf("%s: receiver member %d, sender network key %s, claimed index %d on the wire (seat held by %s), kind %s, "+
		"mismatching context %v, exclusion %+v, embedded key %s, leader %s, payload %s",
		head, c.Recv, c.Key, c.Wire, holder, c.Kind, keys(c.BadCtx), c.Excl, c.MsgKey, c.Leader, c.Extra)
}

func keys(m map[string]bool) []string {
	out := []string{}
	for k := range m {
		out = append(out, k)
	}
	sort.Strings(out)
	return out
}
