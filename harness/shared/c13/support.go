//go:build verif

// Package verifsup is the protocol-independent part of the C13 conformance
// harnesses (specs/Support). It is overlaid at internal/verifsup by
// engine/props/C13.py.
//
// It owns the abstraction function between the specification's message
// alphabet [sender, hash, sig, key, origin] and real signed messages: a
// Keyring holds one operator key per group member plus an outsider key
// (local_v1 signers, i.e. the ECDSA operator keys the packages' own tests
// use), and Realize turns an abstract message into concrete field values,
// rotating over several realizations of each class so that every code path
// that rejects a message is taken:
//
//	sig  = invalid : signature by another member's key over the hash |
//	                 signature over a different hash | truncated (malformed,
//	                 verification returns an error) | empty
//	key  = other   : another member's key | the outsider's key in the message
//	origin=foreign : impostor (another member's pinned key claims the index) |
//	                 outsider key | right key but a different session
package verifsup

import (
	"crypto/sha256"
	"fmt"
	"sort"

	kit "github.com/keep-network/keep-core/internal/verifkit"
	"github.com/keep-network/keep-core/pkg/chain"
	"github.com/keep-network/keep-core/pkg/chain/local_v1"
	"github.com/keep-network/keep-core/pkg/operator"
)

const Session = "verif-session"

// Keyring holds the operator keys of one group.
type Keyring struct {
	N         int
	Signers   []chain.Signing // index 0 unused; 1..N members; N+1 outsider
	Addresses []chain.Address // seat k (0-based) -> operator address
	// genuine signatures of the current case: a member signs a hash once and
	// re-broadcasts the same bytes, so copies of it are byte-identical
	genuine map[string][]byte
}

// NewCase forgets the genuine signatures of the previous case.
func (k *Keyring) NewCase() { k.genuine = map[string][]byte{} }

// SetGenuine registers a signature produced by the code under test (the
// receiver's own signature) so that it can be copied by other senders.
func (k *Keyring) SetGenuine(owner int, hash [32]byte, sig []byte) {
	if k.genuine == nil {
		k.genuine = map[string][]byte{}
	}
	k.genuine[fmt.Sprintf("%d/%x", owner, hash)] = sig
}

// Genuine returns owner's signature over hash, the same bytes every time
// within a case.
func (k *Keyring) Genuine(owner int, hash [32]byte) ([]byte, error) {
	if k.genuine == nil {
		k.genuine = map[string][]byte{}
	}
	key := fmt.Sprintf("%d/%x", owner, hash)
	if s, ok := k.genuine[key]; ok {
		return s, nil
	}
	s, err := k.Signers[owner].Sign(hash[:])
	if err == nil {
		k.genuine[key] = s
	}
	return s, err
}

func NewKeyring(n int) (*Keyring, error) {
	k := &Keyring{N: n, Signers: make([]chain.Signing, n+2)}
	for i := 1; i <= n+1; i++ {
		priv, _, err := operator.GenerateKeyPair(local_v1.DefaultCurve)
		if err != nil {
			return nil, err
		}
		k.Signers[i] = local_v1.NewSigner(priv)
		if i <= n {
			k.Addresses = append(k.Addresses, k.Signers[i].Address())
		}
	}
	return k, nil
}

func (k *Keyring) Outsider() chain.Signing { return k.Signers[k.N+1] }

// Concrete is a realized message.
type Concrete struct {
	Sender    int
	Hash      [32]byte
	Signature []byte
	PublicKey []byte // key carried in the message
	Session   string
	NetKey    []byte // key the network layer pinned for the sender
	How       string // which realization was used
}

// HashOf derives the two hashes used by a harness.
func HashOf(tag string) [32]byte { return sha256.Sum256([]byte(tag)) }

// Realize builds the concrete message for abstract message m (fields sender,
// hash, sig, key, origin). variant selects among the realizations.
func (k *Keyring) Realize(m kit.V, variant int, mine, other [32]byte) (Concrete, error) {
	j := m.Get("sender").Int()
	c := Concrete{Sender: j, Session: Session}
	another := func(x int) int { return x%k.N + 1 } // a member different from x (N >= 2)
	netOwner := j
	how := ""
	if m.Get("origin").Str() == "foreign" {
		switch variant % 3 {
		case 0:
			netOwner = another(j)
			how += "impostor;"
		case 1:
			netOwner = k.N + 1
			how += "outsider;"
		default:
			c.Session = "another-session"
			how += "wrong-session;"
		}
	}
	c.NetKey = k.Signers[netOwner].PublicKey()
	keyOwner := netOwner
	if m.Get("key").Str() == "other" {
		if (variant/3)%2 == 0 {
			keyOwner = another(netOwnerOr(netOwner, k.N))
			if keyOwner == netOwner {
				keyOwner = k.N + 1
			}
			how += "key-of-member;"
		} else {
			keyOwner = k.N + 1
			if netOwner == k.N+1 {
				keyOwner = 1
			}
			how += "key-of-outsider;"
		}
	}
	c.PublicKey = k.Signers[keyOwner].PublicKey()
	if m.Get("hash").Str() == "mine" {
		c.Hash = mine
	} else {
		c.Hash = other
	}
	var err error
	if m.Get("sig").Str() == "valid" {
		c.Signature, err = k.Genuine(keyOwner, c.Hash)
	} else if m.Get("sig").Str() == "copy" {
		c.Signature, err = k.Genuine(m.Get("src").Int(), c.Hash)
		how += fmt.Sprintf("sig-copied-from-%d;", m.Get("src").Int())
	} else {
		switch (variant / 6) % 4 {
		case 0:
			wrong := another(netOwnerOr(keyOwner, k.N))
			if wrong == keyOwner {
				wrong = k.N + 1
			}
			c.Signature, err = k.Signers[wrong].Sign(c.Hash[:])
			how += "sig-by-other-key;"
		case 1:
			h := sha256.Sum256(append([]byte("different"), c.Hash[:]...))
			c.Signature, err = k.Signers[keyOwner].Sign(h[:])
			how += "sig-over-other-hash;"
		case 2:
			var s []byte
			s, err = k.Signers[keyOwner].Sign(c.Hash[:])
			if len(s) > 1 {
				c.Signature = s[:len(s)-1]
			}
			how += "sig-truncated;"
		default:
			c.Signature = []byte{}
			how += "sig-empty;"
		}
	}
	c.How = how
	return c, err
}

func netOwnerOr(x, n int) int {
	if x > n {
		return 1
	}
	return x
}

// Verdict decodes the specification's verdict for one duplicate rule:
// supporter -> position (1-based) of the witness message, 0 for self.
func Verdict(c kit.V, rule string) map[int]int {
	out := map[int]int{}
	for _, v := range c.Get(rule).List() {
		out[v.Get("m").Int()] = v.Get("at").Int()
	}
	return out
}

// CompareMap checks the signature map produced by the real verification
// against the verdict: same members, and for each member exactly the
// signature bytes of the witness message (the member's own for self).
func CompareMap(rep *kit.Report, proto, where string, c kit.V, verdict map[int]int, got map[int][]byte,
	msgs []Concrete, selfSig []byte) bool {
	ok := true
	key := proto + ":" + where + ":" + kit.Hash([]interface{}{c.Get("nonop").X, c.Get("msgs").X})
	exp := make([]int, 0, len(verdict))
	for m := range verdict {
		exp = append(exp, m)
	}
	sort.Ints(exp)
	obs := make([]int, 0, len(got))
	for m := range got {
		obs = append(obs, m)
	}
	sort.Ints(obs)
	if fmt.Sprint(exp) != fmt.Sprint(obs) {
		how := make([]string, len(msgs))
		for i, m := range msgs {
			how[i] = m.How
		}
		rep.Diverge(key, fmt.Sprintf("%s %s: supporting signatures of members %v, specification %v", proto, where, obs, exp),
			map[string]interface{}{"case": c.X, "realization": how}, exp, obs)
		return false
	}
	for m, at := range verdict {
		want := selfSig
		if at > 0 {
			want = msgs[at-1].Signature
		}
		if string(got[m]) != string(want) {
			ok = false
			rep.Diverge(key, fmt.Sprintf("%s %s: the signature recorded for member %d is not the one of message %d", proto, where, m, at),
				c.X, nil, nil)
		}
	}
	return ok
}
