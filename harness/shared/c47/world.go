//go:build verif

// Package verifsub is the protocol-independent part of the C47 conformance
// harnesses (specs/Submission). It is overlaid at internal/verifsub by
// engine/props/C47.py. It provides
//
//   - World: the fake chain state of one behaviour (block height, "somebody
//     already succeeded", who was accepted) and per-member recorders,
//   - a recording chain.BlockCounter handed to the code under test,
//   - Replay: steps the real submission functions (through a per-protocol
//     Adapter) through one behaviour emitted by Gen_Submission and compares
//     the observable state with the specification's after every step,
//   - ReplaySlots: drives the real functions of every member of a slot case of
//     SlotCases and checks the blocks the code asks for.
package verifsub

import (
	"context"
	"fmt"
	"runtime"
	"sort"
	"sync"
	"testing"
	"time"

	kit "github.com/keep-network/keep-core/internal/verifkit"
)

// Submit is one on-chain submission call made by the code under test.
type Submit struct {
	Block    uint64 // chain height when the call arrived
	Accepted bool
	AfterObs bool // the member had already consumed a "somebody succeeded" event
}

// Member records what the code under test did on behalf of one group member.
type Member struct {
	Index int
	w     *World

	Started   bool
	Requested []uint64 // blocks asked from the block counter, in order
	Submits   []Submit
	Returned  bool
	Err       error
	Observed  bool // the event was consumed by the code (handler returned / channel read / ctx cancelled)
	Calls     []string

	BeginFault  string // fault injected into the calls before the wait
	SubmitFault string // fault injected into the next submission call

	Waiter chan uint64        // what BlockHeightWaiter returned (beacon protocols)
	Ctx    context.Context    // tbtc protocols
	Cancel context.CancelFunc // tbtc protocols: what the upstream subscription calls
}

// World is the fake chain of one behaviour.
type World struct {
	mu      sync.Mutex
	Blk     uint64
	Done    bool
	Winner  int
	Members map[int]*Member
	Extra   []string // harness-level complaints (unexpected calls)
}

func NewWorld(members []int) *World {
	w := &World{Members: map[int]*Member{}}
	for _, i := range members {
		w.Members[i] = &Member{Index: i, w: w, BeginFault: "none", SubmitFault: "none"}
	}
	return w
}

func (w *World) Lock()   { w.mu.Lock() }
func (w *World) Unlock() { w.mu.Unlock() }

func (w *World) M(i int) *Member { return w.Members[i] }

// Block returns the current height.
func (w *World) Block() uint64 { w.mu.Lock(); defer w.mu.Unlock(); return w.Blk }

// IsDone tells whether somebody already succeeded.
func (w *World) IsDone() bool { w.mu.Lock(); defer w.mu.Unlock(); return w.Done }

// Complain records an unexpected interaction (reported as a divergence).
func (w *World) Complain(format string, a ...interface{}) {
	w.mu.Lock()
	w.Extra = append(w.Extra, fmt.Sprintf(format, a...))
	w.mu.Unlock()
}

// Call logs a chain call of the member.
func (m *Member) Call(name string) {
	m.w.mu.Lock()
	m.Calls = append(m.Calls, name)
	m.w.mu.Unlock()
}

// Request records that the code asked the block counter for block b.
func (m *Member) Request(b uint64) {
	m.w.mu.Lock()
	m.Requested = append(m.Requested, b)
	m.Calls = append(m.Calls, fmt.Sprintf("wait(%d)", b))
	m.w.mu.Unlock()
}

// SubmitCall is called by the fake chain when the code submits. It applies the
// chain rule (first one wins) and the injected fault and returns the error the
// chain call must return.
func (m *Member) SubmitCall() error {
	w := m.w
	w.mu.Lock()
	defer w.mu.Unlock()
	m.Calls = append(m.Calls, "submit")
	f := m.SubmitFault
	s := Submit{Block: w.Blk, AfterObs: m.Observed}
	var err error
	switch {
	case f == "submit" || f == "status":
		err = fmt.Errorf("verif: injected submission failure")
	case w.Done:
		err = fmt.Errorf("verif: already submitted by somebody else")
	default:
		s.Accepted = true
		w.Done = true
		w.Winner = m.Index
	}
	m.Submits = append(m.Submits, s)
	return err
}

// Finish records the return of the submission function.
func (m *Member) Finish(err error) {
	m.w.mu.Lock()
	m.Returned = true
	m.Err = err
	m.w.mu.Unlock()
}

// MarkObserved records that the code consumed the event.
func (m *Member) MarkObserved() {
	m.w.mu.Lock()
	m.Observed = true
	m.w.mu.Unlock()
}

type snapshot struct {
	started, returned, observed bool
	req                         int64
	nreq                        int
	nsub                        int
	res                         string
	submits                     []Submit
}

func (m *Member) snap() snapshot {
	m.w.mu.Lock()
	defer m.w.mu.Unlock()
	s := snapshot{started: m.Started, returned: m.Returned, observed: m.Observed, req: -1,
		nreq: len(m.Requested), nsub: len(m.Submits), res: "none"}
	if len(m.Requested) > 0 {
		s.req = int64(m.Requested[len(m.Requested)-1])
	}
	if m.Returned {
		s.res = "nil"
		if m.Err != nil {
			s.res = "err"
		}
	}
	s.submits = append(s.submits, m.Submits...)
	return s
}

// ---------------------------------------------------------------- block counter

// Counter is the recording block counter handed to the code under test for one
// member. As the real counters (local_v1, keep-common ethereum) it returns an
// unbuffered channel on which the height is sent ONCE when the harness decides
// the block was reached; the channel is never closed.
type Counter struct {
	M *Member
}

func (c *Counter) WaitForBlockHeight(b uint64) error {
	ch, err := c.BlockHeightWaiter(b)
	if err != nil {
		return err
	}
	<-ch
	return nil
}

func (c *Counter) BlockHeightWaiter(b uint64) (<-chan uint64, error) {
	m := c.M
	m.w.mu.Lock()
	defer m.w.mu.Unlock()
	if m.BeginFault == "waiter" {
		m.Requested = append(m.Requested, b)
		m.Calls = append(m.Calls, fmt.Sprintf("wait(%d)", b))
		return nil, fmt.Errorf("verif: injected block counter failure")
	}
	// the waiter must exist before the request becomes visible to the harness
	ch := make(chan uint64)
	m.Waiter = ch
	m.Requested = append(m.Requested, b)
	m.Calls = append(m.Calls, fmt.Sprintf("wait(%d)", b))
	return ch, nil
}

func (c *Counter) CurrentBlock() (uint64, error) {
	c.M.Call("CurrentBlock")
	return c.M.w.Block(), nil
}

func (c *Counter) WatchBlocks(ctx context.Context) <-chan uint64 {
	c.M.w.Complain("member %d: unexpected WatchBlocks", c.M.Index)
	return make(chan uint64)
}

// WaitFn is a waitForBlockFn (pkg/tbtc) for one member: it records the block
// and returns when the harness releases it or the context ends, exactly like
// node.waitForBlockHeight (which returns nil in both cases).
func (m *Member) WaitFn(ctx context.Context, b uint64) error {
	m.w.mu.Lock()
	if m.BeginFault == "waiter" {
		m.Requested = append(m.Requested, b)
		m.Calls = append(m.Calls, fmt.Sprintf("wait(%d)", b))
		m.w.mu.Unlock()
		return fmt.Errorf("verif: injected wait failure")
	}
	// the waiter must exist before the request becomes visible to the harness
	ch := make(chan uint64)
	m.Waiter = ch
	m.Requested = append(m.Requested, b)
	m.Calls = append(m.Calls, fmt.Sprintf("wait(%d)", b))
	m.w.mu.Unlock()
	select {
	case <-ch:
	case <-ctx.Done():
		m.MarkObserved()
	}
	return nil
}

// ---------------------------------------------------------------- waiting

const (
	longWait     = 60 * time.Second // positive events of correct code arrive immediately
	settleRounds = 1500
	settleMin    = 3 * time.Second
)

// Await polls cond (a positive event). false = it never happened.
func Await(cond func() bool) bool {
	deadline := time.Now().Add(longWait)
	for i := 0; ; i++ {
		if cond() {
			return true
		}
		if time.Now().After(deadline) {
			return false
		}
		if i < 200 {
			runtime.Gosched()
		} else {
			time.Sleep(200 * time.Microsecond)
		}
	}
}

// Settle gives every other goroutine of the process many scheduling rounds
// (counted in rounds AND in wall time, so a stalled process does not shorten
// it) and returns early when cond becomes true. It is only used to conclude
// that the code under test does NOT react, which on correct code is never
// needed.
func Settle(cond func() bool) bool {
	t0 := time.Now()
	for i := 0; i < settleRounds || time.Since(t0) < settleMin; i++ {
		if cond() {
			return true
		}
		runtime.Gosched()
		time.Sleep(time.Millisecond)
	}
	return cond()
}

// SendBlock hands the height to the member's waiter (the block was reached).
// false = nobody took it.
func (m *Member) SendBlock() bool {
	m.w.mu.Lock()
	ch := m.Waiter
	b := m.w.Blk
	m.w.mu.Unlock()
	if ch == nil {
		return false
	}
	t := time.NewTimer(longWait)
	defer t.Stop()
	select {
	case ch <- b:
		return true
	case <-t.C:
		return false
	}
}

// TrySendBlock is SendBlock bounded by Settle (used on divergence paths and
// at cleanup only).
func (m *Member) TrySendBlock() bool {
	m.w.mu.Lock()
	ch := m.Waiter
	b := m.w.Blk
	m.w.mu.Unlock()
	if ch == nil {
		return false
	}
	sent := false
	Settle(func() bool {
		select {
		case ch <- b:
			sent = true
			return true
		default:
			return false
		}
	})
	return sent
}

// ---------------------------------------------------------------- replay

// Adapter binds one protocol's real submission function to the World.
type Adapter interface {
	// Start runs the real function for member i on a new goroutine; the
	// adapter must call Member.Finish when it returns. enough = hand over a
	// signature set that reaches the threshold.
	Start(i int, enough bool)
	// Deliver makes the "somebody succeeded" event reach member i and returns
	// true once the code consumed it. wait bounds a blocked delivery.
	Deliver(i int, bounded bool) bool
	// Timeout delivers the relay entry timeout to member i.
	Timeout(i int) bool
	// SingleCall reports that one call starts all controlled members
	// (approval): Start is then invoked once, for the first Begin step.
	SingleCall() bool
	// Close releases everything still running.
	Close()
}

func classOf(pc string) string {
	switch pc {
	case "idle":
		return "idle"
	case "waiting", "monitoring":
		return "running"
	}
	return "returned"
}

// Replay steps the real code through one behaviour. It returns the number of
// divergences it reported.
func Replay(t *testing.T, rep *kit.Report, beh kit.V, w *World, ad Adapter, label string) int {
	params := beh.Get("params")
	proto := params.Get("proto").Str()
	steps := beh.Get("steps").List()
	before := rep.NDivergences()
	begun := map[int]bool{}
	caseID := func(k int) map[string]interface{} {
		pre := make([]interface{}, 0, k+1)
		for _, s := range steps[:k+1] {
			pre = append(pre, map[string]interface{}{"a": s.Get("a").Str(), "i": s.Get("i").Int(),
				"enough": s.Get("enough").Bool(), "f": s.Get("f").Str(), "blk": s.Get("st").Get("blk").Int()})
		}
		return map[string]interface{}{"params": params.X, "prefix": pre, "label": label}
	}
	diverged := false
	div := func(k int, key, what string, exp, obs interface{}) {
		diverged = true
		rep.Diverge(proto+":"+key, what, caseID(k), exp, obs)
	}
	// faults of every Begin step are needed up front when one call starts
	// all members
	if ad.SingleCall() {
		for _, s := range steps {
			if s.Get("a").Str() == "Begin" {
				w.M(s.Get("i").Int()).BeginFault = s.Get("f").Str()
			}
		}
	}
	started := false
	for k, s := range steps {
		a, i, f := s.Get("a").Str(), s.Get("i").Int(), s.Get("f").Str()
		st := s.Get("st")
		exp := map[int]kit.V{}
		for _, mv := range st.Get("members").List() {
			exp[mv.Get("m").Int()] = mv
		}
		rep.Count(proto+"."+a, 1)
		switch a {
		case "Init", "Advance":
			w.mu.Lock()
			w.Blk = uint64(st.Get("blk").Int())
			w.mu.Unlock()
		case "Compete":
			w.mu.Lock()
			w.Done = true
			w.mu.Unlock()
		case "Begin":
			m := w.M(i)
			begun[i] = true
			if !ad.SingleCall() {
				m.BeginFault = f
			}
			if !ad.SingleCall() || !started {
				started = true
				ad.Start(i, s.Get("enough").Bool())
			}
			wantRunning := classOf(exp[i].Get("pc").Str()) == "running"
			if wantRunning {
				// positive event: the slot was asked for (or it returned: divergence)
				if !Await(func() bool { x := m.snap(); return x.nreq > 0 || x.returned }) {
					t.Fatalf("%s: member %d neither asked for its slot nor returned", label, i)
				}
			} else {
				if !Settle(func() bool { return m.snap().returned }) {
					// it did not return although the specification says so;
					// collect positive evidence: is it waiting, and does it
					// submit when its block comes?
					x := m.snap()
					sub := false
					if x.nreq > 0 && m.TrySendBlock() {
						sub = Settle(func() bool { return m.snap().nsub > 0 })
					}
					div(k, "no-early-exit", fmt.Sprintf("member %d keeps going where the specification leaves (%s); "+
						"asked for block %d, submitted after its block came: %v", i, exp[i].Get("pc").Str(), x.req, sub),
						exp[i].X, map[string]interface{}{"requested": x.req, "submitted": sub})
				}
			}
		case "SlotReached":
			m := w.M(i)
			w.mu.Lock()
			m.SubmitFault = f
			w.mu.Unlock()
			n0 := m.snap().nsub
			if !m.SendBlock() {
				if diverged {
					break
				}
				div(k, "slot-not-taken", fmt.Sprintf("member %d does not take the block it waits for", i), nil, nil)
				break
			}
			wantSub := exp[i].Get("nsub").Int() > n0
			if wantSub {
				if !Settle(func() bool { x := m.snap(); return x.nsub > n0 || x.returned }) {
					div(k, "no-submit", fmt.Sprintf("member %d neither submitted nor returned after its slot was reached", i), nil, nil)
				}
			}
			if classOf(exp[i].Get("pc").Str()) == "returned" {
				Settle(func() bool { return m.snap().returned })
			}
		case "Observe":
			m := w.M(i)
			n0 := m.snap().nsub
			if !ad.Deliver(i, diverged) {
				// the code did not consume the event: let its block come and
				// see whether it submits although somebody already succeeded
				sub := false
				if m.TrySendBlock() {
					sub = Settle(func() bool { return m.snap().nsub > n0 })
				}
				if !diverged {
					div(k, "event-ignored", fmt.Sprintf("member %d does not react to the event that somebody else "+
						"succeeded; submitted afterwards: %v", i, sub), nil, map[string]interface{}{"submitted": sub})
				}
				break
			}
			if !Settle(func() bool { return m.snap().returned }) {
				sub := false
				if m.TrySendBlock() {
					sub = Settle(func() bool { return m.snap().nsub > n0 })
				}
				div(k, "observe-no-exit", fmt.Sprintf("member %d consumed the event that somebody else succeeded but "+
					"did not leave; submitted afterwards: %v", i, sub), nil, map[string]interface{}{"submitted": sub})
			}
		case "RelayTimeout":
			m := w.M(i)
			if !ad.Timeout(i) {
				if !diverged {
					div(k, "timeout-ignored", fmt.Sprintf("member %d does not react to the relay entry timeout", i), nil, nil)
				}
				break
			}
			Settle(func() bool { return m.snap().returned })
		default:
			t.Fatalf("unknown action %q", a)
		}
		if diverged {
			break
		}
		// ---- compare the observable state with the specification's
		w.mu.Lock()
		done, winner := w.Done, w.Winner
		extra := append([]string{}, w.Extra...)
		w.mu.Unlock()
		if len(extra) > 0 {
			div(k, "unexpected-call", "unexpected chain interaction: "+extra[0], nil, extra)
			break
		}
		if done != st.Get("done").Bool() || winner != st.Get("winner").Int() {
			div(k, "chain-state", fmt.Sprintf("after %s(%d): chain done=%v winner=%d, specification done=%v winner=%d",
				a, i, done, winner, st.Get("done").Bool(), st.Get("winner").Int()), st.X, nil)
			break
		}
		ids := make([]int, 0, len(exp))
		for id := range exp {
			ids = append(ids, id)
		}
		sort.Ints(ids)
		for _, id := range ids {
			e := exp[id]
			if !begun[id] {
				continue
			}
			x := w.M(id).snap()
			obsClass := "running"
			if x.returned {
				obsClass = "returned"
			}
			obs := map[string]interface{}{"class": obsClass, "req": x.req, "nsub": x.nsub, "res": x.res, "submits": x.submits}
			// direct property checks on what was observed
			for _, sb := range x.submits {
				if e.Get("req").Int() >= 0 && int64(sb.Block) < int64(e.Get("req").Int()) {
					div(k, "early-submit", fmt.Sprintf("member %d submitted at block %d, before its slot %d",
						id, sb.Block, e.Get("req").Int()), e.X, obs)
				}
				if sb.AfterObs {
					div(k, "submit-after-observe", fmt.Sprintf("member %d submitted at block %d after it had observed "+
						"that somebody else succeeded", id, sb.Block), e.X, obs)
				}
			}
			if diverged {
				break
			}
			if int64(e.Get("req").Int()) != x.req {
				div(k, "slot", fmt.Sprintf("member %d asked the block counter for block %d, its slot is %d",
					id, x.req, e.Get("req").Int()), e.X, obs)
				break
			}
			if x.nsub != e.Get("nsub").Int() {
				div(k, "nsub", fmt.Sprintf("after %s(%d): member %d made %d submission calls, specification %d",
					a, i, id, x.nsub, e.Get("nsub").Int()), e.X, obs)
				break
			}
			if obsClass != classOf(e.Get("pc").Str()) {
				div(k, "state", fmt.Sprintf("after %s(%d): member %d is %s, specification %s (%s)",
					a, i, id, obsClass, classOf(e.Get("pc").Str()), e.Get("pc").Str()), e.X, obs)
				break
			}
			if x.returned && x.res != e.Get("res").Str() {
				div(k, "result", fmt.Sprintf("after %s(%d): member %d returned %s (%v), specification %s (%s)",
					a, i, id, x.res, w.M(id).Err, e.Get("res").Str(), e.Get("pc").Str()), e.X, obs)
				break
			}
		}
		if diverged {
			break
		}
	}
	// ---- end of the behaviour: whoever still runs is told that somebody
	// succeeded; nobody may submit after that
	w.mu.Lock()
	w.Done = true
	w.mu.Unlock()
	if msg := finishAll(w, ad); msg != "" && !diverged {
		diverged = true
		rep.Diverge(proto+":"+msg[:strIndex(msg, ' ')], msg[strIndex(msg, ' ')+1:]+" (end of behaviour)", caseID(len(steps)-1), nil, nil)
	}
	ad.Close()
	return rep.NDivergences() - before
}

// GoID returns the id of the calling goroutine (used to tell apart the
// per-member goroutines of executeDkgValidation, which carry no member index
// in their chain calls).
func GoID() string {
	buf := make([]byte, 64)
	n := runtime.Stack(buf, false)
	s := string(buf[:n])
	// "goroutine 123 [running]:..."
	if len(s) > 10 {
		s = s[10:]
	}
	for i := 0; i < len(s); i++ {
		if s[i] == ' ' {
			return s[:i]
		}
	}
	return s
}

// Interesting tells whether a behaviour exercises more than start-up
// failures: somebody reached its slot, or an event was delivered.
func Interesting(b kit.V) bool {
	for _, s := range b.Get("steps").List() {
		switch s.Get("a").Str() {
		case "SlotReached", "Observe", "RelayTimeout":
			return true
		}
	}
	return false
}

// ReplaySlots drives the real function of every member of one slot case
// (SlotCases) and checks (a) the block each member asks for against the
// specification's slot function and (b) C47 directly on the observed blocks:
// pairwise distinct, not before the reference block, relay entry slots
// strictly before the timeout block.
func ReplaySlots(t *testing.T, rep *kit.Report, c kit.V, w *World, ad Adapter) {
	cs := c.Get("case")
	proto := cs.Get("proto").Str()
	n := cs.Get("n").Int()
	ref := int64(cs.Get("ref").Int())
	slots := c.Get("slots").Ints()
	id := fmt.Sprintf("n=%d,step=%d,ref=%d,e=%d,timeout=%d,submitter=%d,challenge=%d,precedence=%d", n, cs.Get("step").Int(),
		ref, cs.Get("e").Int(), cs.Get("timeout").Int(), cs.Get("submitter").Int(), cs.Get("challenge").Int(), cs.Get("precedence").Int())
	w.mu.Lock()
	w.Blk = uint64(ref)
	w.mu.Unlock()
	if ad.SingleCall() {
		ad.Start(1, true)
	} else {
		for i := 1; i <= n; i++ {
			ad.Start(i, true)
		}
	}
	obs := make([]int64, n+1)
	for i := 1; i <= n; i++ {
		m := w.M(i)
		if !Await(func() bool { x := m.snap(); return x.nreq > 0 || x.returned }) {
			t.Fatalf("%s %s: member %d neither asked for its slot nor returned", proto, id, i)
		}
		obs[i] = m.snap().req
	}
	w.mu.Lock()
	extra := append([]string{}, w.Extra...)
	w.mu.Unlock()
	if len(extra) > 0 {
		rep.Diverge(proto+":unexpected-call:"+id, "unexpected chain interaction: "+extra[0], cs.X, nil, extra)
	}
	nontrivial := ""
	if n > 1 {
		nontrivial = proto + ":" + id
	}
	rep.Eval(nontrivial, map[string]interface{}{"case": cs.X, "observed": obs[1:]})
	rep.Count(proto+".slotcases", 1)
	rep.Count(proto+".slots", n)
	bad := 0
	for i := 1; i <= n && bad < 3; i++ {
		if obs[i] != int64(slots[i-1]) {
			bad++
			rep.Diverge(fmt.Sprintf("%s:slot:%s,i=%d", proto, id, i),
				fmt.Sprintf("%s: member %d of %d asked the block counter for block %d; its slot is %d", proto, i, n, obs[i], slots[i-1]),
				cs.X, slots, obs[1:])
		}
	}
	seen := map[int64]int{}
	for i := 1; i <= n; i++ {
		if obs[i] < 0 {
			continue
		}
		if j, dup := seen[obs[i]]; dup && bad < 6 {
			bad++
			rep.Diverge(fmt.Sprintf("%s:shared-slot:%s,i=%d,j=%d", proto, id, j, i),
				fmt.Sprintf("%s: members %d and %d share slot %d for the same reference block %d", proto, j, i, obs[i], ref),
				cs.X, slots, obs[1:])
		}
		seen[obs[i]] = i
		if obs[i] < ref && bad < 6 {
			bad++
			rep.Diverge(fmt.Sprintf("%s:slot-before-reference:%s,i=%d", proto, id, i),
				fmt.Sprintf("%s: member %d waits for block %d, before the reference block %d", proto, i, obs[i], ref),
				cs.X, slots, obs[1:])
		}
		if proto == "relayEntry" && obs[i] >= ref+int64(cs.Get("timeout").Int()) && bad < 6 {
			bad++
			rep.Diverge(fmt.Sprintf("%s:slot-at-timeout:%s,i=%d", proto, id, i),
				fmt.Sprintf("relay entry: member %d of %d (entry mod n = %d) waits for block %d, which is not before the relay "+
					"entry timeout block %d", i, n, cs.Get("e").Int(), obs[i], ref+int64(cs.Get("timeout").Int())),
				cs.X, slots, obs[1:])
		}
	}
	// cleanup: everybody is told that somebody succeeded
	w.mu.Lock()
	w.Done = true
	w.mu.Unlock()
	if msg := finishAll(w, ad); msg != "" {
		rep.Diverge(fmt.Sprintf("%s:%s:%s", proto, msg[:strIndex(msg, ' ')], id), proto+": "+msg[strIndex(msg, ' ')+1:], cs.X, nil, nil)
	}
	ad.Close()
}

func strIndex(s string, c byte) int {
	for i := 0; i < len(s); i++ {
		if s[i] == c {
			return i
		}
	}
	return len(s) - 1
}

// finishAll tells every member that still runs that somebody succeeded and
// waits for all of them together. It returns "" or "<key> <description>" of
// the first misbehaviour: a submission after the event, or a member that
// consumed the event and keeps running. Members that keep running are given
// the timeout (relay entry) so that their goroutines end.
func finishAll(w *World, ad Adapter) string {
	ids := make([]int, 0, len(w.Members))
	for id := range w.Members {
		ids = append(ids, id)
	}
	sort.Ints(ids)
	n0 := map[int]int{}
	var told []int
	for _, id := range ids {
		x := w.M(id).snap()
		if !x.started || x.returned {
			continue
		}
		n0[id] = x.nsub
		if ad.Deliver(id, true) {
			told = append(told, id)
		}
	}
	Settle(func() bool {
		for _, id := range told {
			if !w.M(id).snap().returned {
				return false
			}
		}
		return true
	})
	msg := ""
	for _, id := range told {
		y := w.M(id).snap()
		if y.nsub > n0[id] && msg == "" {
			msg = fmt.Sprintf("submit-after-observe member %d submitted after it was told that somebody else succeeded", id)
		}
		if !y.returned {
			if msg == "" {
				msg = fmt.Sprintf("observe-no-exit member %d consumed the event that somebody else succeeded and keeps running", id)
			}
			ad.Timeout(id)
		}
	}
	return msg
}
