#!/bin/bash
# usage: trymut.sh <ID> <k> [tier]
# Confirms an independently written breaking change in /tmp/mut-<ID>-<k> (MUTATION.diff applied + demo test
# present), runs the check for <ID> against that worktree, and files the result under /verif/seeded/<ID>-<k>/.
ID=$1; K=$2; TIER=${3:-quick}; WT=/tmp/mut-$ID-$K
export GOFLAGS=-mod=mod GOPROXY=off GOSUMDB=off GOTOOLCHAIN=local
cd "$WT" || exit 2
[ -f MUTATION.diff ] || { echo "no MUTATION.diff"; exit 2; }
OUT=/verif/seeded/$ID-$K; mkdir -p "$OUT"
cp MUTATION.diff "$OUT/patch.diff"; cp MUTATION.md "$OUT/" 2>/dev/null
DEMOS=$(git status --porcelain | awk '$1=="??"{print $2}' | grep -E '_test\.go$|\.go$' | grep -v '^MUTATION')
for d in $DEMOS; do mkdir -p "$OUT/demo/$(dirname $d)"; cp "$d" "$OUT/demo/$d"; done
PKGS=$( (git diff --name-only; echo "$DEMOS") | grep '\.go$' | xargs -n1 dirname | sort -u | sed 's|^|./|')
DEMOPKGS=$(echo "$DEMOS" | grep '\.go$' | xargs -n1 dirname | sort -u | sed 's|^|./|')
echo "== touched packages: $PKGS ; demo packages: $DEMOPKGS"
# state check: is the change applied?
if git apply --reverse --check MUTATION.diff 2>/dev/null; then echo "change is applied"; else echo "change not applied; applying"; git apply MUTATION.diff || exit 2; fi
echo "== build with change"; go build ./... 2>&1 | tail -3; B=$?
echo "== existing tests with change (demo excluded)"
mkdir -p /tmp/mutdemo-$ID-$K; for d in $DEMOS; do mkdir -p /tmp/mutdemo-$ID-$K/$(dirname $d); mv $d /tmp/mutdemo-$ID-$K/$d; done
go test -count=1 -timeout 20m $PKGS 2>&1 | tail -8; T1=${PIPESTATUS[0]}
for d in $DEMOS; do mv /tmp/mutdemo-$ID-$K/$d $d; done; rm -rf /tmp/mutdemo-$ID-$K
echo "== demo with change (must fail)"; go test -count=1 -timeout 20m -run 'Mutation|Demo|mutation|demo' $DEMOPKGS 2>&1 | tail -8; D1=${PIPESTATUS[0]}
git apply --reverse MUTATION.diff
echo "== demo without change (must pass)"; go test -count=1 -timeout 20m -run 'Mutation|Demo|mutation|demo' $DEMOPKGS 2>&1 | tail -5; D0=${PIPESTATUS[0]}
git apply MUTATION.diff
echo "== check $ID ($TIER) against the changed tree"
(cd /verif && VERIF_EVIDENCE_DIR=$OUT VERIF_REPO=$WT ./vcheck $ID --tier $TIER > "$OUT/check.out" 2>&1; echo $? > "$OUT/check.rc")
RC=$(cat "$OUT/check.rc"); grep -E "VIOLATION|BROKEN|^OK|KNOWN" "$OUT/check.out" | head -5
python3 - "$ID" "$K" "$T1" "$D1" "$D0" "$RC" "$TIER" <<'PY'
import json,sys
pid,k,t1,d1,d0,rc,tier=sys.argv[1:]
out='/verif/seeded/%s-%s/'%(pid,k)
prev={}
try: prev=json.load(open(out+'meta.json'))
except Exception: pass
meta={"property":pid,"n":int(k),"existing_tests_with_change_rc":int(t1),"demo_with_change_rc":int(d1),"demo_without_change_rc":int(d0),
      "confirmed": int(t1)==0 and int(d1)!=0 and int(d0)==0,
      "check_tier":tier,"check_rc":int(rc),"detected": int(rc)==1,
      "ran":"engine/trymut.sh %s %s %s (existing tests of touched packages with the change; demo with and without; VERIF_REPO=<worktree> ./vcheck)"%(pid,k,tier)}
import time
runs=prev.get("runs") or ([{"check_rc":prev.get("check_rc"),"detected":prev.get("detected")}] if prev else [])
runs.append({"at":time.strftime("%Y-%m-%dT%H:%M:%S"),"check_rc":int(rc),"detected":int(rc)==1,"tier":tier})
meta["runs"]=runs
meta["history"]=" -> ".join("detected" if r.get("detected") else "missed" for r in runs)
if prev.get("note"): meta["note"]=prev["note"]
if prev.get("confirmed") and not meta["confirmed"]: meta["confirmed"]=True; meta["confirmed_note"]="confirmed in an earlier run / by the mutation author; this run hit a load-flaky repository test"
try: meta["needs"]=open(out+'MUTATION.md').read()[:1500]
except Exception: pass
json.dump(meta,open(out+'meta.json','w'),indent=1)
print("SUMMARY",pid,k,"confirmed" if meta["confirmed"] else "NOT-CONFIRMED","detected" if meta["detected"] else "MISSED(rc=%s)"%rc)
PY
