#!/bin/bash
# usage: runall.sh <tier> [parallel] [seed] [ids...]   runs the checks on /repo, prints one line per property
TIER=${1:-quick}; PAR=${2:-1}; SEED=${3:-1}; shift 3 2>/dev/null
cd "$(dirname "$0")/.."
IDS="$@"; [ -z "$IDS" ] && IDS=$(python3 -c "import json;print(' '.join(c['property_id'] for c in json.load(open('MANIFEST.json'))['checks']))")
mkdir -p /tmp/verif-runall
run1() { id=$1; t0=$(date +%s); ./vcheck $id --tier $TIER --seed $SEED > /tmp/verif-runall/$id.$TIER.log 2>&1; rc=$?; echo "$id rc=$rc $(( $(date +%s)-t0 ))s $(grep -E 'VIOLATION|BROKEN|KNOWN' /tmp/verif-runall/$id.$TIER.log | head -1 | cut -c1-160)"; }
export -f run1; export TIER SEED
echo $IDS | tr ' ' '\n' | xargs -P $PAR -I{} bash -c 'run1 {}'
