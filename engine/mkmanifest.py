#!/usr/bin/env python3
"""Regenerates /verif/MANIFEST.json from the META dictionaries of engine/props/*.py
and engine/not_applicable.json. Run after adding or changing a property script."""
import importlib.util, json, os, subprocess, sys
V = os.path.dirname(os.path.dirname(os.path.abspath(__file__)))
props = [json.loads(l)["id"] for l in open(os.path.join(V, "properties.jsonl"))]
na = json.load(open(os.path.join(V, "engine", "not_applicable.json")))
na_ids = {x["property_id"] for x in na}
checks = []
claimed = []
for pid in props:
    p = os.path.join(V, "engine", "props", pid + ".py")
    if not os.path.isfile(p):
        continue
    spec = importlib.util.spec_from_file_location("p" + pid, p)
    m = importlib.util.module_from_spec(spec)
    spec.loader.exec_module(m)
    meta = getattr(m, "META", None)
    if not meta or meta.get("disabled"):
        continue
    claimed.append(pid)
    checks.append({
        "property_id": pid,
        "quick_cmd": "./vcheck %s --tier quick" % pid,
        "thorough_cmd": "./vcheck %s --tier thorough" % pid,
        "evidence_file": "/verif/evidence/%s.json" % pid,
        "replay_cmd_template": "./vcheck %s --tier quick --replay {path}" % pid,
        "engine": "vcheck",
        "level_claimed": {"category": meta.get("level", "model_checking"), "text": meta["text"],
                          "design_ref": meta.get("design_ref", "DESIGN.md §4")},
        "level_note": meta["note"],
        "technique": meta.get("technique", "TLA+ spec checked with TLC; TLC-generated behaviours replayed on the real code; recorded traces validated against the spec"),
    })
not_app = [x for x in na if x["property_id"] not in claimed]
for pid in props:
    if pid not in claimed and pid not in {x["property_id"] for x in not_app}:
        not_app.append({"property_id": pid, "reason": "not yet covered by the TLA+ machinery in this revision (planned, see DESIGN.md §4); no check is claimed"})
hooks = subprocess.run(["git", "-C", "/repo", "log", "--format=%H %s", "--grep=^verif:"], capture_output=True, text=True).stdout.split("\n")
man = {
    "version": 1,
    "setup_cmd": "sh engine/setup.sh",
    "hooks": {
        "guard": "verif",
        "enable": "go test -tags verif -overlay <generated overlay mapping /verif/harness files into /repo packages> (done by ./vcheck)",
        "baseline_off_cmd": "cd /repo && GOFLAGS=-mod=mod GOPROXY=off GOSUMDB=off GOTOOLCHAIN=local go test -json -vet=off -count=1 -timeout 25m ./...",
        "source_commits": [h.split(" ")[0] for h in hooks if h.strip()],
        "add_only": True,
    },
    "engines": [{"name": "vcheck", "path": "/verif/engine/vlib.py", "serves_properties": claimed,
                 "kind_free_text": "Python driver: TLC (exhaustive / generation / trace validation) on /verif/specs + go test -overlay harnesses compiled into /repo's working tree"}],
    "checks": checks,
    "not_applicable": not_app,
    "notes": "Specifications: /verif/specs/<Module>. Harnesses: /verif/harness/<repo package path>/ (overlaid at build time, /repo is not modified). Known findings / fixed defects: /verif/known_findings.json.",
}
json.dump(man, open(os.path.join(V, "MANIFEST.json"), "w"), indent=1)
print("claimed", len(claimed), "not_applicable", len(not_app))
