#!/bin/sh
# Offline setup: nothing is downloaded. Parses every specification and warms
# the Go build cache for the hook-enabled build (checks rebuild from /repo's
# working tree on every run anyway).
set -e
cd "$(dirname "$0")/.."
export GOFLAGS=-mod=mod GOPROXY=off GOSUMDB=off GOTOOLCHAIN=local
python3 -c 'import json,sys; json.load(open("MANIFEST.json")); print("manifest ok")'
fail=0
for d in specs/*/; do
  [ "$d" = "specs/common/" ] && continue
  tmp=$(mktemp -d)
  cp "$d"*.tla specs/common/*.tla "$tmp"/ 2>/dev/null
  for f in "$tmp"/*.tla; do
    case "$f" in */TraceKit.tla) continue;; esac
    if ! (cd "$tmp" && timeout 120 java -cp /opt/veriftools/tla/tla2tools.jar:/opt/veriftools/tla/CommunityModules-deps.jar tla2sany.SANY "$(basename "$f")" >"$tmp/sany.out" 2>&1); then
      echo "SANY failed: $d$(basename "$f")"; tail -5 "$tmp/sany.out"; fail=1
    fi
  done
  rm -rf "$tmp"
done
[ $fail = 0 ] || exit 1
(cd /repo && go build -tags verif ./... ) || exit 1
echo "setup ok"
