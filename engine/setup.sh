#!/bin/sh
# Offline setup: nothing is downloaded. Parses every specification and warms
# the Go build cache for the hook-enabled build (checks rebuild from /repo's
# working tree on every run anyway).
set -e
cd "$(dirname "$0")/.."
export GOFLAGS=-mod=mod GOPROXY=off GOSUMDB=off GOTOOLCHAIN=local
python3 -c 'import json,sys; json.load(open("MANIFEST.json")); print("manifest ok")'
fail=0; warn=0
for d in specs/*/; do
  [ "$d" = "specs/common/" ] && continue
  # composition specs import modules of other directories (their prop scripts stage them at run time)
  case "$d" in specs/NetPath/|specs/WalletLifecycle/|specs/BeaconLifecycle/) continue;; esac
  tmp=$(mktemp -d)
  cp "$d"*.tla specs/common/*.tla "$tmp"/ 2>/dev/null
  for f in "$tmp"/*.tla; do
    case "$f" in */TraceKit.tla) continue;; esac
    if ! (cd "$tmp" && timeout 120 java -cp /opt/veriftools/tla/tla2tools.jar:/opt/veriftools/tla/CommunityModules-deps.jar tla2sany.SANY "$(basename "$f")" >"$tmp/sany.out" 2>&1); then
      # a module that needs files staged by its prop script (code-extracted constants, modules of other
      # directories) cannot be parsed in isolation: report, but never fail the setup for it - the check
      # itself reports exit 2 if a specification does not parse
      echo "SANY warning: $d$(basename "$f")"; tail -3 "$tmp/sany.out"; warn=1
    fi
  done
  rm -rf "$tmp"
done
[ $fail = 0 ] || exit 1
(cd /repo && go build -tags verif ./... ) || exit 1
echo "setup ok"
