#!/usr/bin/env python3
"""Shared engine for the keep-core model-based verification checks.

Every property script (engine/props/<ID>.py) defines run(ctx) and uses the
helpers of Ctx:

  ctx.tlc(...)            run TLC (exhaustive / simulate / generation) on a spec
  ctx.gotest(...)         run a harness test compiled into /repo with -overlay
  ctx.validate_trace(...) replay a recorded ndjson trace through a Trace_* spec
  ctx.violation(...)      the real code broke the property
  ctx.broken(...)         the check itself could not decide (exit 2)
  ctx.finish(...)         write evidence, print verdict lines, exit

Verdict rules (DESIGN.md section 3): exit 1 only for behaviour observed on the
real code; timeouts, build failures, vacuous model runs etc. are exit 2.
"""
import hashlib
import json
import os
import re
import shutil
import subprocess
import sys
import tempfile
import time

VERIF = os.path.dirname(os.path.dirname(os.path.abspath(__file__)))
REPO = os.environ.get("VERIF_REPO", "/repo")
MODULE = "github.com/keep-network/keep-core"
NCPU = os.cpu_count() or 4
TLA_JAR = "/opt/veriftools/tla/tla2tools.jar"
TLA_CP = TLA_JAR + ":/opt/veriftools/tla/CommunityModules-deps.jar"


class Broken(Exception):
    pass


def _acquire_tlc_slot():
    """Machine-wide cap on concurrently running TLC JVMs (all vcheck processes
    share VERIF_TLC_SLOTS lock files): keeps parallel checks from oversubscribing
    the cores and the RAM. Waiting for a slot is not counted in the TLC timeout."""
    import fcntl
    n = int(os.environ.get("VERIF_TLC_SLOTS", "10"))
    d = os.path.join(tempfile.gettempdir(), "verif-tlc-slots")
    os.makedirs(d, exist_ok=True)
    while True:
        for i in range(n):
            f = open(os.path.join(d, "slot%d" % i), "w")
            try:
                fcntl.flock(f, fcntl.LOCK_EX | fcntl.LOCK_NB)
                return f
            except OSError:
                f.close()
        time.sleep(0.5)


def _release_tlc_slot(f):
    try:
        f.close()
    except Exception:
        pass


class TlcResult:
    def __init__(self):
        self.rc = None
        self.out = ""
        self.ok = False            # completed, no error
        self.violated = None       # name of violated invariant / property
        self.error = None          # other error text
        self.generated = 0
        self.distinct = 0
        self.depth = 0
        self.coverage = {}         # action -> (distinct, generated)
        self.trace = None          # counterexample (list of states) if dumped
        self.wall = 0.0
        self.timed_out = False
        self.dir = None

    def summary(self):
        return {"ok": self.ok, "violated": self.violated, "generated": self.generated,
                "distinct": self.distinct, "depth": self.depth, "wall_s": round(self.wall, 2)}


class GoResult:
    def __init__(self):
        self.rc = None
        self.out = ""
        self.reports = {}          # name -> report dict
        self.wall = 0.0
        self.timed_out = False
        self.outdir = None


class Ctx:
    def __init__(self, pid, tier, seed, replay=None):
        self.pid = pid
        self.tier = tier
        self.seed = seed
        self.replay = replay
        self.t0 = time.time()
        base = os.environ.get("VERIF_SCRATCH") or tempfile.gettempdir()
        self.scratch = tempfile.mkdtemp(prefix="verif-%s-" % pid, dir=base)
        self.violations = []       # (key, what, replay_path)
        self.known_hits = []       # (key, what)
        self.tlc_runs = []
        self.go_runs = []
        self.traces_validated = 0
        self.trace_events = 0
        self.samples = []
        self.evaluations = 0
        self.distinct = 0
        self.notes = []
        self.extra = {}
        self.keep = bool(os.environ.get("VERIF_KEEP"))
        self._known = self._load_known()
        self._n = 0

    # ------------------------------------------------------------ utilities
    @property
    def thorough(self):
        return self.tier == "thorough"

    def pick(self, quick, thorough):
        return thorough if self.thorough else quick

    def log(self, msg):
        print("[%s %6.1fs] %s" % (self.pid, time.time() - self.t0, msg), flush=True)

    def note(self, msg):
        self.notes.append(msg)
        self.log(msg)

    def subdir(self, name):
        self._n += 1
        d = os.path.join(self.scratch, "%02d-%s" % (self._n, name))
        os.makedirs(d, exist_ok=True)
        return d

    def _load_known(self):
        p = os.path.join(VERIF, "known_findings.json")
        try:
            with open(p) as f:
                data = json.load(f)
        except FileNotFoundError:
            return []
        return [k for k in data.get("findings", []) if k.get("property") == self.pid]

    # ------------------------------------------------------------ TLC
    def tlc(self, spec_dir, module, cfg=None, cfg_text=None, mode="bfs", workers=None,
            timeout=600, depth=None, num=None, coverage=False, dump_trace=True,
            deadlock=False, label=None, expect=("ok",), files=None, view_queue=False,
            simulate_seed=None, heap=None, extra_args=None):
        """Run TLC on <spec_dir>/<module>.tla in a scratch copy of spec_dir.

        expect: tuple of acceptable outcomes among "ok", "violation". Anything
        else raises Broken. files: extra files {name: path-or-text} to place in
        the run directory (e.g. traces).
        """
        res = TlcResult()
        label = label or module
        d = self.subdir("tlc-" + label)
        res.dir = d
        src = os.path.join(VERIF, spec_dir)
        for fn in os.listdir(src):
            p = os.path.join(src, fn)
            if os.path.isfile(p):
                shutil.copy(p, d)
        common = os.path.join(VERIF, "specs", "common")
        if os.path.isdir(common):
            for fn in os.listdir(common):
                if not os.path.exists(os.path.join(d, fn)):
                    shutil.copy(os.path.join(common, fn), d)
        for name, content in (files or {}).items():
            dst = os.path.join(d, name)
            if isinstance(content, str) and os.path.isfile(content):
                shutil.copy(content, dst)
            else:
                with open(dst, "w") as f:
                    f.write(content)
        if cfg_text is not None:
            cfg = "__gen_%s" % label
            with open(os.path.join(d, cfg + ".cfg"), "w") as f:
                f.write(cfg_text)
        cfg = cfg or module
        if workers is None:
            workers = 1 if mode != "bfs" else min(8, NCPU)
        meta = os.path.join(d, "meta")
        cmd = ["java", "-XX:+UseParallelGC", "-XX:ParallelGCThreads=4", "-Xss64m"]
        cmd.append("-Xmx" + (heap or os.environ.get("VERIF_TLC_HEAP", "6g")))
        if view_queue:
            cmd.append("-Dtlc2.tool.queue.IStateQueue=StateDeque")
        cmd += ["-cp", TLA_CP, "tlc2.TLC", "-metadir", meta, "-workers", str(workers),
                "-config", cfg + ".cfg"]
        if not deadlock:
            cmd.append("-deadlock")      # -deadlock DISABLES deadlock checking
        if mode == "simulate":
            sim = "num=%d" % (num or 100)
            cmd += ["-simulate", sim, "-depth", str(depth or 50)]
            cmd += ["-seed", str(simulate_seed if simulate_seed is not None else self.seed)]
        if coverage:
            cmd += ["-coverage", "1"]
        dump = os.path.join(d, "cex.json")
        if dump_trace:
            cmd += ["-dumpTrace", "json", dump]
        cmd += extra_args or []
        cmd.append(module + ".tla")
        slot = _acquire_tlc_slot()
        t0 = time.time()
        try:
            p = subprocess.run(cmd, cwd=d, stdout=subprocess.PIPE, stderr=subprocess.STDOUT,
                               timeout=timeout, text=True, errors="replace")
            res.rc, res.out = p.returncode, p.stdout
        except subprocess.TimeoutExpired as e:
            res.timed_out = True
            res.out = (e.stdout or b"").decode("utf-8", "replace") if isinstance(e.stdout, bytes) else (e.stdout or "")
            subprocess.run(["pkill", "-f", meta], stderr=subprocess.DEVNULL)
        finally:
            _release_tlc_slot(slot)
        res.wall = time.time() - t0
        with open(os.path.join(d, "tlc.out"), "w") as f:
            f.write(res.out)
        self._parse_tlc(res, dump)
        shutil.rmtree(meta, ignore_errors=True)
        self.tlc_runs.append({"label": label, "module": module, "cfg": cfg, "mode": mode, **res.summary()})
        self.log("tlc %-28s %s gen=%d distinct=%d depth=%d %.1fs%s" % (
            label, "ok" if res.ok else ("VIOLATED " + str(res.violated) if res.violated else "ERROR"),
            res.generated, res.distinct, res.depth, res.wall, " TIMEOUT" if res.timed_out else ""))
        outcome = "ok" if res.ok else ("violation" if res.violated else "error")
        if res.timed_out and mode == "simulate" and "timeout" in expect:
            outcome = "timeout"
        if outcome not in expect:
            tail = "\n".join(res.out.splitlines()[-40:])
            raise Broken("TLC run %s: outcome %s not in %s\n%s" % (label, outcome, expect, tail))
        return res

    def _parse_tlc(self, res, dump):
        out = res.out
        m = None
        for m in re.finditer(r"(\d+) states generated, (\d+) distinct states found", out):
            pass
        if m:
            res.generated, res.distinct = int(m.group(1)), int(m.group(2))
        m = re.search(r"depth of the complete state graph search is (\d+)", out)
        if m:
            res.depth = int(m.group(1))
        m = re.search(r"Error: Invariant (\S+) is violated", out)
        if m:
            res.violated = m.group(1).rstrip(".")
        m2 = re.search(r"Error: Action property (\S+) is violated", out)
        if m2:
            res.violated = m2.group(1).rstrip(".")
        if re.search(r"Error: Temporal propert(ies were|y \S+ was) violated", out):
            res.violated = res.violated or "TemporalProperty"
        if re.search(r"Error: Deadlock reached", out):
            res.violated = res.violated or "Deadlock"
        m3 = re.search(r"Error: Postcondition (.*?) is false|The postcondition.*?violated|Evaluating postcondition.*?false", out, re.S)
        if "ostcondition" in out and ("is false" in out or "violated" in out):
            res.violated = res.violated or "Postcondition"
        if not res.timed_out and res.violated is None:
            if "Model checking completed. No error has been found." in out or \
               ("Finished in" in out and "Error:" not in out and res.rc == 0):
                res.ok = True
            elif res.rc == 0 and "Error:" not in out:
                res.ok = True
            else:
                errs = re.findall(r"Error: .*", out)
                res.error = "; ".join(errs[:3]) or ("rc=%s" % res.rc)
        # coverage
        for m in re.finditer(r"^<(\w+) line \d+, col \d+ to line \d+, col \d+ of module (\w+)(?: \([\d ]+\))?>: (\d+):(\d+)", out, re.M):
            name = m.group(1)
            a, b = int(m.group(3)), int(m.group(4))
            old = res.coverage.get(name, (0, 0))
            res.coverage[name] = (old[0] + a, old[1] + b)
        if res.violated and os.path.exists(dump):
            try:
                with open(dump) as f:
                    res.trace = json.load(f)
            except Exception:
                res.trace = None

    def require_coverage(self, res, actions, label=""):
        """Vacuity guard: every listed action must have been taken."""
        def taken(a):
            # TLC names an action after the innermost operator whose body it is:
            # `DoX == \E p : X(p)` is reported as X, `DoX == \E p : G /\ X(p)` as DoX.
            alts = [a, a[2:] if a.startswith("Do") else "Do" + a]
            return any(res.coverage.get(x, (0, 0))[1] > 0 for x in alts)
        missing = [a for a in actions if not taken(a)]
        if missing:
            raise Broken("vacuous model run %s: actions never taken: %s" % (label, missing))

    def read_emitted(self, res, name):
        """Read a file of JSON lines emitted by a spec through CSVWrite."""
        p = os.path.join(res.dir, name)
        out = []
        seen = set()
        if not os.path.exists(p):
            return out
        with open(p) as f:
            for line in f:
                line = line.strip()
                if not line or line in seen:
                    continue
                seen.add(line)
                x = json.loads(line)
                if isinstance(x, str):
                    try:
                        x = json.loads(x)
                    except Exception:
                        pass
                out.append(x)
        return out

    # ------------------------------------------------------------ go test
    def gotest(self, pkg, run, files, inputs=None, env=None, timeout=900, race=False,
               label=None, extra_overlay=None, parallel=None):
        """Run harness test(s) inside /repo's package <pkg> (e.g. pkg/net/retransmission).

        files: harness files relative to /verif/harness/<pkg>/ (overlaid as
        zz_verif_<file>). inputs: {name: path-or-obj-list} copied/written to
        VERIF_IN.
        """
        res = GoResult()
        label = label or run
        d = self.subdir("go-" + re.sub(r"[^A-Za-z0-9_]", "_", label))
        ind, outd = os.path.join(d, "in"), os.path.join(d, "out")
        os.makedirs(ind)
        os.makedirs(outd)
        res.outdir = outd
        for name, content in (inputs or {}).items():
            dst = os.path.join(ind, name)
            if isinstance(content, str) and os.path.isfile(content):
                shutil.copy(content, dst)
            elif isinstance(content, (list, tuple)):
                with open(dst, "w") as f:
                    for x in content:
                        f.write(json.dumps(x, sort_keys=True) + "\n")
            else:
                with open(dst, "w") as f:
                    f.write(content if isinstance(content, str) else json.dumps(content))
        replace = {}
        kitdir = os.path.join(VERIF, "harness", "kit")
        for fn in os.listdir(kitdir):
            if fn.endswith(".go"):
                replace[os.path.join(REPO, "internal", "verifkit", fn)] = os.path.join(kitdir, fn)
        for fn in files:
            srcp = os.path.join(VERIF, "harness", pkg, fn)
            if not os.path.isfile(srcp):
                raise Broken("missing harness file " + srcp)
            replace[os.path.join(REPO, pkg, "zz_verif_" + os.path.basename(fn))] = srcp
        for k, v in (extra_overlay or {}).items():
            replace[os.path.join(REPO, k)] = os.path.join(VERIF, "harness", v)
        ov = os.path.join(d, "overlay.json")
        with open(ov, "w") as f:
            json.dump({"Replace": replace}, f)
        e = dict(os.environ)
        e.update({"GOFLAGS": "-mod=mod", "GOPROXY": "off", "GOSUMDB": "off", "GOTOOLCHAIN": "local",
                  "VERIF_IN": ind, "VERIF_OUT": outd, "VERIF_TIER": self.tier,
                  "VERIF_SEED": str(self.seed), "VERIF_PROPERTY": self.pid})
        for k, v in (env or {}).items():
            e[k] = str(v)
        cmd = ["go", "test", "-tags", "verif", "-vet=off", "-count=1", "-overlay", ov,
               "-run", run, "-timeout", "%ds" % timeout]
        if race:
            cmd.append("-race")
        if parallel:
            cmd += ["-parallel", str(parallel)]
        cmd.append("./" + pkg)
        t0 = time.time()
        try:
            p = subprocess.run(cmd, cwd=REPO, env=e, stdout=subprocess.PIPE, stderr=subprocess.STDOUT,
                               timeout=timeout + 120, text=True, errors="replace")
            res.rc, res.out = p.returncode, p.stdout
        except subprocess.TimeoutExpired as ex:
            res.timed_out = True
            res.out = str(ex.stdout or "")
        res.wall = time.time() - t0
        with open(os.path.join(d, "gotest.out"), "w") as f:
            f.write(res.out)
        for fn in sorted(os.listdir(outd)):
            if fn.endswith(".result.json"):
                try:
                    with open(os.path.join(outd, fn)) as f:
                        res.reports[fn[:-len(".result.json")]] = json.load(f)
                except Exception as ex:
                    raise Broken("unreadable harness report %s: %s" % (fn, ex))
        self.go_runs.append({"label": label, "pkg": pkg, "run": run, "rc": res.rc,
                             "wall_s": round(res.wall, 2), "reports": sorted(res.reports)})
        self.log("go  %-28s rc=%s reports=%s %.1fs" % (label, res.rc, sorted(res.reports), res.wall))
        if res.timed_out:
            raise Broken("go test %s timed out" % label)
        if res.rc != 0 and "panic:" in res.out:
            culprit = self._panic_culprit(res.out)
            if culprit:
                # the code under test crashed while being driven through a behaviour of the spec
                snippet = res.out[res.out.index("panic:"):][:3000]
                self.violation("panic:" + culprit.split("/")[-1].split(":")[0],
                               "keep-core code panicked while the harness %s replayed a specification behaviour (%s)" % (label, culprit),
                               {"output": snippet})
                return res
        if res.rc != 0:
            tail = "\n".join(res.out.splitlines()[-60:])
            raise Broken("go test %s failed (build error, panic or harness failure), rc=%s\n%s" % (label, res.rc, tail))
        if not res.reports:
            raise Broken("go test %s produced no report (test skipped or not found?)\n%s" % (label, res.out[-2000:]))
        return res

    def _panic_culprit(self, out):
        """First stack frame after 'panic:' that is neither Go runtime/testing nor
        harness code; returns file:line if that frame is keep-core code."""
        seg = out[out.index("panic:"):]
        for m in re.finditer(r"^\s+(/\S+\.go):(\d+)", seg, re.M):
            f = m.group(1)
            if "/usr/lib/go" in f or "/go/src/" in f or "/usr/local/go/" in f or "/runtime/" in f or "/testing/" in f or "/opt/veriftools" in f:
                continue
            if "zz_verif_" in f or "/verif/harness/" in f or "verifkit" in f:
                return None
            if f.startswith(REPO + "/"):
                return "%s:%s" % (f[len(REPO) + 1:], m.group(2))
            return None
        return None

    def absorb(self, gores, require_evals=1):
        """Fold harness reports into the evidence and turn divergences into violations."""
        for name, rep in gores.reports.items():
            ev = int(rep.get("evaluations", 0))
            if ev < require_evals and not (rep.get("divergences") or []):
                raise Broken("harness report %s covered %d evaluations (< %d): dead driver" % (name, ev, require_evals))
            self.evaluations += ev
            self.distinct += int(rep.get("distinct_nontrivial", 0))
            for s in (rep.get("samples") or [])[:3]:
                if len(self.samples) < 8:
                    self.samples.append({"harness": name, "case": s})
            for n in rep.get("notes") or []:
                self.notes.append("%s: %s" % (name, n))
            self.extra.setdefault("harness", {})[name] = {
                "evaluations": ev, "distinct_nontrivial": rep.get("distinct_nontrivial", 0),
                "counters": rep.get("counters"), "unrealized": rep.get("unrealized", 0),
                "extra": rep.get("extra")}
            for dv in rep.get("divergences") or []:
                self.violation(dv.get("key") or "?", dv.get("what") or "divergence", dv)

    def trace_path(self, gores, name):
        p = os.path.join(gores.outdir, name + ".ndjson")
        if not os.path.isfile(p):
            raise Broken("harness did not write trace %s" % p)
        return p

    # ------------------------------------------------------------ trace validation
    def validate_trace(self, spec_dir, module, trace_file, cfg=None, timeout=600, label=None,
                       trace_name="trace.ndjson", deque=True, heap=None, extra_args=None):
        """Replay a recorded ndjson trace through Trace_* (POSTCONDITION acceptance).

        Returns (accepted, result). A rejected trace is NOT automatically a
        violation; the caller decides (and passes the offending line)."""
        n = sum(1 for _ in open(trace_file))
        res = self.tlc(spec_dir, module, cfg=cfg, mode="bfs", workers=1, timeout=timeout,
                       dump_trace=False, label=label or module, expect=("ok", "violation"),
                       files={trace_name: trace_file}, view_queue=deque, heap=heap,
                       extra_args=["-checkpoint", "0"] + list(extra_args or []))
        accepted = res.ok
        if accepted:
            self.trace_events += n
        return accepted, res

    def longest_prefix(self, res):
        m = None
        for m in re.finditer(r"VERIF_HWM\"?[=,]\s*(\d+)", res.out):
            pass
        return int(m.group(1)) if m else None

    # ------------------------------------------------------------ verdicts
    def violation(self, key, what, detail=None):
        for k in self._known:
            if k.get("key") == key:
                if (key, what) not in self.known_hits:
                    self.known_hits.append((key, k.get("what") or what))
                return
        rdir = os.path.join(VERIF, "replays", self.pid)
        os.makedirs(rdir, exist_ok=True)
        h = hashlib.sha256((key + what).encode()).hexdigest()[:10]
        path = os.path.join(rdir, "%s.json" % h)
        with open(path, "w") as f:
            json.dump({"property": self.pid, "key": key, "what": what, "detail": detail,
                       "tier": self.tier, "seed": self.seed}, f, indent=1, default=str)
        if all(v[0] != key for v in self.violations):
            self.violations.append((key, what, path))

    def broken(self, msg):
        raise Broken(msg)

    def cleanup(self):
        if not self.keep:
            shutil.rmtree(self.scratch, ignore_errors=True)
        else:
            self.log("scratch kept at " + self.scratch)

    def finish(self, level, rule, assumptions, exhaustive=False, explanation=None, extra=None):
        states = sum(r["distinct"] for r in self.tlc_runs)
        transitions = sum(r["generated"] for r in self.tlc_runs)
        cov = {
            "states": states,
            "transitions": transitions,
            "traces_validated_against_impl": self.traces_validated,
            "trace_events_validated": self.trace_events,
            "evaluations": self.evaluations,
            "distinct_nontrivial": self.distinct,
            "rule": rule,
            "samples": self.samples[:8] or [{"note": "no samples"}],
            "exhaustive": bool(exhaustive),
            "tlc_runs": self.tlc_runs,
            "go_runs": self.go_runs,
            "known_findings_hit": [k for k, _ in self.known_hits],
            "notes": self.notes[:40],
        }
        if explanation:
            cov["explanation"] = explanation
        cov.update(self.extra)
        cov.update(extra or {})
        ev = {
            "property_id": self.pid, "tier": self.tier, "seed": self.seed, "level": level,
            "coverage": cov, "assumptions": assumptions,
            "wall_s": round(time.time() - self.t0, 2), "violations": len(self.violations),
        }
        edir = os.environ.get("VERIF_EVIDENCE_DIR")
        if not edir:
            # runs against a scratch tree (mutation self-tests) must not overwrite the real evidence
            edir = os.path.join(VERIF, "evidence") if REPO == "/repo" else os.path.join(tempfile.gettempdir(), "verif-evidence-scratch")
        os.makedirs(edir, exist_ok=True)
        with open(os.path.join(edir, self.pid + ".json"), "w") as f:
            json.dump(ev, f, indent=1, default=str)
        for key, what in self.known_hits:
            print("KNOWN-FINDING: property=%s %s [%s]" % (self.pid, what, key), flush=True)
        for key, what, path in self.violations[:6]:
            print("VIOLATION property=%s replay=%s  (%s: %s)" % (self.pid, path, key, what[:300]), flush=True)
        if len(self.violations) > 6:
            print("... and %d more violations (see %s)" % (len(self.violations) - 6, os.path.join(VERIF, "replays", self.pid)), flush=True)
        self.cleanup()
        if self.violations:
            return 1
        print("OK property=%s tier=%s states=%d evaluations=%d traces=%d wall=%.1fs" % (
            self.pid, self.tier, states, self.evaluations, self.traces_validated, time.time() - self.t0), flush=True)
        return 0


def main(argv):
    import argparse
    import importlib.util
    ap = argparse.ArgumentParser()
    ap.add_argument("pid")
    ap.add_argument("--tier", default=os.environ.get("VERIF_TIER") or "quick", choices=["quick", "thorough"])
    ap.add_argument("--seed", type=int, default=int(os.environ.get("VERIF_SEED") or 1))
    ap.add_argument("--replay", default=None)
    a = ap.parse_args(argv)
    os.environ["VERIF_TIER"] = a.tier
    path = os.path.join(VERIF, "engine", "props", a.pid + ".py")
    if not os.path.isfile(path):
        print("unknown property " + a.pid)
        return 2
    spec = importlib.util.spec_from_file_location("prop_" + a.pid, path)
    mod = importlib.util.module_from_spec(spec)
    spec.loader.exec_module(mod)
    ctx = Ctx(a.pid, a.tier, a.seed, a.replay)
    try:
        rc = mod.run(ctx)
        if rc is None:
            raise Broken("property script did not call ctx.finish")
        return rc
    except Broken as ex:
        if ctx.violations:
            # a violation already observed on the real code stands even if a later step of the check
            # could not be completed (e.g. the changed code also makes a later harness run out of time)
            print("NOTE property=%s: a later step of the check broke after violations were recorded: %s" % (
                a.pid, str(ex).splitlines()[0][:300]), flush=True)
            ctx.notes.append("later step broke: " + str(ex).splitlines()[0][:300])
            try:
                return ctx.finish(level="model_checking", rule="incomplete run: stopped after recorded violations",
                                  assumptions=["run aborted by a broken later step after violations were recorded"])
            except Exception:
                for key, what, path in ctx.violations[:6]:
                    print("VIOLATION property=%s replay=%s  (%s: %s)" % (a.pid, path, key, what[:300]), flush=True)
                ctx.cleanup()
                return 1
        print("BROKEN property=%s: %s" % (a.pid, ex), flush=True)
        ctx.cleanup()
        return 2
    except Exception:
        import traceback
        traceback.print_exc()
        print("BROKEN property=%s: engine exception" % a.pid, flush=True)
        ctx.cleanup()
        return 2


if __name__ == "__main__":
    sys.exit(main(sys.argv[1:]))
