#!/usr/bin/env python3
"""Prints the markdown table of independently seeded breaking changes from seeded/*/meta.json."""
import json, os, glob, re
V = os.path.dirname(os.path.dirname(os.path.abspath(__file__)))
rows = []
for p in sorted(glob.glob(os.path.join(V, "seeded", "*", "meta.json"))):
    m = json.load(open(p))
    d = os.path.basename(os.path.dirname(p))
    needs = ""
    md = os.path.join(os.path.dirname(p), "MUTATION.md")
    patch = os.path.join(os.path.dirname(p), "patch.diff")
    files = sorted(set(re.findall(r"^\+\+\+ b/(\S+)", open(patch).read(), re.M))) if os.path.exists(patch) else []
    hist = m.get("history") or ("detected" if m.get("detected") else "MISSED")
    rows.append((d, ", ".join(files)[:80], "yes" if m.get("confirmed") else "no", hist, (m.get("note") or "")[:160]))
print("| Seeded change | Files touched | Confirmed | Quick tier | Note |")
print("|---|---|---|---|---|")
for r in rows:
    print("| %s | %s | %s | %s | %s |" % r)
