"""C03 — threshold BLS recovery yields the unique group signature; only verified shares are used."""
import random

META = {
    "level": "model_checking",
    "text": "TLC exhaustively checks a step-level model of bls.RecoverSignature/RecoverPublicKey over a prime field (every input "
            "slice of correct shares in every order mixed with nil, nil-value and negative-index entries; every polynomial) for "
            "'recovers f(0), fails exactly when too few usable shares, never touches a skipped entry', and a model of the relay-entry "
            "share collection loop for 'only shares verifying under the sender's public key share are kept; what is submitted is the "
            "group signature'. Every enumerated input / behaviour is replayed on the real code with real BN254 keys: "
            "RecoverSignature, RecoverPublicKey, VerifyG1, extractAndValidateShare and the whole SignAndSubmit loop. The property "
            "quantifies over orders, subsets and placements of skipped entries, which is an enumeration problem, hence model checking.",
    "note": "Trusted: the BN254 arithmetic of go-ethereum's bn256 and the harness' own Horner evaluation; the symbolic share "
            "abstraction (a share verifies iff signed by the claimed member over the current previous entry). DKG-produced keys are "
            "emulated by summing per-member polynomials rather than by running GJKR.",
    "technique": "TLA+ step model of the recovery loops + share collection loop, TLC exhaustive; case/behaviour replay on real code with real BN254 values",
    "design_ref": "DESIGN.md §4.2 C03",
}
SPEC = "specs/BlsRecovery"


def _deliveries(b):
    return [s for s in b["steps"] if s["a"] in ("Deliver", "Late")]


def _repeats(b):
    """some sender has several messages in the behaviour"""
    senders = [s["m"]["sender"] for s in _deliveries(b) if s["m"]["kind"] == "share"]
    return len(senders) != len(set(senders))


def _select(beh, n, rnd):
    """all behaviours with at most one delivery, all in which one sender sends several messages and the
    threshold is reached, plus a seeded sample of the rest"""
    must = [b for b in beh if len(_deliveries(b)) <= 1 or (_repeats(b) and b["phase"] == "submitted")]
    ids = set(id(b) for b in must)
    rest = [b for b in beh if id(b) not in ids]
    if n is None or n >= len(rest):
        return must + rest
    return must + rnd.sample(rest, n)


def run(ctx):
    rnd = random.Random(ctx.seed)
    # 1. the recovery model satisfies the contract (exhaustive, bounded)
    # (quick tier: the generation runs below check the same invariants on their smaller configurations)
    for cfg in ctx.pick([], ["MC_K2", "MC_K3", "MC_K3all"]):
        r = ctx.tlc(SPEC, "MC_BlsRecovery", cfg=cfg, coverage=True, label=cfg, timeout=1500)
        ctx.require_coverage(r, ["ScanStop", "ScanSkip", "ScanTake", "ScanShort", "Combine", "Finish"], cfg)
    # 2. the positional reading shares[i] violates it in the model: the inputs on which the two readings differ exist
    hz = ctx.tlc(SPEC, "MC_BlsRecovery", cfg="MC_Hazard", label="MC_Hazard", expect=("violation",))
    ctx.extra["positional_reading_counterexample"] = hz.violated
    # 3. the collection loop model
    for cfg in ctx.pick((), ("MC_Collect", "MC_CollectUnknown", "MC_Repeat")):
        r = ctx.tlc(SPEC, "MC_ShareCollection", cfg=cfg, coverage=True, label=cfg)
        need = ["Reject", "Accept", "LateMsg", "OtherSubmitted", "Timeout", "Complete", "Submit"]
        ctx.require_coverage(r, need + ([] if cfg == "MC_Repeat" else ["Ignore"]), cfg)
    # 4. every enumerated input slice on the real RecoverSignature / RecoverPublicKey
    cases = []
    for cfg in ctx.pick(["Gen_K2q", "Gen_K3q"], ["Gen_K1", "Gen_K2", "Gen_K3"]):
        g = ctx.tlc(SPEC, "Gen_BlsRecovery", cfg=cfg, workers=1, label=cfg, dump_trace=False, coverage=True)
        ctx.require_coverage(g, ["ScanStop", "ScanSkip", "ScanTake", "ScanShort", "Combine", "Finish"], cfg)
        got = ctx.read_emitted(g, "cases.ndjson")
        if len(got) < 100:
            ctx.broken("case generation %s produced only %d inputs" % (cfg, len(got)))
        cases += got
    mis = [c for c in cases if c["misaligned"]]
    ctx.note("recovery inputs: %d, of which %d have a skipped entry before a used one" % (len(cases), len(mis)))
    if not ctx.thorough:
        keep = set(id(c) for c in rnd.sample(cases, min(len(cases), 1500)))
        cases = [c for c in cases if id(c) in keep]
        if sum(1 for c in cases if c["misaligned"]) < 50:
            ctx.broken("sample has too few inputs with skipped entries")
    go = ctx.gotest("pkg/bls", "^TestVerif_C03_Recover", ["c03_test.go"], inputs={"cases.ndjson": cases},
                    env={"VERIF_LARGE_RUNS": ctx.pick(12, 60)}, label="recover", timeout=ctx.pick(600, 3000))
    ctx.absorb(go)
    if set(go.reports) != {"recover", "recover_large"}:
        ctx.broken("recover harness reports missing: %s" % sorted(go.reports))
    # 5. every behaviour of the collection loop on the real SignAndSubmit + direct share validation
    beh = []
    gens = ctx.pick((("Gen_Collectq", 300), ("Gen_CollectUnknownq", 300), ("Gen_Repeatq", 250)),
                    (("Gen_Collect", 3000), ("Gen_CollectUnknown", 3000), ("Gen_Repeat", 3000)))
    for cfg, nsample in gens:
        g = ctx.tlc(SPEC, "Gen_ShareCollection", cfg=cfg, workers=1, label=cfg, dump_trace=False, coverage=True)
        need = ["GRejectM", "GAcceptM", "GOther", "GTimeout", "GComplete", "GSubmit"]
        if "Repeat" not in cfg:
            need.append("GIgnoreM")
        if not cfg.endswith("Collectq") and not cfg.endswith("Unknownq"):
            need.append("GLateM")
        ctx.require_coverage(g, need, cfg)
        got = ctx.read_emitted(g, "collection.ndjson")
        if len(got) < 400:
            ctx.broken("behaviour generation %s produced only %d behaviours" % (cfg, len(got)))
        beh += _select(got, nsample, rnd)
    nrep = sum(1 for b in beh if _repeats(b))
    nrepsub = sum(1 for b in beh if _repeats(b) and b["phase"] == "submitted")
    ctx.note("collection behaviours replayed: %d (%d with several messages of one sender, %d of those reach the threshold)" % (
        len(beh), nrep, nrepsub))
    if nrepsub < 20:
        ctx.broken("too few behaviours with repeated messages of one sender that reach the threshold: %d" % nrepsub)
    # the direct drive of the unexported extractAndValidateShare lives in its own file: when the helper's
    # signature changes that file no longer builds; the SignAndSubmit-level replay must still run
    collect_env = {"VERIF_SHARE_ROUNDS": ctx.pick(3, 12)}
    direct_skipped = False
    try:
        go2 = ctx.gotest("pkg/beacon/entry", "^TestVerif_C03_(Collect|Shares)$", ["c03_test.go", "c03_direct_test.go"],
                         inputs={"collection.ndjson": beh}, env=collect_env, label="collect", timeout=ctx.pick(900, 3000))
    except Exception as ex:
        if type(ex).__name__ != "Broken" or "[build failed]" not in str(ex):
            raise
        direct_skipped = True
        ctx.note("direct-call harness skipped: signature changed (c03_direct_test.go does not build against this tree)")
        go2 = ctx.gotest("pkg/beacon/entry", "^TestVerif_C03_Collect$", ["c03_test.go"],
                         inputs={"collection.ndjson": beh}, env=collect_env, label="collect-nodirect",
                         timeout=ctx.pick(900, 3000))
    ctx.absorb(go2)
    ctx.extra["direct_call_harness_skipped"] = direct_skipped
    if set(go2.reports) != ({"collect"} if direct_skipped else {"collect", "shares"}):
        ctx.broken("collect harness reports missing: %s" % sorted(go2.reports))
    ph = (ctx.extra.get("harness", {}).get("collect", {}).get("counters") or {})
    for need in ("phase_submitted", "phase_timedout", "phase_left"):
        if not ph.get(need) and not ctx.violations:
            ctx.broken("collection replay never reached %s" % need)
    return ctx.finish(
        level="model_checking",
        rule="recovery: every input slice of length <= 4/5 over correct shares of distinct members (indices 0..5, random "
             "re-mapping to 16-bit member indices), nil, nil-value and negative-index entries, thresholds 1..3 (quick: seeded "
             "sample of 1500, thorough: all), each with a fresh random BN254 polynomial and message, plus random inputs up to group "
             "64 / threshold 33; non-trivial = inputs with a skipped entry before a used one or shares out of index order. "
             "collection: behaviours of up to 3 deliveries from a 23-message alphabet plus up to 3/4 deliveries from a 10-message "
             "alphabet of two senders (every history of repeated messages of one sender: valid then invalid, invalid then "
             "valid, valid then another valid-looking share; messages after the threshold); message kinds: correct, wrong signer, "
             "wrong message, infinity, malformed, other session, own echo, outsider, other payload; ending in timeout / entry submitted by "
             "another member / threshold reached; all with <= 1 delivery plus a seeded sample.",
        assumptions=["field Z_11 stands for the BN254 scalar field in the model (recovery is the same linear formula)",
                     "group elements f(i)*H are represented by the field element f(i) in the model",
                     "DKG keys are emulated by summing per-member polynomials (GJKR itself is not run here)",
                     "duplicate share indices are outside the property's precondition and not generated"],
        exhaustive=ctx.thorough)
