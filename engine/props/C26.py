"""C26 — wallet transactions conserve value and pay only the intended scripts."""
META = {
    "level": "model_checking",
    "text": "The four transaction assemblers of the tBTC wallet (deposit sweep, redemption with its fee distribution, moving funds, "
            "moved funds sweep) are deterministic functions of their arguments. The TLA+ module TxAssembly is an integer model of them "
            "(inputs as UTXO references, outputs as [script label, value], Go's truncating division, the documented errors and their "
            "order); TLC checks value conservation, fee-share sums, intended scripts and order, exact inputs, change-iff-positive and "
            "even split exhaustively over dense small integers, and every case of a second (sparse, partly large-valued) argument "
            "space is executed on the real assemble*Transaction functions with a local Bitcoin chain; the unsigned transaction inside "
            "the TransactionBuilder is compared input by input and output by output. A sample is signed and run through btcd's script engine. "
            "The step the wallet actions perform before assembling is part of the model and of the replay: a proposal only names deposits "
            "(funding transaction, output index, reveal block) and redemption requests (script); the real ValidateDepositSweepProposal / "
            "ValidateRedemptionProposal (+ DetermineWalletMainUtxo, EnsureWalletSyncedBetweenChains) resolve them against the package's local "
            "chains and the result is assembled, as execute() does; invariant: the inputs are exactly the UTXOs named by the proposal's keys, "
            "one each (keys sharing a funding transaction or a reveal block included).",
    "note": "Trusted: btcd (wire, txscript) and the harness' mapping of script labels to real scripts. UTXO values passed by the caller "
            "are taken as the true values (as the code does). Values above 2^31 (TLC integers) are not enumerated.",
    "technique": "TLA+ decision spec enumerated exhaustively by TLC; every generated case replayed through the real assemblers; sampled script-engine validation",
    "design_ref": "DESIGN.md §4.5 C26",
}
SPEC = "specs/TxAssembly"
ACTIONS = ["AssembleDepositSweep", "AssembleRedemption", "AssembleMovingFunds", "AssembleMovedFundsSweep",
           "ExecuteDepositSweepProposal", "ExecuteRedemptionProposal"]


def par(jobs):
    import threading
    res, errs = [None] * len(jobs), []

    def w(i, f):
        try:
            res[i] = f()
        except BaseException as e:      # noqa
            errs.append(e)
    ts = [threading.Thread(target=w, args=(i, f)) for i, f in enumerate(jobs)]
    for t in ts:
        t.start()
    for t in ts:
        t.join()
    if errs:
        raise errs[0]
    return res


def run(ctx):
    r, g = par([
        lambda: ctx.tlc(SPEC, "MC_TxAssembly", cfg=ctx.pick("MC_TxAssembly", "MC_TxAssembly_thorough"), coverage=True,
                        label="MC_TxAssembly", timeout=1500, workers=6),
        lambda: ctx.tlc(SPEC, "Gen_TxAssembly", cfg=ctx.pick("Gen_TxAssembly", "Gen_TxAssembly_thorough"), workers=1,
                        label="Gen_TxAssembly", dump_trace=False, timeout=1500),
    ])
    ctx.require_coverage(r, ACTIONS, "MC_TxAssembly")
    cases = ctx.read_emitted(g, "cases.ndjson")
    want = ctx.pick(53187, 0)
    if (want and len(cases) != want) or len(cases) < ctx.pick(30000, 300000):
        ctx.broken("expected %s generated cases, got %d" % (want or ">= 300000", len(cases)))
    import random
    random.Random(ctx.seed).shuffle(cases)      # which cases get signed depends on the seed
    go = ctx.gotest("pkg/tbtc", "^TestVerif_C26_", ["c26_test.go"], inputs={"cases.ndjson": cases},
                    extra_overlay={"pkg/bitcoin/zz_verif_c26_export.go": "pkg/bitcoin/c26_export.go"},
                    env={"VERIF_SIGN_EVERY": ctx.pick(12, 40)}, label="assemble", timeout=ctx.pick(900, 2400))
    ctx.absorb(go, require_evals=len(cases))
    counters = (go.reports.get("assemble") or {}).get("counters") or {}
    for k in ("sweep/built", "redemption/built", "movingFunds/built", "movedFundsSweep/built", "sweepProposal/built",
              "redemptionProposal/built", "sweepProposal/error:noEvent", "redemption/share-above-TxMaxFee",
              "signed_and_script_verified"):
        if counters.get(k, 0) < 20:
            ctx.broken("harness compared only %d cases of class %s" % (counters.get(k, 0), k))
    return ctx.finish(
        level="model_checking",
        rule="all argument combinations of: main UTXO {none, P2PKH, P2WPKH, wrong script class, unknown transaction} x values; 0..3 deposits "
             "(P2SH/P2WSH, with/without extra data, wrong class, unknown funding tx, malformed deposit script) / 0..3 redemption requests "
             "(amount, treasury fee, four redeemer script kinds, duplicates) / 0..3 target wallets (permutations, duplicates) / moved funds "
             "UTXO; deposit sweep proposals of 1..3 keys over 3-4 outputs of two funding transactions (revealed in block 1/2, for this or "
             "another wallet, without request, wrong reveal block, unconfirmed / unknown funding transaction) and redemption proposals of 1..3 "
             "scripts (pending / not pending, same scripts pending for another wallet), resolved by the real Validate*Proposal; per-request "
             "TxMaxFee far above / equal to the even part (below the remainder share) / below the first share and differing between requests; "
             "fees incl. not divisible by k and larger than the inputs; change shapes default/first/last. Non-trivial = a transaction "
             "is built and compared (errors are compared too).",
        assumptions=["btcd wire/txscript are trusted", "the Bridge's on-chain proposal validation is replaced by one that accepts (and records) everything", "UTXO values given to the assemblers are the true values of the referenced outputs",
                     "TLC integers: values below 2^31 satoshi"],
        exhaustive=True)
