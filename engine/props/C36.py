"""C36 — heartbeat failures escalate to an inactivity claim only after repeated failures."""
import json
import os
import re

META = {
    "level": "model_checking",
    "text": "TLC exhaustively checks the heartbeat escalation specification (one action per path of heartbeatAction.execute: "
            "staking check failed, unstaking, invalid proposal, bad expiry, signing error, success, low activity below the "
            "threshold / undetermined / claim) over two wallets sharing one failure counter; every sequence of executions up "
            "to 4-6 steps (and every single execution over the full environment alphabet from every counter state) is replayed "
            "on the real heartbeatAction.execute with the real heartbeatFailureCounter, comparing error, signing request, claim "
            "arguments, armed deadlines and all wallets' counters after every execution; long random runs over three wallets "
            "are trace-validated with every invariant evaluated on the real trace.",
    "note": "'Consecutive' is read as the code documents it: executions that end before a signature exists (unstaking, invalid "
            "proposal, signing error) neither count nor reset; low, low, signing error, low therefore claims (TLC shows the "
            "stricter reading is not what the code does; recorded as a note, not a violation). Thresholds 3 / 70 are fixed in "
            "the specification, not read from the code.",
    "technique": "TLA+ spec shaped like execute's paths, TLC exhaustive; exhaustive sequence replay on real code; trace validation",
    "design_ref": "DESIGN.md §4.4 C36",
}
SPEC = "specs/Heartbeat"
PKG = "pkg/tbtc"
PATHS = ["StakingFailed", "Unstaking", "InvalidProposal", "BadExpiry", "SigningError", "Success",
         "LowNotYet", "LowUndetermined", "LowClaim"]


def _coverage(res):
    cov = {}
    for m in re.finditer(r"^<(\w+) line [^>]*>: (\d+):(\d+)", res.out, re.M):
        a, b = int(m.group(2)), int(m.group(3))
        old = cov.get(m.group(1), (0, 0))
        cov[m.group(1)] = (old[0] + a, old[1] + b)
    return cov


def run(ctx):
    # 1. the specification satisfies the property (exhaustive, bounded)
    mc = ctx.pick("MC_Rich", "MC_Rich_T")
    r = ctx.tlc(SPEC, "MC_Heartbeat", cfg=mc, coverage=True, label=mc, timeout=ctx.pick(600, 2400))
    cov = _coverage(r)
    missing = [a for a in PATHS if cov.get(a, (0, 0))[1] == 0]
    if missing:
        ctx.broken("vacuous model run %s: paths never taken: %s" % (mc, missing))
    # the strict reading of "consecutive" is not what the code documents: the model must refute it
    st = ctx.tlc(SPEC, "MC_Heartbeat", cfg="MC_Strict", label="MC_Strict", expect=("violation",))
    if st.violated != "StrictRun":
        ctx.broken("MC_Strict: expected StrictRun to be refuted, got %s" % st.violated)
    ctx.note("reading of 'consecutive': low activity, low activity, signing error, low activity claims (errors neither count "
             "nor reset, as documented in heartbeat.go); the strict reading is refuted by TLC on the model and is not asserted")
    # 2. every behaviour of the model, replayed on the real code
    gens = ctx.pick(["Gen_All1", "Gen_Rich2", "Gen_Core4"], ["Gen_All1", "Gen_Rich3", "Gen_Core5", "Gen_Small6"])
    inputs = {}
    names = ["behaviours_a.ndjson", "behaviours_b.ndjson", "behaviours_c.ndjson"]
    merged_c = []
    for i, gcfg in enumerate(gens):
        g = ctx.tlc(SPEC, "Gen_Heartbeat", cfg=gcfg, workers=1, label=gcfg, dump_trace=False, timeout=3000)
        bp = os.path.join(g.dir, "behaviours.ndjson")
        if not os.path.isfile(bp) or sum(1 for _ in open(bp)) < 10:
            ctx.broken("generation %s wrote too few behaviours" % gcfg)
        if i < 2:
            inputs[names[i]] = bp
        else:
            merged_c.append(bp)
    mp = os.path.join(ctx.scratch, "behaviours_c.ndjson")
    with open(mp, "w") as out:
        for p in merged_c:
            with open(p) as f:
                for line in f:
                    out.write(line)
    inputs[names[2]] = mp
    go = ctx.gotest(PKG, "^TestVerif_C36_(Replay|Trace)$", ["c36_test.go"], inputs=inputs,
                    env={"VERIF_RUNS": ctx.pick(30, 300), "VERIF_LEN": ctx.pick(40, 60)},
                    label="replay", timeout=ctx.pick(900, 3000))
    ctx.absorb(go)
    if go.reports:
        rp = go.reports.get("replay") or {}
        nb = int((rp.get("extra") or {}).get("behaviours", 0))
        claims = int((rp.get("counters") or {}).get("claims", 0))
        expected_claims = int((rp.get("counters") or {}).get("claims_expected", 0))
        if (nb < 40000 or expected_claims < 1000) and not ctx.violations:
            ctx.broken("replay covered only %d behaviours / %d executions in which the specification claims" % (nb, expected_claims))
        ctx.note("replayed %d execution sequences (%d executions, %d inactivity claims) on the real heartbeatAction" % (
            nb, int((rp.get("counters") or {}).get("executions", 0)), claims))
        ctx.extra["code_constants"] = (rp.get("extra") or {}).get("code_constants")
    # 3. long random runs validated against the specification
    if "trace" in go.reports:
        tp = ctx.trace_path(go, "trace_heartbeat")
        ok, tr = ctx.validate_trace(SPEC, "Trace_Heartbeat", tp, cfg="Trace_Heartbeat", label="Trace_Heartbeat",
                                    timeout=ctx.pick(900, 3000))
        lines = open(tp).read().splitlines()
        nruns = sum(1 for line in lines if '"Reset"' in line)
        if ok:
            ctx.traces_validated += nruns
        else:
            mh = re.findall(r'"VERIF_HWM",\s*(\d+)', tr.out)
            hw = int(mh[-1]) if mh else None
            if hw is None and tr.violated and tr.violated != "Postcondition":
                ctx.violation("trace:invariant:%s" % tr.violated,
                              "a recorded run of the real heartbeat action reaches a state violating %s" % tr.violated,
                              {"tlc": tr.out[-3000:]})
            else:
                bad = lines[hw - 1] if hw and hw <= len(lines) else "?"
                start = max([i for i in range(0, (hw or 1)) if '"Reset"' in lines[i]] or [0])
                ctx.violation("trace:Exec",
                              "a recorded execution of the real heartbeatAction.execute is not the behaviour the heartbeat "
                              "specification prescribes for its environment and counter state (line %s: %s)" % (hw, bad),
                              {"run": lines[start:(hw or 1)], "tlc": tr.out[-1500:]})
    return ctx.finish(
        level="model_checking",
        rule="TLC enumerates every sequence of heartbeat executions over two wallets (quick: 42 environments x length <= 3, "
             "12 x length <= 4; thorough: 12 x length <= 5, 8 x length <= 6) and every single execution over the full "
             "environment alphabet (1920) from every counter state 0..3 x 0..3; each is executed on the real "
             "heartbeatAction.execute with one shared real counter and compared after every execution; non-trivial = "
             "sequences of more than one execution or with a claim. Plus random runs of 40-60 executions over three wallets "
             "trace-validated.",
        assumptions=["signing executor, inactivity claim executor and staking-provider lookup are scripted fakes; eligible stake "
                     "and proposal validation are answered by the package's local chain",
                     "member sets are small (the threshold 70 is exercised with 69/70 active members, inactive sets of <= 5 members)",
                     "heartbeat executions of one node are sequential (wallet dispatcher), so no interleaving of executions is modelled"],
        exhaustive=True)
