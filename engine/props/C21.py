"""C21 — the firewall admits exactly allowlisted or recognized operators."""
META = {
    "level": "model_checking",
    "text": "TLC exhaustively checks a specification that mirrors anyApplicationPolicy.Validate statement by statement (allowlist, "
            "sweep of both time caches, positive hit, negative hit, applications asked in order with yes / no / error answers "
            "chosen per call, cache insertion) over all sequences of calls and clock ticks for 2 peers and 2 applications: an "
            "admission is always backed by the allowlist, a 'yes' within the positive period or a 'yes' in this call; a rejection "
            "without asking is backed by a complete round of 'no' within the negative period; an error never admits, never adds "
            "a cache entry and leaves no trace; the verdict is exactly the one the rules give. Variants that remember errors or "
            "never sweep violate the invariants. TLC-simulated behaviours (3 peers, allowlists, ticks) are replayed on the real "
            "policy with short real cache periods and scripted applications, comparing verdict, error kind, which applications "
            "were asked and both caches after every call.",
    "note": "Trusted: keep-common's TimeCache (Add stamps with time.Now, Sweep drops entries older than the period). Real time is "
            "unavoidable (TimeCache reads the wall clock): calls are made only inside the first 40% of a time unit and periods "
            "are (n + 1/2) units, so every age is at least 1/10 unit away from the period; a behaviour that missed a window is "
            "repeated with a larger unit and otherwise dropped as inconclusive. Concurrent Validate calls are not modelled.",
    "technique": "TLA+ spec shaped like Validate, TLC exhaustive + negative variants; simulated behaviours replayed on the real policy "
                 "in real time with guarded windows",
    "design_ref": "DESIGN.md §4.4 C21",
}
SPEC = "specs/Firewall"


def run(ctx):
    cfg = ctx.pick("MC_Firewall", "MC_Thorough")
    r = ctx.tlc(SPEC, "Firewall", cfg=cfg, coverage=True, label=cfg, timeout=ctx.pick(600, 3000))
    ctx.require_coverage(r, ["Tick", "Validate"], cfg)
    neg = {}
    for c in ("MC_ErrorCached", "MC_NoSweep"):
        v = ctx.tlc(SPEC, "Firewall", cfg=c, label=c, expect=("violation",), dump_trace=False)
        neg[c] = v.violated
    ctx.extra["negative_variants"] = neg
    num = ctx.pick(60, 600)
    g = ctx.tlc(SPEC, "Gen_Firewall", cfg="Gen_Firewall", mode="simulate", num=num, depth=40, workers=1,
                label="Gen_Firewall", dump_trace=False, timeout=1500)
    beh = ctx.read_emitted(g, "behaviours.ndjson")
    if len(beh) < num * 2 // 3:
        ctx.broken("behaviour generation produced only %d behaviours" % len(beh))
    # TLC's simulator emits every successor of the last-but-one state: keep three siblings of each trace
    import json, random
    rnd = random.Random(ctx.seed)
    groups = {}
    for b in beh:
        groups.setdefault(json.dumps(b["steps"][:-1], sort_keys=True) + json.dumps(b["allow"]), []).append(b)
    beh = [b for k in sorted(groups) for b in rnd.sample(groups[k], min(3, len(groups[k])))]
    # every branch of Validate must occur in what is replayed
    seen = set()
    for b in beh:
        for s in b["steps"]:
            if s["a"] == "Validate":
                seen.add((s["res"], s["src"]))
    need = {("admit", "allowlist"), ("admit", "poscache"), ("admit", "eval"), ("reject", "negcache"), ("reject", "eval"),
            ("error", "eval")}
    if need - seen:
        ctx.broken("generated behaviours never take the branches %s" % sorted(need - seen))
    go = ctx.gotest("pkg/firewall", "^TestVerif_C21_Replay$", ["c21_test.go"], inputs={"behaviours.ndjson": beh},
                    label="replay", timeout=ctx.pick(900, 3000))
    ctx.absorb(go)
    rep = go.reports.get("replay") or {}
    c = rep.get("counters") or {}
    ctx.note("replay: %d behaviours conclusive (%d calls compared), %d inconclusive (missed their time windows)" % (
        c.get("conclusive", 0), c.get("calls_compared", 0), c.get("inconclusive", 0)))
    if c.get("calls_asking_other_applications", 0):
        ctx.note("in %d calls the policy asked other applications than the specification does (verdicts and caches agree)" %
                 c.get("calls_asking_other_applications", 0))
    if not ctx.violations and c.get("conclusive", 0) < len(beh) // 2:
        ctx.broken("only %d of %d behaviours could be replayed inside their time windows (machine too busy)" % (
            c.get("conclusive", 0), len(beh)))
    return ctx.finish(
        level="model_checking",
        rule="TLC: every sequence of up to %s Validate calls and clock ticks, 2 peers x 2 applications x {yes,no,error} answers per "
             "call, every allowlist. Replay: TLC-simulated behaviours of 16 steps (3 peers, every third step a tick) on the real "
             "policy; non-trivial = behaviours with a cache hit or an application error." % ctx.pick("4", "6"),
        assumptions=["TimeCache semantics (keep-common) as read from its source: Add stamps with time.Now(), Sweep removes entries older than the period",
                     "calls are observed only inside the first 40% of a time unit; behaviours that missed a window are dropped, not judged",
                     "Validate calls are sequential (no concurrent validation of the same peer)"],
        exhaustive=False)
