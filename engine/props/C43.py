"""C43 — the difficulty relay maintainer proves each epoch once with the right headers."""
META = {
    "level": "model_checking",
    "text": "The maintainer's control loop (startControlLoop / proveEpochs / verifySubmissionEligibility / proveNextEpoch / "
            "getBlockHeaders / waitForCurrentEpochUpdate) is specified query by query and interleaved with an adversarial "
            "environment: Bitcoin blocks mined at any moment, another maintainer retargeting first, a lagging view of the relay "
            "epoch, proof-length / readiness / authorization changes, failing queries and rejected submissions. TLC checks "
            "exhaustively that every submission is for relay epoch + 1, carries exactly the proof-length headers around the epoch's "
            "first block, all mined, only in a run that verified readiness and the authorization of the configured entry point, "
            "that a run moves on only after it saw the relay reach the proven epoch, and (liveness) that a provable epoch gets "
            "proven. TLC-simulated behaviours are replayed in lock-step on the real control loop through scripted chains whose "
            "every query parks until the driver reaches the corresponding step.",
    "note": "Trusted: the relay's acceptance rule in the scripted chain; Bitcoin reorganisations are not modelled; the epoch "
            "length is scaled (model 8, mapped to 2016 around epoch boundaries). The order of the three reads of proveNextEpoch "
            "is part of the lock-step comparison.",
    "technique": "TLA+ spec shaped like the control loop, TLC exhaustive (safety + liveness); simulated behaviours replayed in lock-step on the real loop",
    "design_ref": "DESIGN.md §4.7 C43",
}
SPEC = "specs/DifficultyMaintainer"
PKG = "pkg/maintainer/btcdiff"
MAINT = ["QueryReady", "QueryAuth", "QueryHeight", "QueryEpoch", "QueryProofLen", "FetchHeaders", "Submit", "PollEpoch",
         "IdleDone", "BackoffDone"]
ENVA = ["Mine", "OtherRetarget", "Propagate", "EnvChange"]


def run(ctx):
    mc = ctx.pick("MC_Quick", "MC_Full")
    r = ctx.tlc(SPEC, "DifficultyMaintainer", cfg=mc, coverage=True, label=mc, timeout=ctx.pick(900, 3000))
    ctx.require_coverage(r, MAINT + ENVA, mc)
    if ctx.thorough:
        ctx.tlc(SPEC, "DifficultyMaintainer", cfg="MC_Live", label="MC_Live", timeout=2400)
        g = ctx.tlc(SPEC, "DifficultyMaintainer", cfg="MC_LiveGuard", label="MC_LiveGuard", expect=("violation",), timeout=900)
        if g.violated != "NeverProvable":
            ctx.broken("liveness vacuity guard: expected NeverProvable to be violated, got %s" % g.violated)
    beh = []
    for cfg, num in (("Gen_Eligible", ctx.pick(150, 1500)), ("Gen_Races", ctx.pick(150, 1500)), ("Gen_Any", ctx.pick(100, 800))):
        g = ctx.tlc(SPEC, "Gen_DifficultyMaintainer", cfg=cfg, mode="simulate", num=num, depth=80, workers=1,
                    label=cfg, dump_trace=False, timeout=ctx.pick(600, 2400))
        b = ctx.read_emitted(g, "behaviours.ndjson")
        if len(b) < num // 4:
            ctx.broken("%s produced only %d behaviours" % (cfg, len(b)))
        beh += b
    acts = {}
    for b in beh:
        for s in b["steps"]:
            acts[s["a"]] = acts.get(s["a"], 0) + 1
            if s["fault"]:
                acts["fault:" + s["a"]] = acts.get("fault:" + s["a"], 0) + 1
            if s["a"] == "Submit":
                k = "Submit:accepted" if s["ok"] else ("Submit:failed" if s["fault"] else "Submit:rejected")
                acts[k] = acts.get(k, 0) + 1
            if s["a"] == "PollEpoch" and s["pc"] == "wait":
                acts["PollEpoch:stale"] = acts.get("PollEpoch:stale", 0) + 1
    need = MAINT + ENVA + ["Submit:accepted", "Submit:rejected", "PollEpoch:stale", "fault:FetchHeaders", "fault:QueryEpoch",
                           "fault:QueryHeight", "fault:QueryProofLen", "fault:QueryAuth", "fault:QueryReady"]
    missing = [a for a in need if acts.get(a, 0) == 0]
    if missing:
        ctx.broken("generated behaviours never take: %s" % missing)
    ctx.extra["replay_actions"] = acts
    ctx.note("replay set: %d behaviours, %d steps, %d submissions (%d accepted)" % (
        len(beh), sum(v for k, v in acts.items() if ":" not in k), acts.get("Submit", 0), acts.get("Submit:accepted", 0)))
    go = ctx.gotest(PKG, "^TestVerif_C43_", ["c43_test.go"], inputs={"behaviours.ndjson": beh}, label="replay",
                    env={"VERIF_WORKERS": 8}, timeout=ctx.pick(900, 3000))
    ctx.absorb(go, require_evals=len(beh))
    return ctx.finish(
        level="model_checking",
        rule="TLC: every interleaving of the maintainer's queries with the environment within the bounds of MC_*.cfg. Replay: "
             "TLC-simulated behaviours (eligible start; environment changes biased between the reads and the submission; arbitrary "
             "start with more failures) stepped on the real startControlLoop; after every maintainer step the issued query, the "
             "fetched header heights and the submitted method/headers are compared; non-trivial = behaviours with a submission",
        assumptions=["the scripted relay accepts a retarget iff ready, the caller is authorized for the entry point, the epoch is "
                     "relay epoch + 1 and the proof length matches",
                     "model epoch length 8 mapped to 2016 preserving distances to epoch boundaries; back-off times 1 ms",
                     "no Bitcoin reorganisation while the maintainer runs"],
        exhaustive=False)
