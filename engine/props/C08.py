"""C08 — tECDSA signing: any honest quorum of the final group signs validly; stored indices map to key-generation identities."""
import random

META = {
    "level": "model_checking",
    "text": "TLC exhaustively checks the index/identity pipeline between tECDSA key generation and signing (exclusion marking, "
            "TSS party identities seed+member, the key share's sorted Ks, registerSigner/finalSigningGroup index shift, the signing "
            "attempt's selected final indices, the signing converter Ks[index-1]) for groups of 3..7 seats, every exclusion set and "
            "every selected signer set: the stored index maps to the key-generation party, final indices are gap-free, every honest "
            "quorum is a consistent TSS signing set; the unshifted variant is refuted by TLC as a negative control. Every terminal "
            "state is replayed on the real code of all stages (dkg member set-up, registerSigner -> registry -> storage -> reload, "
            "signing member set-up incl. tss-lib's key-subset construction) and the property is evaluated on values that all come "
            "from real code. TLC-chosen (exclusion set, signer set) pairs of the 3-of-5 fixture group are then signed for real with "
            "signing.Execute over local channels (ecdsa.Verify under the wallet key, low S, equal signatures); the thorough tier also "
            "runs a real key generation with an excluded member and signs with its shares. A second model (specs/SigningMachine) "
            "describes signing as one message-driven machine per signer under per-receiver delivery orders with once-only delivery: "
            "every state but the last keeps an admitted message of any type in the shared history (EarlyRetained), every quorum "
            "completes under fairness; the variant whose silent symmetric-key state ignores messages is refuted; the retention "
            "table and simulated behaviours are replayed on the real state chain and a TLC-steered skewed schedule (round-one "
            "messages arriving while the receiver is in the silent state) is signed for real. The parameter derivation of "
            "signingExecutor.sign (protocol group = stored wallet) is a spec action with invariant NoPhantomMembers (nominal-size "
            "variant refuted) and is bound by running the real signingExecutor.sign of a node for wallets smaller than the nominal "
            "group, observing on the wire which members the protocol expects. The quantifier (all exclusion sets x all "
            "quorums) is an enumeration, hence model checking.",
    "note": "Trusted: tss-lib's cryptography (keygen saves Ks = sorted party keys and ShareID = own key -- checked on the fixtures "
            "and on the real key generation of the thorough tier); in the quick tier key shares of a group with excluded members are "
            "the repository's fixture shares restricted to the operating seats (structurally what such a key generation saves); "
            "only a handful of quorums are signed for real, the rest is decided on the set-up of the TSS parties.",
    "technique": "TLA+ pipeline spec + hazard variant, TLC exhaustive; case replay across pkg/tecdsa/dkg, pkg/tbtc, pkg/tecdsa/signing; real signing runs",
    "design_ref": "DESIGN.md §4.1 C08",
}
SPEC = "specs/SigningGroup"
MSPEC = "specs/SigningMachine"
PKG = "pkg/tbtc"
ACTIONS = ["DoSelectExcluded", "DoMarkExcluded", "DoBuildKeygenParty", "KeygenCompletes", "DoRegister", "NoWallet",
           "DoChooseSigners", "DeriveParameters", "DoBuildSigningParty", "SignCompletes"]
OVERLAY = {"pkg/tecdsa/dkg/zz_verif_c08_export.go": "pkg/tecdsa/dkg/c08_export.go",
           "pkg/tecdsa/signing/zz_verif_c08_export.go": "pkg/tecdsa/signing/c08_export.go"}


def _shifted(c):
    """selected signers whose final index differs from their key-generation index"""
    return sum(1 for m in c["members"] if m["selected"] and m["idx"] != m["m"])


def _runs(cases, k, rnd):
    """choose k (exclusion set, signer set) pairs of the 3-of-5 fixture group for real signing:
    A = one seat excluded, exactly-threshold signer set with >= 2 shifted signers (one final index stays unselected),
    B = two seats excluded (quorum 3), C = everything else (no exclusion, larger signer sets)."""
    pool = [c for c in cases if c["n"] == 5 and c["h"] == 3 and c["outcome"] == "valid"]
    a = [c for c in pool if len(c["excluded"]) == 1 and len(c["signers"]) == 3 and _shifted(c) >= 2]
    b = [c for c in pool if len(c["excluded"]) == 2]
    ids = set(id(c) for c in a + b)
    rest = [c for c in pool if id(c) not in ids]
    for lst in (a, b, rest):
        rnd.shuffle(lst)
    na, nb = max(1, (5 * k) // 12), max(1, k // 4)
    # distinct exclusion sets first
    def spread(lst, n):
        out, seen = [], set()
        for c in lst:
            if tuple(c["excluded"]) not in seen and len(out) < n:
                seen.add(tuple(c["excluded"]))
                out.append(c)
        for c in lst:
            if len(out) < n and not any(c is o for o in out):
                out.append(c)
        return out
    out = spread(a, na) + spread(b, nb)
    out += rest[:max(0, k - len(out))]
    runs = []
    for c in out:
        g = 5 - len(c["excluded"])
        unsel = [f for f in range(1, g + 1) if f not in c["signers"]]
        intr = unsel                           # every unselected signer runs too (and must be ignored)
        runs.append({"n": 5, "h": 3, "quorum": c["quorum"], "excluded": c["excluded"], "signers": c["signers"],
                     "intruders": intr})
    return runs


def _gotest(ctx, pkgdirs, *a, **kw):
    """ctx.gotest, but a crash of the test binary whose goroutine stack goes through keep-core's protocol code (below a
    third-party frame such as tss-lib, which the engine's own culprit detection does not look through) is reported as a
    violation: the node would crash on that behaviour."""
    import re
    try:
        return ctx.gotest(*a, **kw)
    except Exception as ex:
        txt = str(ex)
        if type(ex).__name__ != "Broken" or "panic:" not in txt:
            raise
        seg = txt[txt.index("panic:"):]
        for m in re.finditer(r"^\s+(/\S+\.go):(\d+)", seg, re.M):
            f = m.group(1)
            if "zz_verif_" in f or "/verif/harness/" in f or "verifkit" in f:
                break
            if any(("/" + d + "/") in f for d in pkgdirs) and "_test.go" not in f:
                ctx.violation("panic:" + f.split("/")[-1], "keep-core protocol code crashed the process while a specification behaviour "
                              "was executed (%s:%s)" % (f, m.group(2)), {"output": seg[:3000]})
                return None
        raise


def run(ctx):
    rnd = random.Random(ctx.seed)
    # 1. the hazard variant (registerSigner keeps the key-generation index) is refuted: the invariants bite
    hz = ctx.tlc(SPEC, "MC_SigningGroup", cfg="MC_Hazard", label="MC_Hazard", expect=("violation",))
    if hz.violated != "PartyMatchesKeygen":
        ctx.broken("MC_Hazard: expected PartyMatchesKeygen to be violated, got %s" % hz.violated)
    if ctx.thorough:
        hz = ctx.tlc(SPEC, "MC_SigningGroup", cfg="MC_HazardSign", label="MC_HazardSign", expect=("violation",))
        if hz.violated != "QuorumSigns":
            ctx.broken("MC_HazardSign: expected QuorumSigns to be violated, got %s" % hz.violated)
    hz = ctx.tlc(SPEC, "MC_SigningGroup", cfg="MC_HazardNominal", label="MC_HazardNominal", expect=("violation",))
    if hz.violated != "NoPhantomMembers":
        ctx.broken("MC_HazardNominal: expected NoPhantomMembers to be violated, got %s" % hz.violated)
    if ctx.thorough:
        hz = ctx.tlc(SPEC, "MC_SigningGroup", cfg="MC_HazardNominalSign", label="MC_HazardNominalSign", expect=("violation",))
        if hz.violated != "QuorumSigns":
            ctx.broken("MC_HazardNominalSign: expected QuorumSigns to be violated, got %s" % hz.violated)
    # 2. the pipeline model satisfies every invariant (exhaustive) and emits every terminal state
    gcfg = ctx.pick("Gen_Quick", "Gen_Thorough")
    g = ctx.tlc(SPEC, "Gen_SigningGroup", cfg=gcfg, workers=1, coverage=True, label=gcfg, dump_trace=False,
                timeout=ctx.pick(900, 3000))
    ctx.require_coverage(g, ACTIONS, gcfg)
    cases = ctx.read_emitted(g, "cases.ndjson")
    if len(cases) < ctx.pick(100, 1000):
        ctx.broken("case generation %s produced only %d terminal states" % (gcfg, len(cases)))
    nshift = sum(1 for c in cases if _shifted(c))
    nowallet = sum(1 for c in cases if c["outcome"] == "nowallet")
    ctx.note("terminal states: %d (%d with shifted signers, %d below the group quorum)" % (len(cases), nshift, nowallet))
    if nshift < 30 or nowallet < 5:
        ctx.broken("case set lacks shifted / below-quorum cases")
    if any(c["outcome"] not in ("valid", "nowallet") for c in cases):
        ctx.broken("model emitted a terminal state that is neither valid nor nowallet")
    # 2b. the signing protocol as a message-driven machine under per-receiver delivery orders: early messages are retained
    #     by every state (EarlyRetained), every honest quorum completes under fairness (Completes); the variant in which the
    #     silent symmetric-key state ignores messages is refuted on both
    MALL = ["DoStart", "DoInitiate", "DoTransition", "DoFinish", "DoDeliver"]
    for cfg in ctx.pick(["MC_S2"], ["MC_S2", "MC_S3"]):   # MC_S2intruder (4.6 M states, ~10 min) is kept for manual runs
        r = ctx.tlc(MSPEC, "MC_SigningMachine", cfg=cfg, coverage=True, label=cfg, timeout=ctx.pick(900, 3000))
        ctx.require_coverage(r, MALL + (["DoDeliverDup", "DoDeliverForged"] if cfg == "MC_S2" else []), cfg)
    ctx.tlc(MSPEC, "MC_SigningMachine", cfg="MC_Live", label="MC_Live", timeout=1500)
    hz = ctx.tlc(MSPEC, "MC_SigningMachine", cfg="MC_HzSilent", label="MC_HzSilent", expect=("violation",))
    if hz.violated != "EarlyRetained":
        ctx.broken("MC_HzSilent: expected EarlyRetained to be violated, got %s" % hz.violated)
    hz = ctx.tlc(MSPEC, "MC_SigningMachine", cfg="MC_HzSilentLive", label="MC_HzSilentLive", expect=("violation",))
    if hz.violated != "TemporalProperty":
        ctx.broken("MC_HzSilentLive: expected Completes to be violated, got %s" % hz.violated)
    sbeh, retention, skewed = [], [], []
    for cfg, num in ctx.pick([("Gen_S3of4", 12), ("Gen_Real", 4)], [("Gen_S3of4", 60), ("Gen_S3of5", 40), ("Gen_Real", 12)]):
        cfg_text = None
        if cfg == "Gen_Real":
            # steer one seeded signer's schedule (see Gen_SigningMachine.Skew)
            import os
            cfg_text = open(os.path.join(os.path.dirname(__file__), "..", "..", MSPEC, "Gen_Real.cfg")).read().replace(
                "Skew = 2", "Skew = %d" % rnd.choice([1, 2, 4]))
        gm = ctx.tlc(MSPEC, "Gen_SigningMachine", cfg=None if cfg_text else cfg, cfg_text=cfg_text, mode="simulate", num=num, depth=900, workers=1, label=cfg,
                     dump_trace=False, timeout=ctx.pick(900, 3000))
        got = ctx.read_emitted(gm, "sbehaviours.ndjson")
        if len(got) < num // 2:
            ctx.broken("simulation %s emitted only %d behaviours for %d traces" % (cfg, len(got), num))
        rt = ctx.read_emitted(gm, "retention.ndjson")
        if len(rt) != 1 or len(rt[0]["table"]) != 120:
            ctx.broken("simulation %s did not emit the 12 x 10 retention table" % cfg)
        if cfg == "Gen_Real":
            skewed = got
        else:
            sbeh += got
            retention = retention or rt

    def _silent(b):
        """per receiver: peers' round-one messages handed over while the receiver is in the silent symmetric-key state"""
        per = {}
        for st in b["steps"]:
            if st["a"] == "Deliver" and st["at"] == 2 and st["kind"] == "genuine" and st["m"]["t"] == 3:
                per[st["i"]] = per.get(st["i"], 0) + 1
        return max(per.values()) if per else 0
    nsil = sum(1 for b in sbeh for st in b["steps"] if st["a"] == "Deliver" and st["at"] == 2 and st["kind"] == "genuine")
    ctx.note("signing machine behaviours: %d (%d deliveries in the silent state)" % (len(sbeh), nsil))
    if nsil < 5:
        ctx.broken("generated signing behaviours lack deliveries in the silent state")
    skewed.sort(key=lambda b: -_silent(b))
    skewed = skewed[:ctx.pick(1, 3)]
    if not skewed or _silent(skewed[0]) < 2:
        ctx.broken("no generated behaviour hands both peers' round-one messages to a signer in its silent state")
    ctx.note("skewed real runs: %s" % [_silent(b) for b in skewed])
    # 3. every case on the real code of all stages + real signing of chosen quorums (one test binary)
    runs = _runs(cases, ctx.pick(3, 12), rnd)
    if not any(r["intruders"] for r in runs):
        ctx.broken("no real signing run with unselected signers")
    ctx.note("real signing runs: %s" % [(r["excluded"], r["signers"], r["intruders"]) for r in runs])
    # the wallets driven through the real signingExecutor.sign: stored group smaller than the nominal size
    ex1 = [[e] for e in range(1, 6)]
    rnd.shuffle(ex1)
    executor_runs = [{"n": 5, "h": 3, "quorum": 4, "excluded": e} for e in ex1[:ctx.pick(1, 2)]]
    if ctx.thorough:
        executor_runs.append({"n": 5, "h": 3, "quorum": 3, "excluded": sorted(rnd.sample(range(1, 6), 2))})
    inputs = {"cases.ndjson": cases, "runs.ndjson": runs, "sbehaviours.ndjson": sbeh, "retention.ndjson": retention,
              "skewed.ndjson": skewed, "executor.ndjson": executor_runs}
    tests = "^TestVerif_C08_(Pipeline|Machine|Sign|Skewed|Executor)$"
    if ctx.thorough:
        excl = rnd.choice([[1], [2], [3], [4], [5]])
        ops = [m for m in range(1, 6) if m not in excl]
        # final indices 1..4; quorums chosen so that every final index signs at least once
        sets = [[1, 2, 3], [2, 3, 4], [1, 3, 4]]
        inputs["keygenruns.ndjson"] = [{"n": 5, "h": 3, "quorum": 4, "excluded": excl, "operating": ops, "signerSets": sets}]
        tests = "^TestVerif_C08_(Pipeline|Machine|Sign|Skewed|Executor|KeygenSign)$"
    go = _gotest(ctx, ["pkg/tecdsa/signing", "pkg/tecdsa/dkg", "pkg/tbtc", "pkg/protocol/state"], PKG, tests, ["c08_test.go", "c08_machine_test.go", "c08_executor_test.go"], inputs=inputs, extra_overlay=OVERLAY, label="c08",
                    env={"VERIF_SIGN_BUDGET_S": ctx.pick(420, 900), "VERIF_KEYGEN_BUDGET_S": 1500},
                    timeout=ctx.pick(1500, 5400))
    if go is not None:
        ctx.absorb(go)
    want = {"pipeline", "machine", "sign", "skewed", "executor"} | ({"keygensign"} if ctx.thorough else set())
    if go is not None and set(go.reports) != want and not ctx.violations:
        ctx.broken("harness reports missing: %s" % sorted(go.reports))
    if not ctx.violations:
        h = ctx.extra.get("harness", {})
        pc = (h.get("pipeline", {}).get("counters") or {})
        for need in ("keygen_members", "register_calls", "register_rejected", "signing_members"):
            if not pc.get(need):
                ctx.broken("pipeline replay never exercised %s" % need)
        if (h.get("sign", {}).get("counters") or {}).get("real_signings", 0) < len(runs):
            ctx.broken("fewer real signing runs than requested")
        mc = (h.get("machine", {}).get("counters") or {})
        if mc.get("retention_cells", 0) < 120 or mc.get("silent_state_deliveries", 0) < 5 or not mc.get("early_deliveries"):
            ctx.broken("machine replay did not cover the retention table / silent-state deliveries: %s" % mc)
        sk = (h.get("skewed", {}).get("counters") or {})
        if sk.get("real_signings", 0) < len(skewed) or sk.get("silent_window_deliveries", 0) < 2:
            ctx.broken("the skewed real signing run did not hand the round-one messages over in the silent state: %s" % sk)
        xc = (h.get("executor", {}).get("counters") or {})
        if xc.get("real_executor_signings", 0) < len(executor_runs) or not xc.get("attempts_checked") or not xc.get("ephemeral_messages"):
            ctx.broken("the real signingExecutor.sign runs did not complete / were not observed: %s" % xc)
        if ctx.thorough and (h.get("keygensign", {}).get("counters") or {}).get("real_keygens", 0) < 1:
            ctx.broken("the real key generation did not run")
    return ctx.finish(
        level="model_checking",
        rule="every terminal state of the pipeline model for group parameters (N,H,Quorum) in {(3,2,2),(4,3,3),(5,3,4),(5,3,3)} "
             "(thorough: + (6,4,5),(6,4,4),(7,4,6),(7,4,4),(7,5,5)): all exclusion sets leaving >= H seats x all signer sets of "
             ">= H final indices, each realized with seed 200 and a random 256-bit seed on the real dkg / tbtc / signing code; "
             "non-trivial = cases in which a selected signer's final index differs from its key-generation index. Real signing: "
             "1 (quick) / 9 (thorough) TLC-chosen (exclusion set, exactly-threshold signer set) pairs of the 3-of-5 fixture group, "
             "random messages; thorough: + one real key generation with an excluded seat followed by 3 signer sets covering every "
             "final index, and one run with an unselected signer intruding.",
        assumptions=["tss-lib keygen saves Ks = ascending party keys and ShareID = own key (checked on fixtures; observed in the thorough tier)",
                     "fixture shares restricted to the operating seats stand for the shares of a key generation without the excluded seats (quick tier)",
                     "tss-lib signing is correct for consistent party sets (exercised, not modelled)",
                     "the marking loops of dkg.Execute / signing.Execute are copied in the set-up exports; the real loops run in the real Execute runs only",
                     "a real run that exceeds its time budget makes the check exit 2, never 1"],
        exhaustive=True)
