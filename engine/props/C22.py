"""C22 — coordination leader and action checklist are the same on every member."""
META = {
    "level": "model_checking",
    "text": "The TLA+ module specifies getSeed / getLeader / getActionsChecklist with the results of SHA-256 and math/rand as hidden choices "
            "(one seed per (wallet, safe block hash), one leader rank per (seed, number of unique operators), one heartbeat draw per seed); "
            "TLC checks on all pairs of calls that the leader is an operator, is invariant under permutation and repetition of the operator "
            "list and of the calls served before by the (long-lived) executor instance, that the checklist has the coded shape and order and "
            "that the window index arithmetic is right, and that a checklist / allowed-actions slice held by a caller never changes afterwards and "
            "depends on its seed and window only while several wallets' executors interleave in one process (heap of backing arrays; hazard grain "
            "of shared package-level arrays refuted by TLC); a hazard grain (cached operator list shuffled in place) shows the history dependence "
            "in the model. The call history of the real functions on three members that each keep ONE executor per wallet and view for the "
            "whole run and serve the seeds in different orders and subsets (plus fresh-executor controls), for operator lists (length <= 4 over 4 operators) and window enumerated by TLC and many "
            "concrete wallets / block hashes, is validated by TLC against the same module: one hidden choice must explain all calls.",
    "note": "Trusted: the order-preserving mapping of model operators to concrete addresses. Not modelled: the PRNG itself (any fixed "
            "permutation per seed is accepted), that only seed[:8] feeds the PRNG, the 1/16 heartbeat probability.",
    "technique": "TLA+ spec with hidden choices, TLC exhaustive on call pairs; TLC-enumerated inputs run on real code; call-history trace validation (TLC infers the hidden choices)",
    "design_ref": "DESIGN.md §4.5 C22",
}
SPEC = "specs/Coordination"
PKG = "pkg/tbtc"


def run(ctx):
    import json
    import re
    for cfg in ctx.pick(["MC_Coordination"], ["MC_Coordination_T", "MC_Coordination3_T"]):
        r = ctx.tlc(SPEC, "Coordination", cfg=cfg, coverage=True, label=cfg, timeout=2400)
        ctx.require_coverage(r, ["NewExecutor", "GetSeed", "GetSeedFails", "GetLeader", "GetChecklist", "DoAppendNoop"], cfg)
    # hazard grain (an executor that caches its operator list and shuffles it in place): the model must
    # show the history dependence, otherwise LeaderHistoryIndependent / LeaderIdempotent are vacuous
    hz = ctx.tlc(SPEC, "Coordination", cfg="MC_Hazard", label="MC_Hazard", expect=("violation",), dump_trace=False)
    if hz.violated != "LeaderHistoryIndependent":
        ctx.broken("hazard model violated %s instead of LeaderHistoryIndependent" % hz.violated)
    # hazard grain of precomputed package-level checklists returned by reference (shared backing array)
    hz = ctx.tlc(SPEC, "Coordination", cfg="MC_HazardShared", label="MC_HazardShared", expect=("violation",), dump_trace=False)
    if hz.violated != "ChecklistStable":
        ctx.broken("shared-array hazard model violated %s instead of ChecklistStable" % hz.violated)
    if ctx.thorough:
        hz = ctx.tlc(SPEC, "Coordination", cfg="MC_HazardIdem", label="MC_HazardIdem", expect=("violation",), dump_trace=False)
        if hz.violated != "LeaderIdempotent":
            ctx.broken("hazard model violated %s instead of LeaderIdempotent" % hz.violated)
    g = ctx.tlc(SPEC, "Gen_Coordination", cfg="Gen_Coordination", workers=1, label="Gen_Coordination", dump_trace=False)
    cases = ctx.read_emitted(g, "cases.ndjson")
    if len(cases) != 340 + 17:
        ctx.broken("expected 357 generated cases, got %d" % len(cases))
    go = ctx.gotest(PKG, "^TestVerif_C22_", ["c22_test.go", "c22_coordinate_test.go"], inputs={"cases.ndjson": cases},
                    env={"VERIF_SEEDS": ctx.pick(24, 100), "VERIF_HB_SEEDS": ctx.pick(4, 16),
                         "VERIF_VIEWS": ctx.pick(6, 10), "VERIF_TWO_WALLETS": ctx.pick(6, 40)},
                    label="coordination", timeout=ctx.pick(900, 3000))
    ctx.absorb(go)
    for name in ("calls", "twowallets"):
        if name not in go.reports:
            ctx.broken("harness report %s missing" % name)
    cnt = go.reports["calls"].get("counters") or {}
    if cnt.get("kept_slices", 0) < 200 and not ctx.violations:
        ctx.broken("too few checklists kept for the aliasing check: %s" % cnt.get("kept_slices"))
    if (cnt.get("heartbeat_seeds", 0) < 1 or cnt.get("seeds", 0) < 10) and not ctx.violations:
        ctx.broken("seed selection too small: %s" % {k: cnt.get(k) for k in ("seeds", "heartbeat_seeds")})
    if cnt.get("executors", 0) < 20 and not ctx.violations:
        ctx.broken("too few long-lived executors: %s" % cnt.get("executors"))
    ranks = sorted(k for k in cnt if k.startswith("rank_"))
    ctx.note("leader ranks observed: %s" % ", ".join("%s x%d" % (k, cnt[k]) for k in ranks))
    varied = [n for n in (2, 3, 4) if len([k for k in ranks if k.endswith("_of_%d" % n)]) >= 2]
    if not varied and not ctx.violations:
        ctx.broken("the leader rank never varied between seeds: hidden choice not exercised")
    tp = ctx.trace_path(go, "trace_coordination")
    # (ctx.validate_trace without TLC checkpointing: the StateDeque queue cannot be checkpointed and a long
    #  validation on a loaded machine reaches TLC's 30 minute checkpoint interval)
    lines = open(tp).read().splitlines()
    tr = ctx.tlc(SPEC, "Trace_Coordination", cfg="Trace_Coordination", mode="bfs", workers=1, timeout=ctx.pick(1500, 3300),
                 dump_trace=False, label="Trace_Coordination", expect=("ok", "violation"),
                 files={"trace.ndjson": tp}, view_queue=True, extra_args=["-checkpoint", "0"])
    ok = tr.ok
    if ok:
        ctx.trace_events += len(lines)
    if ok:
        ctx.traces_validated += sum(1 for ln in lines if '"Reset"' in ln)
    elif tr.violated and tr.violated != "Postcondition":
        ctx.violation("trace:invariant:" + tr.violated,
                      "the recorded call history of getSeed/getLeader/getActionsChecklist violates %s" % tr.violated,
                      {"tlc": tr.out[-3000:]})
    else:
        mh = re.findall(r'"VERIF_HWM",\s*(\d+)', tr.out)
        hw = int(mh[-1]) if mh else 1
        rejected = json.loads(lines[hw - 1]) if hw <= len(lines) else {}
        ctx.violation("trace:" + str(rejected.get("event", "?")),
                      "the recorded call history cannot be explained by one hidden choice per seed / operator-set size "
                      "(rejected at line %d: %s)" % (hw, lines[hw - 1][:400] if hw <= len(lines) else "?"),
                      {"trace_window": lines[max(0, hw - 25):hw + 2], "tlc": tr.out[-1500:]})
    return ctx.finish(
        level="model_checking",
        rule="3 members x 4 wallets, each member with one long-lived executor per (wallet, view) for the whole run (quick ~12, thorough ~20-60 "
             "views per wallet drawn from the TLC-enumerated operator lists of length <= 4 over 4 operators, always with a second view of the "
             "same set); seeds (quick 24, thorough 100 wallet x block-hash pairs, 4 / 16 with a heartbeat draw) served in order by member 0, "
             "reversed by member 1, as a shuffled 2/3 subset by member 2; every 5th question asked twice; fresh-executor controls (thorough: all "
             "340 lists on fresh executors for 2 seeds); getSeed on 2 blocks carrying the hash plus a block without hash; getActionsChecklist for "
             "17 blocks, every returned checklist (and, for every other one, the allowed-actions slice append(checklist, Noop) as coordinate() builds it) "
             "kept and ALL of them re-read after every later call on any executor; plus the real coordinate() of one node following two wallets at "
             "windows with index divisible by 4 whose seeds draw the heartbeat differently (quick 6, thorough 40 block hashes x both start orders); non-trivial = repeated / unsorted list, a call on an executor that already served calls, window index > 0",
        assumptions=["model operators are mapped order-preservingly to concrete addresses (getLeader sorts by address string)",
                     "SHA-256 is treated as injective on the inputs used",
                     "any fixed PRNG outcome per seed is accepted; the distribution (uniform leader, 1/16 heartbeat) is not checked"],
        exhaustive=False)
