"""XNP — composition of the libp2p message path (handshake -> firewall -> envelope -> delivery -> retransmission).

Not a listed property: a composition specification promised by DESIGN.md section 7. It stays disabled in META so
that it never enters MANIFEST.json; `./vcheck XNP [--tier thorough]` runs it.
"""
import concurrent.futures
import json
import os
import re
import threading

META = {
    "disabled": True,
    "level": "model_checking",
    "text": "TLC checks a composition specification (specs/NetPath) that instantiates the per-property modules Handshake, Firewall "
            "(one instance per honest node over one clock and one chain state), Envelope, Broadcast and Retransmission (one "
            "instance per message on one ticker) and wires them the way libp2p.go, transport.go, authenticated_connection.go, "
            "channel.go and channel_manager.go wire the code: three peers (honest receiver with the handlers, honest sender that "
            "also relays, adversary that may or may not be a recognized operator), connections, watchtower re-validation, floodsub "
            "relaying, impostor / malformed / replayed / forged envelopes, retransmissions, cancellation of a Send context and of a "
            "handler context, recognition changing over time. System-level invariants no module states: a connection that carries "
            "data belongs to an authenticated identity the firewall admitted at connection time or at a guard round (allowlisted, or "
            "recognized at most one positive caching period before); whatever reaches the receiver's channel came over such a "
            "connection; an identity no honest firewall ever admitted gets nothing read, queued or delivered however well-formed its "
            "envelopes; nothing is attributed to a sender that did not write it; at most once per (sender, seqno) across "
            "retransmissions, relays, replays and reconnects; nothing after a handler's context ended; the sender stops with its "
            "context; under fairness what a live handler's queue accepted reaches it. Seven negative configurations (glue broken on "
            "purpose, or an over-strong reading) are refuted. Real executions - two real providers made by Connect() and an adversary "
            "host built from the package's own transport, over loopback TCP, with the real firewall policy, real channels and a "
            "hand-fed ticker - are recorded from wrappers and fakes only and trace-validated against the composition.",
    "note": "The per-node reading 'R delivers only what peers R itself admitted wrote' does not hold (floodsub relays: MC_NegRelay, and "
            "the relay scenario of the harness): the claim is about identities no honest node admitted. Exhaustive bounds are small "
            "(one or two messages, one or two handlers, a handful of ticks / clock values); larger configurations are simulated. The "
            "TLS layer below the keep handshake and the pubsub seen-cache are not modelled (both abstractions are on the safe side). "
            "Trace validation explains every recorded Delivered / Arrived / Published / Retransmit / FirewallVerdict; absence of "
            "events is never judged.",
    "technique": "TLA+ composition by INSTANCE of the per-property modules, TLC exhaustive + simulation + negative variants + liveness; "
                 "trace validation of real multi-provider executions",
    "design_ref": "DESIGN.md §7 (libp2p path composition)",
}
SPEC = "specs/NetPath"
# Envelope.tla and Broadcast.tla are copies kept in specs/NetPath (their owners were still editing them)
MODULES = ["specs/Handshake/Handshake.tla", "specs/Firewall/Firewall.tla", "specs/Retransmission/Retransmission.tla"]
CONTROL = ["DoTick", "DoChainChange", "DoAdvHandshake", "DoFwCheckAdv", "DoGuard", "DoAdvInject", "DoNetRead", "DoProcess"]
SESSION = ["DoStartDial", "DoHsStep", "DoSessFwI", "DoSessFwR", "DoSessEnd"]
DATA = ["DoSendS", "DoNetRead", "DoProcess", "TrySend", "Register", "Dequeue", "CheckCtx", "FilterDup", "Invoke", "Return"]
RETX = ["DoTickAll", "DoCallback", "DoCancelSend", "CancelHandler", "RemoveHandler", "ExitOnDone"]

NEGATIVES = {
    # cfg: (what is broken, the invariant TLC must refute)
    "MC_NegNoFirewall": "inbound connections skip checkFirewallRules",
    "MC_NegNoVerify": "act 1 is not verified against the claimed peer id",
    "MC_NegNoMatch": "outer and inner sender are not compared",
    "MC_NegNoSign": "pubsub does not insist on signatures",
    "MC_NegRelay": "(no defect) the per-node reading of admission does not hold: floodsub relays",
    "MC_NegNoFilter": "no duplicate filter in front of the handler",
    "MC_NegNoSecondCheck": "no second context check after the dequeue",
    "MC_NegQueueFull": "(no defect) a transmission that reaches R is not enough: the handler's queue must accept it",
}


VERIF = os.path.dirname(os.path.dirname(os.path.dirname(os.path.abspath(__file__))))


def _module_files():
    return {os.path.basename(p): os.path.join(VERIF, p) for p in MODULES}


def run(ctx):
    files = _module_files()
    lock = threading.Lock()
    orig_subdir = ctx.subdir

    def subdir(name):
        with lock:
            return orig_subdir(name)
    ctx.subdir = subdir
    heap = os.environ.get("VERIF_XNP_HEAP", "2g")

    def tlc(cfg, **kw):
        kw.setdefault("workers", 2)
        kw.setdefault("heap", heap)
        kw.setdefault("timeout", ctx.pick(900, 3000))
        return ctx.tlc(SPEC, kw.pop("module", "NetPath"), cfg=cfg, label=cfg, files=dict(files, **kw.pop("files", {})), **kw)

    # ---------------------------------------------------------------- model checking (at most 3 JVMs here + 1 below)
    def positive(cfg, need):
        r = tlc(cfg, coverage=True)
        ctx.require_coverage(r, need, cfg)
        return cfg, r.distinct

    def negative(cfg):
        r = tlc(cfg, expect=("violation",), dump_trace=False)
        return cfg, r.violated

    def simulate(cfg, num):
        r = tlc(cfg, mode="simulate", num=num, depth=120, workers=1, expect=("ok", "timeout"), dump_trace=False,
                timeout=ctx.pick(150, 600))
        m = re.search(r"The number of states generated: (\d+)", r.out)
        n = int(m.group(1)) if m else 0
        if n < 1000 and not r.timed_out:
            ctx.broken("simulation of %s generated only %d states" % (cfg, n))
        return cfg, n

    skip_mc = bool(os.environ.get("VERIF_XNP_SKIP_MC"))   # developer switch for mutation runs: only the real executions
    pos = [("MC_Quick_Admit", CONTROL), ("MC_Quick_Deliver", SESSION + DATA + ["DoTickAll", "DoCallback", "CancelHandler", "RemoveHandler", "ExitOnDone"]),
           ("MC_Quick_Retx", SESSION + DATA + ["DoTickAll", "DoCallback", "DoCancelSend"])]
    negs = ["MC_NegNoFirewall", "MC_NegNoMatch", "MC_NegRelay"]
    if ctx.thorough:
        pos += [("MC_AdmitRelay", CONTROL), ("MC_DeliverCancel", SESSION + DATA + RETX),
                ("MC_Admit", CONTROL + SESSION), ("MC_Deliver", SESSION + DATA + RETX + ["DoDisconnect"]),
                ("MC_Two", DATA + RETX), ("MC_TwoHandlers", DATA + RETX), ("MC_Mitm", SESSION + DATA + ["DoAdvInject"]),
                ("MC_Unreduced", SESSION + DATA + RETX)]
        negs = list(NEGATIVES)
    jobs = []
    results = {"exhaustive": {}, "refuted": {}, "simulated": {}}
    with concurrent.futures.ThreadPoolExecutor(max_workers=4) as pool:
        # the harness run (compile + real executions) goes on beside the model checking
        go_f = pool.submit(lambda: ctx.gotest(
            "pkg/net/libp2p", "^TestVerif_XNP_EndToEnd$", ["x_netpath_rig_test.go", "x_netpath_test.go"],
            extra_overlay={"pkg/firewall/zz_verif_x_netpath_export.go": "pkg/firewall/x_netpath_export.go"},
            env={"VERIF_ROUNDS": ctx.pick(1, 3)}, label="endtoend", timeout=ctx.pick(900, 3000)))
        if skip_mc:
            pos, negs = [], []
            ctx.note("VERIF_XNP_SKIP_MC is set: model checking skipped")
        for cfg, need in pos:
            jobs.append(("exhaustive", pool.submit(positive, cfg, need)))
        if not skip_mc:
            jobs.append(("exhaustive", pool.submit(
                lambda: (lambda r: ("MC_Live", r.distinct))(tlc("MC_Live", coverage=False)))))
        for cfg in negs:
            jobs.append(("refuted", pool.submit(negative, cfg)))
        if not skip_mc and ctx.thorough:
            jobs.append(("simulated", pool.submit(simulate, "Sim_Full", 3000)))
        for kind, f in jobs:
            cfg, val = f.result()
            results[kind][cfg] = val
        go = go_f.result()
    ctx.extra["model_checking"] = results
    for cfg, inv in results["refuted"].items():
        ctx.note("negative configuration %s (%s): TLC refutes %s" % (cfg, NEGATIVES[cfg], inv))

    # ---------------------------------------------------------------- real executions
    ctx.absorb(go)
    rep = go.reports.get("endtoend") or {}
    c = rep.get("counters") or {}
    extra = rep.get("extra") or {}
    tp = ctx.trace_path(go, "trace_netpath")
    lines = open(tp).read().splitlines()
    nres = sum(1 for ln in lines if '"Reset"' in ln)
    r = ctx.tlc(SPEC, "Trace_NetPath", cfg="Trace_NetPath", mode="bfs", workers=1, timeout=ctx.pick(900, 3000), dump_trace=False,
                label="Trace_NetPath", expect=("ok", "violation"), files=dict(files, **{"trace.ndjson": tp}), view_queue=True,
                heap=heap, extra_args=["-checkpoint", "0"])
    if r.ok:
        ctx.trace_events += len(lines)
        ctx.traces_validated += nres
    elif r.violated != "Postcondition":
        ctx.broken("trace validation ended with %s (a defect of the specification, not of the code)\n%s" % (
            r.violated, "\n".join(r.out.splitlines()[-30:])))
    else:
        m = None
        for m in re.finditer(r"\"VERIF_HWM\",\s*(\d+)", r.out):
            pass
        hw = int(m.group(1)) if m else None
        bad = lines[hw - 1] if hw and hw <= len(lines) else "?"
        ev = {}
        try:
            ev = json.loads(bad)
        except Exception:
            pass
        # the world the rejected event belongs to
        start = max([i for i in range(0, (hw or 1)) if '"Reset"' in lines[i]] or [0])
        ctx.violation("trace:%s" % ev.get("event", "?"),
                      "a recorded end-to-end execution is not a behaviour of the composition: event %s of the trace (%s) cannot "
                      "happen in the specification after what was recorded before it" % (hw, bad[:300]),
                      {"world": lines[start:(hw or 1) + 1][-80:], "tlc": r.out[-1500:]})
    ctx.extra["trace"] = {"events": len(lines), "worlds": nres, "counters": c}
    # no silent pass: an accepted trace must have exercised the path (a rejected one is a violation whatever it exercised)
    if not ctx.violations:
        if extra.get("conclusive", 0) < max(3, extra.get("scenarios", 0) // 2):
            ctx.broken("only %s of %s scenarios were conclusive (timing windows missed): %s" % (
                extra.get("conclusive"), extra.get("scenarios"), (rep.get("notes") or [])[:3]))
        need = {"delivered_from_S": 3, "retransmit": 2, "fw_conn_admit": 4, "fw_conn_reject": 1, "handshake_failed": 1,
                "published_A": 3, "handler_cancelled": 1, "send_cancelled": 1, "ticks": 4, "disconnect": 1}
        low = {k: c.get(k, 0) for k, v in need.items() if c.get(k, 0) < v}
        if low:
            ctx.broken("the recorded executions exercised too little: %s (counters %s)" % (low, c))

    return ctx.finish(
        level="model_checking",
        rule="TLC: exhaustive on the bounded configurations named in model_checking.exhaustive (all interleavings of connection "
             "attempts, firewall calls, clock ticks, recognition changes, guard rounds, publications, relays, adversary injections, "
             "ticks, callbacks, cancellations and the handlers' goroutines within the bounds), simulation of the full-size "
             "configuration, refutation of the negative configurations, liveness under weak fairness on MC_Live. Real executions: "
             "scripted worlds with seeded variations (both strategies, reconnects, revocation within and after the caching period, "
             "negative cache, relay through the sender, three ways of running the handshake wrongly), every recorded event explained "
             "by the composition with every invariant evaluated at every step; non-trivial = a conclusive world.",
        assumptions=["libp2p's TLS layer, floodsub and its signature check behave as configured (StrictSign): they are run, not modelled in detail",
                     "the adversary holds only its own key; secp256k1 signatures are unforgeable",
                     "keep-common's TimeCache stamps with the wall clock; the harness keeps every Validate inside guarded windows and "
                     "drops a world that misses one",
                     "absence of an event (a delivery that did not happen) is never judged"],
        exhaustive=False)
