"""C15 — the message-driven state machine never loses early messages or skips a state."""
META = {
    "level": "model_checking",
    "text": "TLC exhaustively checks a process-level model of AsyncMachine.Execute, its per-state transition goroutine (Initiate, "
            "100 ms ticker, CanTransition) and BaseAsyncState for every interleaving of deliveries (current, earlier and later "
            "states, duplicates, foreign senders), hand-offs, initiation durations, cancellation points and Initiate/Next errors: "
            "transition gate, append-only history, early messages retained, no state skipped, outcome classification, and "
            "termination in the final state under fairness. TLC-generated behaviours are replayed step by step on the real machine "
            "(fake states over a real BaseAsyncState, parked Initiate/CanTransition) and free-running concurrent executions with "
            "the real ticker are trace-validated against the unrestricted model.",
    "note": "Trusted: Go's select may take any ready case (modelled as nondeterminism; the replay only uses schedules a harness "
            "can force, the races are covered by trace validation); the fake states accept every message of an operating peer "
            "into the shared history, like the tECDSA states.",
    "technique": "TLA+ process model, TLC exhaustive (safety + liveness); behaviour replay with parked fakes; trace validation of "
                 "free-running runs",
    "design_ref": "DESIGN.md §4.1 C15",
}
SPEC = "specs/AsyncMachine"
PKG = "pkg/protocol/state"
ALL = ["Exec", "HandOffBegin", "HandOffEnd", "InitiateOk", "InitiateErr", "TickCheck", "TickerStop", "Transition", "NextFailed", "InitFailed",
       "ExitCancelled", "Cancel", "DoArriveNew", "DoArriveDup", "DoArriveForeign"]


def mc(ctx, T):
    r = ctx.tlc(SPEC, "AsyncMachine", cfg=ctx.pick("MC_Async", "MC_Async_T"), coverage=True, label="MC_Async",
                timeout=ctx.pick(600, 3000))
    ctx.require_coverage(r, ALL, "MC_Async")
    r = ctx.tlc(SPEC, "AsyncMachine", cfg=ctx.pick("MC_Live", "MC_Live_T"), label="MC_Live", timeout=ctx.pick(600, 3000))
    if r.distinct < 1000:
        ctx.broken("MC_Live explored only %d states" % r.distinct)


class Bg:
    def __init__(self, fn, *a):
        import threading
        self.res, self.exc = None, None

        def body():
            try:
                self.res = fn(*a)
            except BaseException as ex:
                self.exc = ex
        self.t = threading.Thread(target=body, daemon=True)
        self.t.start()

    def join(self):
        self.t.join()
        if self.exc is not None:
            raise self.exc
        return self.res


def run(ctx):
    import threading, json, re
    T = ctx.thorough
    lock, orig = threading.Lock(), ctx.subdir

    def subdir(name):
        with lock:
            return orig(name)
    ctx.subdir = subdir
    bg = Bg(mc, ctx, T)
    try:
        return pipeline(ctx, T, bg, orig)
    except BaseException:
        # do not leave background TLC / go test processes behind
        import subprocess
        subprocess.run(["pkill", "-f", ctx.scratch], stderr=subprocess.DEVNULL)
        raise
    finally:
        ctx.subdir = orig


def pipeline(ctx, T, bg, orig):
    import json, re
    # behaviours for replay
    beh = []
    for cfg in ("Gen_A", "Gen_B"):
        num = ctx.pick(100, 1200)
        g = ctx.tlc(SPEC, "Gen_AsyncMachine", cfg=cfg, mode="simulate", num=num, depth=400, workers=1, label=cfg,
                    dump_trace=False, timeout=ctx.pick(300, 1800))
        b = ctx.read_emitted(g, "behaviours.ndjson")
        if len(b) < num // 2:
            ctx.broken("%s produced only %d behaviours" % (cfg, len(b)))
        beh += b
    acts, kinds = {}, {}
    for b in beh:
        for s in b["steps"]:
            acts[s["a"]] = acts.get(s["a"], 0) + 1
        k = b["steps"][-1]["st"]["outcome"]["kind"]
        kinds[k] = kinds.get(k, 0) + 1
    missing = [a for a in ["Exec", "Arrive", "HandOffBegin", "HandOffEnd", "InitiateOk", "InitiateErr", "TickCheck", "Transition", "NextFailed",
                           "InitFailed", "Cancel", "ExitCancelled"] if not acts.get(a)]
    missing += [k for k in ["final", "initErr", "nextErr", "ctxErr"] if not kinds.get(k)]
    if missing:
        ctx.broken("generated behaviours never show: %s" % missing)
    ncir = sum(1 for b in beh if any(s["a"] == "Cancel" and s["st"]["lp"] == "receiving" for s in b["steps"]))
    if ncir < ctx.pick(5, 40):
        ctx.broken("only %d generated behaviours cancel the context while the loop is inside Receive" % ncir)
    ctx.note("%d behaviours cancel the context while the loop is inside Receive; each is replayed 20 times" % ncir)
    ctx.note("replay set: %d behaviours, %d steps, outcomes %s" % (len(beh), sum(acts.values()), kinds))
    ctx.extra["replay_actions"] = acts
    go = ctx.gotest(PKG, "^TestVerif_C15_(Replay|Free)$", ["c15_test.go"], inputs={"behaviours.ndjson": beh},
                    env={"VERIF_RUNS": ctx.pick(60, 600), "VERIF_WORKERS": 48}, label="state", timeout=ctx.pick(900, 3000))
    ctx.absorb(go)
    hung = (go.reports.get("free", {}).get("extra") or {}).get("hung")
    if hung and not ctx.violations:
        ctx.broken("free-running harness: " + str(hung))
    for shape in (() if hung else ("A", "B")):
        tp = ctx.trace_path(go, "trace_async_" + shape)
        ok, tr = ctx.validate_trace(SPEC, "Trace_AsyncMachine", tp, cfg="Trace_" + shape, label="Trace_" + shape,
                                    timeout=ctx.pick(600, 3000))
        lines = open(tp).read().splitlines()
        nruns = sum(1 for x in lines if '"Reset"' in x)
        if ok:
            ctx.traces_validated += nruns
            continue
        mm = re.findall(r'"VERIF_HWM",\s*(\d+)', tr.out)
        hw = int(mm[-1]) if mm else None
        inv = tr.violated if tr.violated and tr.violated != "Postcondition" else None
        bad = lines[hw - 1] if hw and hw <= len(lines) else "?"
        try:
            key = "trace:" + (inv or json.loads(bad).get("event", "?"))
        except Exception:
            key = "trace:?"
        start = max((i for i in range(min(hw or 1, len(lines))) if '"Reset"' in lines[i]), default=0)
        ctx.violation(key,
                      "a recorded run of the real AsyncMachine is not a behaviour of the specification (%s; line %s: %s)" % (
                          ("invariant %s violated" % inv) if inv else "event rejected", hw, bad),
                      {"run": lines[start:(hw or 1) + 2][-120:], "tlc": tr.out[-2500:]})
    bg.join()
    return ctx.finish(
        level="model_checking",
        rule="TLC: every interleaving of the model's processes within MC_*.cfg (3 states with a silent one, 2 peers, 1 duplicate, "
             "1 foreign message, cancel anywhere, Initiate/Next errors; thorough: more). Replay: TLC-simulated behaviours on the real "
             "Execute with history, executed states, Initiate-visible messages, registration and outcome compared after every step; "
             "non-trivial = behaviours with hand-offs. Free runs: real ticker, concurrent deliveries incl. messages for later "
             "states, duplicates, withheld messages, cancellation; every event validated against the model with all invariants.",
        assumptions=["select picks any ready case (Go specification)",
                     "replay restricts to schedules in which the loop exits promptly after cancellation; the races are trace-validated",
                     "states admit all messages of operating peers into BaseAsyncState (tECDSA state shape)",
                     "timeouts of the harness (180 s) are reported as broken check, never as violation"],
        exhaustive=False)
