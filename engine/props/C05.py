"""C05 — beacon DKG fate: members keep group membership only as the chain decided."""
META = {
    "level": "model_checking",
    "text": "TLC exhaustively checks a model of ExecuteDKG's tail (publish ok/failed, wait for the on-chain result or the timeout "
            "block, key comparison, misbehaved list, rebuilt operating set, resolveGroupOperators) over every local GJKR outcome, "
            "every on-chain event (matching or other key, every misbehaved subset incl. indices outside the group), both "
            "event/timeout orders and selected-operator lists (incl. operators holding several seats and malformed lengths) for n <= 5: "
            "'publication failed and membership kept => same key, member not listed, no timeout' and 'operator list = selected "
            "operators of the non-misbehaving members in index order, never below the honest threshold'. Every behaviour is replayed "
            "on the real decideMemberFate / waitForDkgResultEvent / resolveGroupOperators composed as ExecuteDKG composes them. The "
            "property quantifies over inputs and event orders: enumeration, hence model checking.",
    "note": "Trusted: the harness composes the three functions the way ExecuteDKG does (GJKR and dkgResult.Publish themselves are "
            "not run: they need ~45 s of real block time per run); the on-chain event is taken as delivered by the chain binding.",
    "technique": "TLA+ decision model, TLC exhaustive; behaviour replay with fake chain/block counter; simultaneous-signal runs checked against both sequential outcomes",
    "design_ref": "DESIGN.md §4.2 C05",
}
SPEC = "specs/DkgFate"
ACTS = ["PublishOk", "PublishFails", "EventArrives", "TimeoutBlock", "DecideKeyMismatch", "DecideMisbehaved", "DecideStay",
        "ResolveInvalid", "Resolve"]
GACTS = ["GPublishOk", "GPublishFails", "GEvent", "GTimeout", "GKeyMismatch", "GMisbehaved", "GStay", "GInvalid", "GResolve"]


def run(ctx):
    for cfg in ctx.pick(["MC_N4q"], ["MC_N4", "MC_N5"]):
        r = ctx.tlc(SPEC, "MC_DkgFate", cfg=cfg, coverage=True, label=cfg, timeout=1800)
        ctx.require_coverage(r, ACTS, cfg)
    beh = []
    for cfg in ctx.pick(["Gen_N4"], ["Gen_N3", "Gen_N4", "Gen_N5"]):
        g = ctx.tlc(SPEC, "Gen_DkgFate", cfg=cfg, workers=1, label=cfg, dump_trace=False, coverage=True, timeout=1800)
        ctx.require_coverage(g, GACTS, cfg)
        got = ctx.read_emitted(g, "behaviours.ndjson")
        if len(got) < 1000:
            ctx.broken("behaviour generation %s produced only %d behaviours" % (cfg, len(got)))
        beh += got
    ctx.note("behaviours: %d" % len(beh))
    go = ctx.gotest("pkg/beacon/dkg", "^TestVerif_C05_Fate$", ["c05_test.go"], inputs={"behaviours.ndjson": beh}, label="fate",
                    timeout=ctx.pick(900, 3000))
    ctx.absorb(go)
    cnt = (ctx.extra.get("harness", {}).get("fate", {}).get("counters") or {})
    if not ctx.violations:
        for need in ("fate_event", "fate_timeout", "resolved", "spec_done_", "spec_failed_key", "spec_failed_misbehaved",
                     "spec_failed_timeout", "spec_failed_invalid"):
            if not cnt.get(need):
                ctx.broken("replay never exercised %s" % need)
    return ctx.finish(
        level="model_checking",
        rule="every behaviour of the model for n=4 (quick) / n=3,4,5 (thorough): local views = all disjoint (disqualified, inactive) "
             "subsets of the other members, events = {matching key, other key} x every misbehaved subset (plus lists naming index n+1), "
             "event before timeout / timeout before event / both ready, 5 selected-operator lists (distinct, reversed, two operators "
             "alternating, too short, too long); non-trivial = behaviours in which publication failed.",
        assumptions=["GJKR and dkgResult.Publish are not executed; their outcome (local view, publish ok/failed) is an input",
                     "the three functions are composed by the harness exactly as in ExecuteDKG",
                     "an 'other key' is realized as another point, a one-bit change, a strict prefix, an extension or empty bytes"],
        exhaustive=True)
