"""C09 — retry participant selection respects seat bounds and is deterministic."""
import json
import os
import random

META = {
    "level": "model_checking",
    "text": "TLA+ specification of both retry selection functions with the shuffles as hidden choices; TLC checks the seat-bound, "
            "operator-atomicity, distinct/ordered/complete exclusion invariants for every seat list of up to 4-5 operators with uneven "
            "seat counts and every requested count, and shows that a variant computing triplet eligibility from the wrong operator "
            "violates them. Every input TLC enumerates (5 operators, up to 6-7 seats) is run through the real functions for all retry "
            "numbers until the documented error, on two nodes and again in shuffled order, under several address assignments and seeds; "
            "results are compared with the specification's eligible sets and the whole call history is trace-validated (TLC infers one "
            "permutation per shuffle).",
    "note": "Trusted: math/rand is not modelled (any permutation is accepted as long as it is the same on every evaluation); seat lists "
            "beyond 5 distinct operators / 7 seats are not enumerated; seeds are sampled.",
    "technique": "TLA+ spec + hazard variant, TLC exhaustive; TLC-enumerated inputs replayed on the real functions; trace validation with inferred permutations",
    "design_ref": "DESIGN.md §4.3 C09",
}
SPEC = "specs/Retry"
PKG = "pkg/tecdsa/retry"
# (TLC's coverage names an action `\E n \in Nodes : A(n)` after A)
ACTIONS = ["TooMany", "ExcludeSingle", "ExcludePair", "ExcludeTriplet", "Exhausted",
           "SelectForSigning", "NextRetry", "DoReevaluate"]


def _blocks(lines):
    """Split a trace into (start, end) line ranges, one per Reset."""
    starts = [i for i, ln in enumerate(lines) if '"event":"Reset"' in ln]
    return [(s, (starts[k + 1] if k + 1 < len(starts) else len(lines))) for k, s in enumerate(starts)]


def _hwm(out):
    """Line number of the first event no behaviour of the trace spec consumed (TraceKit prints <<"VERIF_HWM", n>>)."""
    import re
    m = None
    for m in re.finditer(r'"VERIF_HWM",\s*(\d+)', out):
        pass
    return int(m.group(1)) if m else None


def run(ctx):
    # The four model runs are independent: run them side by side (JVM start-up dominates the small ones).
    #  1. the contract model satisfies the property on every small input (coverage statistics slow TLC down
    #     several times: the vacuity guard runs on the small configuration that also allows re-evaluation,
    #     the larger one runs without statistics)
    #  2. the hazard variant (third operator of a triplet read from the wrong index) violates it
    #  3. every input of the specification, with the specification's verdict about it
    from concurrent.futures import ThreadPoolExecutor
    with ThreadPoolExecutor(4) as ex:
        f_re = ex.submit(ctx.tlc, SPEC, "Retry", cfg="MC_Reeval", coverage=True, label="MC_Reeval", timeout=900, workers=2)
        f_mc = ex.submit(ctx.tlc, SPEC, "Retry", cfg=ctx.pick("MC_Quick", "MC_Thorough"), label="MC_Contract",
                         timeout=ctx.pick(900, 3000), workers=ctx.pick(4, 8))
        f_hz = ex.submit(ctx.tlc, SPEC, "Retry", cfg="MC_Hazard", label="MC_Hazard", expect=("violation",), timeout=900,
                         workers=2)
        f_g = ex.submit(ctx.tlc, SPEC, "Gen_Retry", cfg=ctx.pick("Gen_Quick", "Gen_Thorough"), workers=1, label="Gen",
                        dump_trace=False, timeout=ctx.pick(900, 3000))
        r = f_re.result()
        ctx.require_coverage(r, ACTIONS, "MC_Reeval")
        r = f_mc.result()
        if r.distinct < 10000:
            ctx.broken("MC_Contract explored only %d states" % r.distinct)
        hz = f_hz.result()
        ctx.extra["hazard_violated_invariant"] = hz.violated
        g = f_g.result()
    cases = ctx.read_emitted(g, "cases.ndjson")
    if len(cases) < 1000:
        ctx.broken("case generation produced only %d inputs" % len(cases))
    hazard = [c for c in cases if c["hazard"]]
    uneven = [c for c in cases if c["r"] >= 1]
    if len(hazard) < 50 or len(uneven) < 200:
        ctx.broken("case generation: %d hazard inputs, %d inputs with eligible exclusions" % (len(hazard), len(uneven)))
    ctx.note("specification inputs: %d (%d with eligible exclusions, %d on which the hazard variant differs)" % (
        len(cases), len(uneven), len(hazard)))
    rnd = random.Random(ctx.seed)
    plain = [c for c in cases if not c["hazard"]]
    if ctx.thorough:
        # every input is run and compared with the specification's sets; a sample is also trace-validated
        sel = list(cases)
        traced = set(id(c) for c in rnd.sample(plain, min(1500, len(plain))) + rnd.sample(hazard, min(600, len(hazard))))
    else:
        sel = rnd.sample(plain, min(160, len(plain))) + rnd.sample(hazard, min(50, len(hazard)))
        traced = set(id(c) for c in sel)
    for c in sel:
        c["trace"] = id(c) in traced
    go = ctx.gotest(PKG, "^TestVerif_C09_Retry$", ["c09_test.go"], inputs={"cases.ndjson": sel}, label="retry",
                    timeout=ctx.pick(600, 3000),
                    env={"VERIF_ASSIGNMENTS": ctx.pick(2, 3), "VERIF_HAZARD_ASSIGNMENTS": ctx.pick(4, 6),
                         "VERIF_SEEDS": 1, "VERIF_SIGNING_RETRIES": ctx.pick(2, 3)})
    ctx.absorb(go, require_evals=200)
    # 4. the recorded call history must be a behaviour of the specification
    tp = ctx.trace_path(go, "trace_retry")
    lines = open(tp).read().splitlines()
    nblocks = len(_blocks(lines))
    rejected = 0
    while True:
        cur = os.path.join(ctx.scratch, "trace_retry_%d.ndjson" % rejected)
        with open(cur, "w") as f:
            f.write("\n".join(lines) + "\n")
        ok, tr = ctx.validate_trace(SPEC, "Trace_Retry", cur, cfg="Trace_Retry", label="Trace_Retry_%d" % rejected,
                                    timeout=ctx.pick(900, 3600), heap="4g")
        if ok:
            break
        if tr.violated != "Postcondition":
            ctx.broken("trace validation stopped with %s, not with a rejected trace:\n%s" % (tr.violated, tr.out[-1500:]))
        hw = _hwm(tr.out)
        if not hw or hw > len(lines):
            ctx.broken("trace rejected but no high-water mark reported")
        blk = [b for b in _blocks(lines) if b[0] <= hw - 1 < b[1]]
        if not blk:
            ctx.broken("rejected line %d is outside every block" % hw)
        s, e = blk[0]
        head = json.loads(lines[s])
        key = "trace:%s:members=%s;req=%d" % (head["mode"], ".".join(str(x) for x in head["members"]), head["req"])
        ctx.violation(key, "recorded calls of the real %s retry selection are not a behaviour of the specification: no choice of "
                           "shuffles explains line %d (%s) after the preceding calls for members=%s req=%d seed=%s" % (
                               head["mode"], hw - s, lines[hw - 1], head["members"], head["req"], head.get("seed")),
                      {"block": lines[s:e][:80], "rejected_line": lines[hw - 1]})
        rejected += 1
        lines = lines[:s] + lines[e:]
        if rejected >= 3 or not lines:
            ctx.note("stopped re-validating after %d rejected blocks" % rejected)
            break
    ctx.traces_validated += max(0, nblocks - rejected)
    return ctx.finish(
        level="model_checking",
        rule="every canonical seat list TLC enumerates (<=5 operators, <=3 seats each, length <=%d) x every requested count "
             "0..len+1; quick: seeded sample plus inputs on which the hazard variant differs, thorough: larger sample; each under "
             "several address assignments and seeds, all retry numbers until past the error; non-trivial = inputs with at least "
             "one eligible exclusion (keygen) or more than one possible accepted set (signing)" % ctx.pick(6, 7),
        assumptions=["math/rand shuffles are treated as arbitrary permutations, fixed per (seed, class)",
                     "operator identity enters only through the address order (canonical lists x address assignments)",
                     "seeds and address assignments are sampled, not enumerated"],
        exhaustive=False)
