"""C10 — attempt member selection: every member derives the same exact participants."""
import json
import os
import random

META = {
    "level": "model_checking",
    "text": "TLA+ specification of performMembersSelection of the signing and key-generation retry loops on top of the retry "
            "specification (C09), with every shuffle a hidden choice fixed by the first evaluating loop; TLC checks agreement across "
            "loops, exactly-honest-threshold for signing and ready-members-of-qualified-operators / at-least-quorum for key generation "
            "for every layout, ready set and attempt of small groups, and that the hazard variant of the retry rule breaks the quorum. "
            "Every input TLC enumerates is replayed on real loop instances created for every member index and fed the ready list in "
            "every order TLC emits; results are compared across members/orders and with the specification's admissible selections, "
            "and a sample of call histories is trace-validated (TLC infers the shuffles).",
    "note": "Trusted: math/rand and SHA-256 seeding are not modelled (any shuffle outcome is accepted if all loops agree on it); groups "
            "of more than 5-6 members / 4 operators are not enumerated; messages and address assignments are sampled.",
    "technique": "TLA+ spec over the Retry definitions, TLC exhaustive + hazard variant; TLC-enumerated inputs and orders replayed on real loops for all member indexes; trace validation",
    "design_ref": "DESIGN.md §4.3 C10",
}
SPEC = "specs/AttemptSelection"
PKG = "pkg/tbtc"
ACTIONS = ["SigningSelect", "SigningTooFew", "DkgFirst", "DkgRetry", "DkgError"]


def _hwm(out):
    import re
    m = None
    for m in re.finditer(r'"VERIF_HWM",\s*(\d+)', out):
        pass
    return int(m.group(1)) if m else None


def _blocks(lines):
    starts = [i for i, ln in enumerate(lines) if '"event":"Reset"' in ln]
    return [(s, (starts[k + 1] if k + 1 < len(starts) else len(lines))) for k, s in enumerate(starts)]


def run(ctx):
    # (specs/AttemptSelection/Retry.tla is a symlink to the C09 specification it instantiates)
    from concurrent.futures import ThreadPoolExecutor
    # 1. the model satisfies the property for every small input; vacuity guard on the configuration that also
    #    enumerates every member index and every order of the ready list (and checks the order-irrelevance lemma)
    # 2. with the hazard variant of the retry rule a key-generation attempt falls below the quorum
    # 3. every input with the specification's admissible selections
    with ThreadPoolExecutor(4) as ex:
        f_all = ex.submit(ctx.tlc, SPEC, "AttemptSelection", cfg="MC_AllOrders", coverage=True, label="MC_AllOrders",
                          timeout=1200, workers=2)
        f_mc = ex.submit(ctx.tlc, SPEC, "AttemptSelection", cfg=ctx.pick("MC_Quick", "MC_Thorough"), label="MC",
                         timeout=ctx.pick(1200, 3000), workers=ctx.pick(4, 8))
        f_hz = ex.submit(ctx.tlc, SPEC, "AttemptSelection", cfg="MC_Hazard", label="MC_Hazard", expect=("violation",),
                         timeout=1800, workers=4)
        f_g = ex.submit(ctx.tlc, SPEC, "Gen_AttemptSelection", cfg=ctx.pick("Gen_Quick", "Gen_Thorough"), workers=1,
                        label="Gen", dump_trace=False, timeout=ctx.pick(1200, 3000))
        r = f_all.result()
        ctx.require_coverage(r, ACTIONS, "MC_AllOrders")
        r = f_mc.result()
        if r.distinct < 10000:
            ctx.broken("MC explored only %d states" % r.distinct)
        hz = f_hz.result()
        ctx.extra["hazard_violated_invariant"] = hz.violated
        g = f_g.result()
    docs = ctx.read_emitted(g, "cases.ndjson")
    cases = []          # one case per (input, attempt number)
    for d in docs:
        for i, a in enumerate(d["attempts"]):
            cases.append({"layout": d["layout"], "need": d["need"], "kind": d["kind"], "ready": d["ready"],
                          "orders": d["orders"], "attempt": i + 1, "expect": a["expect"], "possible": a["possible"]})
    ok_cases = [c for c in cases if c["expect"] == "ok"]
    if len(cases) < 1000 or len(ok_cases) < 500:
        ctx.broken("case generation produced %d inputs (%d with a selection)" % (len(cases), len(ok_cases)))
    rnd = random.Random(ctx.seed)

    def interesting(c):      # more than one admissible selection, or a key-generation retry
        return c["expect"] == "ok" and (len(c["possible"]) > 1 or (c["kind"] == "dkg" and c["attempt"] >= 2))
    hot = [c for c in cases if interesting(c)]
    rest = [c for c in cases if not interesting(c)]
    ctx.note("specification inputs: %d (%d with a selection, %d with hidden choices or retry exclusions)" % (
        len(cases), len(ok_cases), len(hot)))
    if ctx.thorough:
        # every input of groups up to 5 members, a seeded sample of the 6-member groups
        big = [c for c in cases if len(c["layout"]) >= 6]
        sel = [c for c in cases if len(c["layout"]) < 6] + rnd.sample(big, min(4000, len(big)))
        traced = rnd.sample(hot, min(500, len(hot))) + rnd.sample(rest, min(150, len(rest)))
    else:
        sel = rnd.sample(hot, min(350, len(hot))) + rnd.sample(rest, min(120, len(rest)))
        traced = rnd.sample(sel[:350], min(70, len(sel))) + sel[-20:]
    tids = set(id(c) for c in traced)
    for c in sel:
        c["trace"] = id(c) in tids
    go = ctx.gotest(PKG, "^TestVerif_C10_", ["c10_test.go"], inputs={"cases.ndjson": sel}, label="selection",
                    timeout=ctx.pick(900, 3000),
                    env={"VERIF_ASSIGNMENTS": ctx.pick(2, 3), "VERIF_MESSAGES": ctx.pick(2, 3)})
    ctx.absorb(go, require_evals=300)
    # 4. recorded call histories must be behaviours of the specification
    tp = ctx.trace_path(go, "trace_selection")
    lines = open(tp).read().splitlines()
    nblocks = len(_blocks(lines))
    rejected = 0
    while True:
        cur = os.path.join(ctx.scratch, "trace_selection_%d.ndjson" % rejected)
        with open(cur, "w") as f:
            f.write("\n".join(lines) + "\n")
        ok, tr = ctx.validate_trace(SPEC, "Trace_AttemptSelection", cur, cfg="Trace_AttemptSelection",
                                    label="Trace_%d" % rejected, timeout=ctx.pick(900, 3600), heap="4g")
        if ok:
            break
        if tr.violated != "Postcondition":
            ctx.broken("trace validation stopped with %s, not with a rejected trace:\n%s" % (tr.violated, tr.out[-1500:]))
        hw = _hwm(tr.out)
        if not hw or hw > len(lines):
            ctx.broken("trace rejected but no high-water mark reported")
        blk = [b for b in _blocks(lines) if b[0] <= hw - 1 < b[1]]
        if not blk:
            ctx.broken("rejected line %d is outside every block" % hw)
        s, e = blk[0]
        head = json.loads(lines[s])
        key = "trace:%s:layout=%s;need=%d;attempt=%d;ready=%s" % (
            head["kind"], ".".join(map(str, head["layout"])), head["need"], head["attempt"], ".".join(map(str, head["ready"])))
        ctx.violation(key, "recorded performMembersSelection calls of real %s loops are not a behaviour of the specification: no "
                           "outcome of the shuffles explains call %d (%s) together with the preceding calls for layout=%s need=%d "
                           "attempt=%d ready=%s" % (head["kind"], hw - s, lines[hw - 1], head["layout"], head["need"],
                                                    head["attempt"], head["ready"]),
                      {"block": lines[s:e][:60], "rejected_line": lines[hw - 1]})
        rejected += 1
        lines = lines[:s] + lines[e:]
        if rejected >= 3 or not lines:
            ctx.note("stopped re-validating after %d rejected blocks" % rejected)
            break
    ctx.traces_validated += max(0, nblocks - rejected)
    return ctx.finish(
        level="model_checking",
        rule="every canonical operator layout of groups up to %s, need = every majority size, every ready set from need-1 members "
             "upwards, attempts 1..%s (signing 1..2); each input under several address assignments and messages, loops for "
             "every member index, ready list in every order (<=4 ready) or all rotations of ascending/descending; quick: seeded "
             "sample biased to inputs with hidden choices, thorough: all; non-trivial = inputs with a selection fed in more than "
             "one order" % (ctx.pick("5 members / 3 operators", "6 members / 4 operators (6-member groups sampled)"), ctx.pick(8, 12)),
        assumptions=["math/rand shuffles and the SHA-256 derived seed are treated as arbitrary but fixed per (message, attempt)",
                     "operator identity enters only through the address order (canonical layouts x address assignments)",
                     "messages and address assignments are sampled"],
        exhaustive=False)
