"""C20 — the connection handshake completes exactly for honest peers on the same protocol."""
import random

META = {
    "level": "model_checking",
    "text": "TLC exhaustively checks a specification of the three-act handshake (initiator / responder state machines as in "
            "connection_handshake.go, symbolic injective challenge, nonces from a 3-value domain, two protocol ids) with an attacker on "
            "the connection who may change any one field of an act to another domain value or substitute the act recorded in another "
            "session, and of the wire layer of authenticated_connection.go (signed envelopes, pinned peer id; the attacker may also "
            "rename the sender or re-sign with its own key, up to 3 actions): both sides complete if and only if they run the same "
            "protocol id and every act arrived as sent, and then both hold the challenge of both nonces. Every behaviour of the "
            "specification is replayed on InitiateHandshake / AnswerHandshake / InitiatorAct2.Next / FinalizeHandshake through the "
            "real marshalling with scripted nonces, and on newAuthenticatedOutboundConnection / newAuthenticatedInboundConnection "
            "over in-memory pipes with the harness rewriting envelopes in flight (and, for replays from ANY earlier session of a "
            "node with no honest peer present - HandshakeSessions.tla, which needs the node's nonces to be pairwise distinct - "
            "on 48-200 consecutive real sessions per process with the real random source: nonces pairwise distinct, recorded "
            "acts 1+3 / act 2 replayed into 40-120 later sessions rejected), comparing each step's verdict and every field sent.",
    "note": "The acts alone carry no secret: with three coordinated alterations a man in the middle passes (MC_BareMitm shows it); the "
            "property is claimed for the acts under one attacker action per session and for the wire path under up to three. "
            "Trusted: SHA-256 is injective on the nonce pairs (checked on the values used), secp256k1 signatures are unforgeable "
            "(the attacker signs only with its own key). On the wire an attacker naming itself in act 1 is the responder's peer, "
            "a session judged separately (WireSound). No libp2p host: the two connection ends talk over net.Pipe.",
    "technique": "TLA+ protocol spec with Dolev-Yao-style attacker actions, TLC exhaustive; exhaustive behaviour replay on the real "
                 "state machines and on the real signed wire path",
    "design_ref": "DESIGN.md §4.4 C20",
}
SPEC = "specs/Handshake"
PROTO = ["SendAct1", "AnswerAct1", "CheckAct2", "Finalize", "AlterField", "AlterNonceBits", "AlterWord", "Replay"]
ATTACKS = ("AlterField", "AlterNonceBits", "AlterWord", "AlterEnvelope", "Replay")


def attacked(b):
    return any(s["a"] in ATTACKS for s in b["steps"])


def flipped(b):
    return any(s["a"] in ("AlterNonceBits", "AlterWord") for s in b["steps"])


def run(ctx):
    r = ctx.tlc(SPEC, "Handshake", cfg="MC_Bare", coverage=True, label="MC_Bare")
    ctx.require_coverage(r, PROTO + ["InitiatorSeesClose", "ResponderSeesClose"], "MC_Bare")
    wcfg = ctx.pick("MC_Wire2", "MC_Wire")
    r = ctx.tlc(SPEC, "Handshake", cfg=wcfg, coverage=True, label=wcfg, timeout=ctx.pick(900, 3000))
    ctx.require_coverage(r, PROTO + ["AlterEnvelope"], wcfg)
    m = ctx.tlc(SPEC, "Handshake", cfg="MC_BareMitm", label="MC_BareMitm", expect=("violation",), dump_trace=False)
    ctx.extra["unsigned_acts_with_three_alterations"] = m.violated

    # freshness across sessions of one node (replay of ANY earlier session, no honest peer present)
    r = ctx.tlc(SPEC, "HandshakeSessions", cfg="MC_Sessions", coverage=True, label="MC_Sessions", timeout=ctx.pick(900, 3000))
    ctx.require_coverage(r, ["HonestSession", "ReplayToResponder", "ReplayToInitiator"], "MC_Sessions")
    st = ctx.tlc(SPEC, "HandshakeSessions", cfg="MC_SessionsStale", label="MC_SessionsStale", expect=("violation",), dump_trace=False)
    ctx.extra["recurring_nonces_allow_replay"] = st.violated

    g = ctx.tlc(SPEC, "Gen_Handshake", cfg="Gen_Bare", workers=1, label="Gen_Bare", dump_trace=False, timeout=1500)
    bare = ctx.read_emitted(g, "behaviours.ndjson")
    g = ctx.tlc(SPEC, "Gen_Handshake", cfg="Gen_Wire", workers=1, label="Gen_Wire", dump_trace=False, timeout=1500)
    wire = ctx.read_emitted(g, "behaviours.ndjson")
    if len(bare) < 10000 or len(wire) < 30000:
        ctx.broken("behaviour generation too small: %d bare, %d wire" % (len(bare), len(wire)))
    ctx.note("%d behaviours of the acts, %d of the wire path" % (len(bare), len(wire)))
    rnd = random.Random(ctx.seed)
    if not ctx.thorough:
        # the behaviours that end with both sides completed although attacked / mismatched cannot exist (CompleteIff);
        # sample the rest, attacked ones first
        wf = [b for b in wire if flipped(b)]
        wa = [b for b in wire if attacked(b) and not flipped(b)]
        wn = [b for b in wire if not attacked(b)]
        wire = rnd.sample(wf, min(len(wf), 400)) + rnd.sample(wa, min(len(wa), 400)) + rnd.sample(wn, min(len(wn), 60))
    go1 = ctx.gotest("pkg/net/security/handshake", "^TestVerif_C20_(Acts|Freshness)$", ["c20_test.go"],
                     inputs={"behaviours_bare.ndjson": bare}, label="acts", timeout=ctx.pick(900, 3000),
                     env={"VERIF_SESSIONS": ctx.pick(48, 200), "VERIF_LATER_SESSIONS": ctx.pick(40, 120)})
    ctx.absorb(go1)
    go2 = ctx.gotest("pkg/net/libp2p", "^TestVerif_C20_Wire(Freshness)?$", ["c20_test.go"],
                     inputs={"behaviours_wire.ndjson": wire}, label="wire", timeout=ctx.pick(1200, 3400),
                     env={"VERIF_SESSIONS": ctx.pick(48, 200), "VERIF_LATER_SESSIONS": ctx.pick(40, 120)})
    ctx.absorb(go2)
    # every byte position of the challenge (and of the raw nonces) must have been flipped in flight
    need_chal = range(32) if ctx.thorough else (0, 7, 8, 15, 16, 23, 24, 31)
    need_nonce = range(8) if ctx.thorough else (0, 7)
    for name, go in (("acts", go1), ("wire", go2)):
        c = (go.reports.get(name) or {}).get("counters") or {}
        if c.get("not_scriptable") or c.get("unrealizable_nonce_coincidence"):
            ctx.note("%s: nonces could not be scripted through crypto/rand.Reader (%d behaviours not staged); the nonce source is "
                     "judged by the freshness tests" % (name, c.get("not_scriptable", 0) + c.get("unrealizable_nonce_coincidence", 0)))
            if c.get("not_scriptable"):
                continue
        miss = ["challenge byte %d" % k for k in need_chal if not c.get("chal_byte_%d" % k)] + \
               ["nonce byte %d" % k for k in need_nonce if not c.get("nonce_byte_%d" % k)]
        if miss and not ctx.violations:
            ctx.broken("the %s replay never flipped %s" % (name, ", ".join(miss)))
        ctx.extra.setdefault("bytes_flipped", {})[name] = sorted(k for k in c if "_byte_" in k)
    return ctx.finish(
        level="model_checking",
        rule="TLC: all nonce values (3), protocol id pairs (2x2), recorded sessions and attacker schedules within the budget. Replay: "
             "every behaviour of the acts model (one attacker action) on the real state machines; the wire model (2 nonce values, "
             "two attacker actions) %s on the real connection ends; behaviours with a bit flip run three times (first / middle / "
             "last byte of the word); non-trivial = behaviours with an attacker action or different protocol ids." % (
                 "in full" if ctx.thorough else "sampled (400 with bit flips + 400 otherwise attacked + 60 plain)"),
        assumptions=["the challenge hash is injective (checked on the nonce pairs used)",
                     "signatures cannot be forged: the attacker only signs with its own key or reuses recorded signatures",
                     "the acts without envelopes are claimed under one attacker action per session",
                     "nonces are scripted by replacing crypto/rand.Reader for the behaviour replay (if the code does not take them "
                     "from there the acts harness binds the nonces as drawn and the wire behaviours are skipped with a note); the "
                     "freshness tests use the real source"],
        exhaustive=ctx.thorough)
