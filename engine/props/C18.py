"""C18 — delivered network messages are attributed to their authenticated author."""
import random

META = {
    "level": "model_checking",
    "text": "TLC exhaustively checks a specification of processPubsubMessage / processContainerMessage (container decoding, type "
            "lookup, payload decoding, identity decoding, outer = inner comparison, operator key type, deliver) over all envelopes "
            "[author in {four secp256k1 operators - two of them with a leading zero byte in X resp. Y of their key -, one Ed25519 peer}, inner identity in the same peers, the mirror key (x, -y) of any operator, or garbage / bad key / empty, "
            "type registered or not, payload decodable or not, container decodable or not] and all batches of two: whatever is "
            "delivered names the authenticated author with that author's operator key, everything else is dropped, and a dropped "
            "envelope does not affect the others. Every envelope (960) and random batches are replayed with real keys, identities "
            "and protobuf bytes on the real channel, observing exactly what deliver() put into two handlers' queues.",
    "note": "Trusted: libp2p authenticated the author (GetFrom) before the channel sees the message; the pubsub validator and "
            "signature check are libp2p's. Malformed inputs are three representatives per field (truncated protobuf, protobuf with "
            "bytes that are no key, empty), not a fuzzing campaign.",
    "technique": "TLA+ decision specification enumerated in Init, TLC exhaustive; every case and random batches replayed on the real channel",
    "design_ref": "DESIGN.md §4.4 C18",
}
SPEC = "specs/Envelope"


def run(ctx):
    r = ctx.tlc(SPEC, "Envelope", cfg="MC_Envelope", coverage=True, label="MC_Envelope")
    ctx.require_coverage(r, ["Process"], "MC_Envelope")
    g = ctx.tlc(SPEC, "Gen_Envelope", cfg="Gen_Single", workers=1, label="Gen_Single", dump_trace=False)
    singles = ctx.read_emitted(g, "cases.ndjson")
    if len(singles) != 960:
        ctx.broken("expected 960 single envelopes, got %d" % len(singles))
    kinds = set(c["verdicts"][0] for c in singles)
    if kinds != {"container", "type", "payload", "identity", "mismatch", "keytype", "delivered"}:
        ctx.broken("the generated envelopes do not reach every branch: %s" % sorted(kinds))
    # batches: independence is proved on the model for all pairs; here longer random mixes, always containing deliverable envelopes
    rnd = random.Random(ctx.seed)
    good = [c for c in singles if c["verdicts"][0] == "delivered"]
    batches = []
    for _ in range(ctx.pick(300, 3000)):
        n = rnd.randint(2, 6)
        pick = [rnd.choice(good) if rnd.random() < 0.4 else rnd.choice(singles) for _ in range(n)]
        batch = [p["batch"][0] for p in pick]
        verd = [p["verdicts"][0] for p in pick]
        deliv = [dict(p["delivered"][0], at=i + 1) for i, p in enumerate(pick) if p["delivered"]]
        batches.append({"batch": batch, "verdicts": verd, "delivered": deliv})
    go = ctx.gotest("pkg/net/libp2p", "^TestVerif_C18_Envelopes$", ["c18_test.go"],
                    inputs={"cases.ndjson": singles, "batches.ndjson": batches}, label="envelopes", timeout=ctx.pick(900, 3000))
    ctx.absorb(go)
    c = (go.reports.get("envelopes") or {}).get("counters") or {}
    for k in kinds:
        if c.get("verdict_" + k, 0) == 0:
            ctx.broken("the replay never exercised verdict %s" % k)
    return ctx.finish(
        level="model_checking",
        rule="TLC: all 960 envelopes and all 921600 batches of two. Replay: every envelope alone and %d random batches of 2-6 on the real "
             "channel; non-trivial = batches containing an envelope dropped after the container decoded." % len(batches),
        assumptions=["the author (pubsub From) was authenticated by libp2p before the channel is called",
                     "three representative malformations of the identity and one of container / payload"],
        exhaustive=True)
