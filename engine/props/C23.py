"""C23 — each coordination window is triggered exactly once, in order."""
META = {
    "level": "model_checking",
    "text": "TLC exhaustively checks the window-watcher model over all block streams (repeats, gaps, regressions, block 0, values around "
            "multiples of the frequency) with asynchronous callback goroutines and cancellation: started windows are positive multiples of "
            "the frequency, strictly increasing, each run at most once, and equal to the record-high multiples of the stream. Every stream "
            "of the model is replayed on the real watchCoordinationWindows through a harness-fed block channel (model frequency mapped to "
            "the real coordinationFrequencyBlocks, low and near-2^64 ranges), comparing the invoked callbacks and index()/isAfter() after "
            "every block; random long streams with cancellation racing the sender are trace-validated.",
    "note": "Trusted: fences and the cancellation verdict are read from runtime.Stack goroutine states. The block source of the real node "
            "(BlockCounter.WatchBlocks) is replaced by the harness channel.",
    "technique": "TLA+ spec, TLC exhaustive incl. liveness; behaviour replay on real code; trace validation with inferred loop iterations",
    "design_ref": "DESIGN.md §4.5 C23",
}
SPEC = "specs/WindowWatcher"
PKG = "pkg/tbtc"


def run(ctx):
    import json
    import random
    import re
    cfg = ctx.pick("MC_Watcher", "MC_Watcher_T")
    r = ctx.tlc(SPEC, "WindowWatcher", cfg=cfg, coverage=True, label=cfg, timeout=1800)
    ctx.require_coverage(r, ["Observe", "DoRun", "Cancel", "Return"], cfg)
    r = ctx.tlc(SPEC, "WindowWatcher", cfg="MC_Live", coverage=True, label="MC_Live")
    ctx.require_coverage(r, ["Observe", "DoRun"], "MC_Live")
    gcfg = ctx.pick("Gen_Watcher", "Gen_Watcher_T")
    g = ctx.tlc(SPEC, "Gen_WindowWatcher", cfg=gcfg, workers=1, label=gcfg, dump_trace=False, timeout=1800)
    streams = ctx.read_emitted(g, "streams.ndjson")
    if len(streams) < 5000:
        ctx.broken("generation too small: %d streams" % len(streams))
    if not ctx.thorough:
        rnd = random.Random(ctx.seed)
        hot = [s for s in streams if len(s["started"]) >= 2 or any(st["a"] == "Cancel" for st in s["steps"])]
        rest = [s for s in streams if not (len(s["started"]) >= 2 or any(st["a"] == "Cancel" for st in s["steps"]))]
        streams = rnd.sample(hot, min(len(hot), 1400)) + rnd.sample(rest, min(len(rest), 600))
    go = ctx.gotest(PKG, "^TestVerif_C23_", ["c23_test.go"], inputs={"streams.ndjson": streams},
                    env={"VERIF_RUNS": ctx.pick(60, 600)}, label="watcher", timeout=ctx.pick(900, 3000))
    ctx.absorb(go)
    for name in ("streams", "trace"):
        if name not in go.reports:
            ctx.broken("harness report %s missing" % name)
    if go.reports["streams"]["evaluations"] < len(streams) and not ctx.violations:
        ctx.broken("only %d of %d streams were replayed" % (go.reports["streams"]["evaluations"], len(streams)))
    if (go.reports["trace"].get("counters") or {}).get("skipped") and not ctx.violations:
        ctx.broken("the trace test was skipped although no divergence was reported")
    tp = ctx.trace_path(go, "trace_watcher")
    ok, tr = ctx.validate_trace(SPEC, "Trace_WindowWatcher", tp, cfg="Trace_WindowWatcher", label="Trace_WindowWatcher",
                                timeout=ctx.pick(600, 1800))
    lines = open(tp).read().splitlines()
    if ok:
        ctx.traces_validated += sum(1 for ln in lines if '"Reset"' in ln)
    elif tr.violated and tr.violated != "Postcondition":
        ctx.violation("trace:invariant:" + tr.violated,
                      "a recorded run of watchCoordinationWindows drives the model into a state violating %s" % tr.violated,
                      {"tlc": tr.out[-3000:]})
    else:
        mh = re.findall(r'"VERIF_HWM",\s*(\d+)', tr.out)
        hw = int(mh[-1]) if mh else 1
        rejected = json.loads(lines[hw - 1]) if hw <= len(lines) else {}
        ctx.violation("trace:" + str(rejected.get("event", "?")),
                      "recorded run of watchCoordinationWindows is not a behaviour of the window watcher specification "
                      "(rejected at line %d: %s)" % (hw, lines[hw - 1] if hw <= len(lines) else "?"),
                      {"trace_window": lines[max(0, hw - 25):hw + 2], "tlc": tr.out[-1500:]})
    return ctx.finish(
        level="model_checking",
        rule="all block streams of 4 (thorough: 5) steps over {0, F-1, F, F+1, 2F, 2F+1, 3F, 3F+1} with an optional cancellation point "
             "(quick: seeded sample of 2000, preferring streams with >= 2 started windows or a cancellation) replayed on the real "
             "watcher, every 4th in the near-2^64 range; non-trivial = a window is started or the stream is cancelled; plus random "
             "streams of 10-90 blocks with racing cancellation, trace-validated with F = 900",
        assumptions=["goroutine wait states reported by runtime.Stack are used as fences (loop parked in select, no spawned goroutine alive)",
                     "a watcher parked after cancel() returned does not listen to ctx.Done() (cancel wakes selecting goroutines synchronously)",
                     "the block source is the harness channel, not BlockCounter.WatchBlocks"],
        exhaustive=ctx.thorough)
