"""C33 — proposal discovery selects exactly the eligible requests, oldest first."""
META = {
    "level": "model_checking",
    "text": "Deposit discovery, redemption discovery and the proposal generator's task dispatch are deterministic functions of the chain "
            "state they read (up to the order of equally old redemption requests). The TLA+ module Discovery enumerates event histories "
            "(reveal blocks out of order and tied, deposits of other wallets, duplicated / outdated / foreign redemption events), request "
            "states (age, swept, confirmations, missing, pending, delay), limits, flags, failing chain calls and checklists with task "
            "outcomes; TLC checks 'first max eligible in reveal order', 'one per key, inside [max(minAge, delay), timeout], oldest first, "
            "at most the limit', tie-independence and 'first checklist task yielding a proposal, else no-op' on all of them, and every "
            "scenario is executed on the real findDeposits / FindDepositsToSweep, findPendingRedemptions / FindPendingRedemptions and "
            "ProposalGenerator.Generate over a chain fake with real event filters.",
    "note": "Ages are placed half an hour inside one-hour slots relative to time.Now(), thresholds are whole hours (ages exactly on a "
            "threshold are not modelled). Proposal construction after discovery (fee estimation, on-chain validation) is exercised only for "
            "the heartbeat task; Generate is driven with instrumented tasks for all outcomes and with the real task list where outcomes "
            "can be arranged by chain state.",
    "technique": "TLA+ decision spec enumerated exhaustively by TLC; every generated scenario replayed through the real functions",
    "design_ref": "DESIGN.md §4.5 C33",
}
SPEC = "specs/Discovery"


def par(jobs):
    import threading
    res, errs = [None] * len(jobs), []

    def w(i, f):
        try:
            res[i] = f()
        except BaseException as e:      # noqa
            errs.append(e)
    ts = [threading.Thread(target=w, args=(i, f)) for i, f in enumerate(jobs)]
    for t in ts:
        t.start()
    for t in ts:
        t.join()
    if errs:
        raise errs[0]
    return res


def run(ctx):
    cfg = ctx.pick("Discovery", "Discovery_thorough")
    import os
    base = open(os.path.join(os.path.dirname(__file__), "..", "..", SPEC, "Gen_%s.cfg" % cfg)).read()

    def gen(label, kinds, filters):
        # the generation is split into independent parts that run in parallel TLC processes
        text = base.replace('GenKinds = {"deposits", "redemptions", "generate"}', "GenKinds = {%s}" % kinds)
        text = text.replace('DepositFilters = {"this", "all"}', "DepositFilters = {%s}" % filters)
        if text == base:
            ctx.broken("cannot specialise Gen_%s.cfg" % cfg)
        return lambda: ctx.tlc(SPEC, "Gen_Discovery", cfg_text=text, workers=1, label="Gen_" + label, dump_trace=False,
                               timeout=3000, heap="4g")
    res = par([
        lambda: ctx.tlc(SPEC, "MC_Discovery", cfg="MC_" + cfg, coverage=True, label="MC_Discovery", timeout=3000, workers=4),
        gen("deposits_this", '"deposits"', '"this"'),
        gen("deposits_all", '"deposits"', '"all"'),
        gen("redemptions", '"redemptions"', '"this"'),
        gen("generate", '"generate"', '"this"'),
    ])
    mc = res[0]
    ctx.require_coverage(mc, ["FindDeposits", "FindRedemptions", "Generate"], "MC_Discovery")
    cases = []
    for g in res[1:]:
        part = ctx.read_emitted(g, "cases.ndjson")
        if not part:
            ctx.broken("a generation part emitted no cases")
        cases += part
    import re
    m = re.search(r"Finished computing initial states: (\d+) distinct", mc.out)
    init = int(m.group(1)) if m else 0
    if len(cases) < 20000 or (init and init != len(cases)):
        ctx.broken("Gen_Discovery emitted %d cases, MC_Discovery has %d initial states" % (len(cases), init))
    go = ctx.gotest("pkg/tbtcpg", "^TestVerif_C33_", ["c33_test.go"], inputs={"cases.ndjson": cases}, label="discovery",
                    timeout=ctx.pick(900, 3000))
    ctx.absorb(go, require_evals=len(cases))
    counters = (go.reports.get("discovery") or {}).get("counters") or {}
    for k in ("deposits/ok", "deposits/error", "redemptions/ok", "redemptions/ties", "redemptions/error:delay", "generate/ok",
              "generate/error", "generate/real-tasks"):
        if counters.get(k, 0) < 20:
            ctx.broken("harness compared only %d cases of class %s" % (counters.get(k, 0), k))
    return ctx.finish(
        level="model_checking",
        rule="deposits: all histories of <= 3 DepositRevealed events x reveal blocks {1,2} x deposit states {ok, young, swept, "
             "5 confirmations, unreadable confirmations, missing request, other wallet, ...} x limits x (skipSwept, skipUnconfirmed) x wallet "
             "filter; redemptions: event histories (ordered, out of order, duplicates per key, outside the lookback window, other wallet) x "
             "per-key state {not pending, age slot x delay} x limits x failing chain call; generator: all checklists of <= 3 actions "
             "(incl. unsupported) x task outcomes {proposal, none, error}; non-trivial = a non-empty selection / a checklist of >= 2 actions",
        assumptions=["the chain fake applies the event filters the code passes (wallet, start block) as an Ethereum node would",
                     "a single case never takes more than 30 minutes (age slots)",
                     "the order of equally old redemption requests is unspecified (Go map iteration); any such order is accepted"],
        exhaustive=True)
