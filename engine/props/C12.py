"""C12 — protocol messages are only accepted from the member index the sender controls."""
META = {
    "level": "model_checking",
    "text": "One TLA+ admission predicate, parameterized by a steps table (45 rows: every state of GJKR, beacon result signing, "
            "tECDSA key generation and signing, result and claim signing, the readiness announcer, the coordination follower, the "
            "signing-done listener and the membership validator itself), decides for every (receiver, sender network key, claimed "
            "index on the wire, payload type, session/context, operating status, embedded key, leader, payload class) whether the "
            "step acts on the message. TLC checks the property's clauses as invariants over the whole finite input space (4 seats "
            "with a 2-seat operator; thorough: 5 seats with a 3-seat operator; indexes 0, above the group, 255 and values that only "
            "fit after truncation to 8 bits) and emits every case; every case is replayed on the REAL state / loop of every row "
            "(real membership validator over real operator keys, real unmarshalers, fake net.Message) and the observed reaction is "
            "compared with the specified one. A second module specifies what the receiving loops keep over a stream of messages "
            "(append / set / first-wins / until-accepted) with the same predicate deciding each message; all sequences of up to 3 "
            "messages are replayed on the real announcer, coordination follower, signing-done listener and two protocol states.",
    "note": "Trusted: the transport layer pins SenderPublicKey (not modelled); states are built with the packages' constructors and "
            "test helpers, not by running the cryptographic protocols (except GJKR phases 4 and 8, whose real Initiate takes the "
            "operating snapshot); pkg/beacon/entry signature shares are not part of the property's step list.",
    "technique": "TLA+ decision spec with a per-step rule table, enumerated exhaustively by TLC; every case replayed on the real Receive methods / receive loops of 8 packages; TLA+ accumulator spec of the receiving loops, all message sequences up to length 3 replayed",
    "design_ref": "DESIGN.md §4.3 C12",
}
SPEC = "specs/Admission"
OV = {"internal/verifadm/admission.go": "shared/c12/admission.go"}
PKGS = [
    ("pkg/protocol/group", "group"),
    ("pkg/beacon/gjkr", "gjkr"),
    ("pkg/beacon/dkg/result", "beaconResult"),
    ("pkg/protocol/inactivity", "inactivity"),
    ("pkg/protocol/announcer", "announcer"),
    ("pkg/tecdsa/dkg", "tecdsaDkg"),
    ("pkg/tecdsa/signing", "tecdsaSigning"),
    ("pkg/tbtc", "tbtc"),
]
INVARIANT_ACTIONS = ["Deliver"]


def run(ctx):
    import os
    suffix = ctx.pick("", "_thorough")
    # 1. the property's clauses are invariants of the specified predicate, for every row (exhaustive)
    #    (quick: the representative rows of step 2 only -- rows sharing a rule are decided by the same expression)
    if ctx.thorough:
        ctx.tlc(SPEC, "MC_Admission", cfg="MC_Admission_thorough", label="MC_AllRows_5seats", timeout=6000)
    # 2. one representative row per rule: invariants again, and every case is emitted;
    # 3. (side by side, an independent model) streams of messages: the receivers that accumulate what they admit
    #    (AdmissionLoop.tla); every behaviour of up to 3 deliveries over an 8-letter message alphabet, for 5 steps
    from concurrent.futures import ThreadPoolExecutor
    with ThreadPoolExecutor(max_workers=2) as pool:
        fg = pool.submit(ctx.tlc, SPEC, "MC_Admission", cfg="MC_Gen" + suffix, workers=1, coverage=True,
                         label="MC_Gen" + suffix, dump_trace=True, timeout=ctx.pick(1800, 6000))
        fl = pool.submit(ctx.tlc, SPEC, "MC_Loop", cfg="MC_Loop", workers=1, coverage=True, label="MC_Loop",
                         timeout=ctx.pick(1800, 3600))
        g, lp = fg.result(), fl.result()
    ctx.require_coverage(g, INVARIANT_ACTIONS, "MC_Gen")
    cases = ctx.read_emitted(g, "cases.ndjson")
    rows = ctx.read_emitted(g, "rows.ndjson")        # the steps table and the world, written by ASSUMEs of MC_Admission
    world = ctx.read_emitted(g, "world.ndjson")
    if len(rows) != 45 or len(world) != 1:
        ctx.broken("expected 45 rows and one world, got %d rows, %d worlds" % (len(rows), len(world)))
    by_rule = {}
    for c in cases:
        by_rule.setdefault(c["rule"], []).append(c)
    rules = sorted({r["rule"] for r in rows})
    for rule in rules:
        n = len(by_rule.get(rule, []))
        acted = sum(1 for c in by_rule.get(rule, []) if c["expected"] != "ignored")
        if n < 4 or (rule != "silent" and acted == 0):
            ctx.broken("rule %s: %d cases, %d acted on: generation too small" % (rule, n, acted))
    ctx.note("cases per rule: " + ", ".join("%s=%d (%d acted on)" % (
        r, len(by_rule[r]), sum(1 for c in by_rule[r] if c["expected"] != "ignored")) for r in rules))
    ctx.extra["steps_table"] = [{"step": r["id"], "rule": r["rule"], "accepts": r["accepts"], "others": r["others"],
                                 "observe": r["observe"]} for r in sorted(rows, key=lambda x: x["id"])]
    ctx.require_coverage(lp, ["DoDeliver"], "MC_Loop")
    seqs = ctx.read_emitted(lp, "sequences.ndjson")
    alphabet = ctx.read_emitted(lp, "alphabet.ndjson")
    loopworld = ctx.read_emitted(lp, "loopworld.ndjson")
    if len(loopworld) != 1:
        ctx.broken("expected one world of the loop model, got %d" % len(loopworld))
    if len(alphabet) != 5 * 8:
        ctx.broken("expected 8 letters for each of 5 loop steps, got %d" % len(alphabet))
    loop_steps = sorted({q["step"] for q in seqs})
    if len(seqs) != 5 * (8 + 64 + 512) or len(loop_steps) != 5:
        ctx.broken("expected 2920 message sequences for 5 steps, got %d for %s" % (len(seqs), loop_steps))
    if any(not any(r["id"] == st for r in rows) for st in loop_steps):
        ctx.broken("a loop step is not a row of the steps table: %s" % loop_steps)
    ctx.extra["loop_steps"] = loop_steps
    # 4. replay on the real code, one harness per package
    only = os.environ.get("VERIF_C12_ONLY")      # development aid: comma separated labels
    jobs = []
    for pkg, label in PKGS:
        if only and label not in only.split(","):
            continue
        prow = [r for r in rows if r["pkg"] == pkg]
        need = sorted({r["rule"] for r in prow})
        pcases = [c for rule in need for c in by_rule[rule]]
        pseqs = [q for q in seqs if q["step"].startswith(pkg + "/")]
        expected = sum(len(by_rule[r["rule"]]) for r in prow) + len(pseqs)
        jobs.append((pkg, label, prow, pcases, expected, pseqs))

    def one(job):
        pkg, label, prow, pcases, expected, pseqs = job
        return ctx.gotest(pkg, "^TestVerif_C12_", ["c12_test.go"], extra_overlay=OV, label=label,
                          inputs={"rows.ndjson": prow, "world.ndjson": world, "cases.ndjson": pcases,
                                  "sequences.ndjson": pseqs, "alphabet.ndjson": alphabet, "loopworld.ndjson": loopworld},
                          timeout=ctx.pick(2400, 5400))

    # the eight harness binaries are independent: build and run them side by side
    # (each call works in its own scratch directory; results are folded in afterwards, in order)
    with ThreadPoolExecutor(max_workers=int(os.environ.get("VERIF_C12_JOBS", "4"))) as pool:
        futures = [pool.submit(one, j) for j in jobs]
        results = []
        for f in futures:
            try:
                results.append(f.result())
            except Exception as ex:      # Broken (build failure, timeout, ...) or anything else: report after all finished
                results.append(ex)
    total_expected = 0
    failed = []
    for job, go in zip(jobs, results):
        if isinstance(go, Exception):
            failed.append((job[1], go))
            continue
        total_expected += job[4]
        ctx.absorb(go, require_evals=job[4])
    if failed and not ctx.violations:
        raise failed[0][1]
    for label, ex in failed:
        # divergences observed in other packages stand; say which harness could not run
        ctx.note("harness %s could not be evaluated: %s" % (label, str(ex).splitlines()[0][:300]))
    return ctx.finish(
        level="model_checking",
        rule="every case of the finite input space of each rule (receiver x sender key x wire index x payload type x context "
             "mismatch x exclusion x embedded key x leader x payload class; %d cases) replayed on every row using the rule "
             "(%d row-case evaluations; thorough: every payload type of the row, quick: payload types rotated); non-trivial = "
             "decodable messages of a type the step accepts (the admission predicate itself decides). Plus every sequence of "
             "1..3 messages over an 8-letter alphabet (genuine / sibling seat / excluded member / spoofed index / outsider / own "
             "index / other context / forbidden action or wrapped index; %d sequences) delivered to the real announcer loop, "
             "coordination follower, signing-done listener, a GJKR state and the claim signing state, comparing what they kept"
             % (len(cases), total_expected, len(seqs)),
        assumptions=["SenderPublicKey of a net.Message is the key the transport layer authenticated (pkg/net, not modelled here)",
                     "states are constructed with the packages' constructors / Next() chains and test helpers; only GJKR phases 4 "
                     "and 8 run the real Initiate (operating snapshot)",
                     "a message whose Unmarshal fails is dropped by the channel (pkg/net/libp2p channel.processContainerMessage)"],
        exhaustive=True)
