"""C02 — beacon DKG (GJKR): honest key shares are consistent with the group public key."""
import importlib.util
import os

_p = os.path.join(os.path.dirname(os.path.abspath(__file__)), "gjkr_common.py")
_s = importlib.util.spec_from_file_location("gjkr_common", _p)
G = importlib.util.module_from_spec(_s)
_s.loader.exec_module(G)

META = {
    "level": "model_checking",
    "text": "The GJKR model of C01 tracks, per honest member, which senders' shares are summed into its private key share, which "
            "terms (own point, stored valid points, reconstructed keys with their provider sets) are summed into the group "
            "public key and which values enter every public key share. TLC checks exhaustively (n=3 quick; n=3,4,5 thorough) "
            "ShareConsistency: all honest share sets are equal, the key is exactly the sum of the true constant terms of that "
            "set (each once), every public key share computed for an honest member uses only true values, and every honest "
            "member is in QUAL. The unrepaired model is shown to violate it. The same directed and random behaviours as for "
            "C01 are replayed on the real code and the statement is decided on the real bn256 values: x_h*G2 equals the public "
            "key share every other honest member computed for h and every (t+1)-subset of honest shares interpolates to the "
            "discrete logarithm of the group public key. Runs against a harness-chosen adversary are trace-validated against the "
            "model with ShareConsistency evaluated on every state of the real traces.",
    "note": "Trusted: the harness' abstraction function; Lagrange interpolation and the G2 comparison are done by the harness with "
            "bn256 of go-ethereum (the library under test uses the same); all (t+1)-subsets of the honest members are checked "
            "(n<=5). Not covered: pkg/beacon/dkg/signer.go persistence of the share.",
    "technique": "TLA+ spec with symbolic key/share terms checked exhaustively with TLC; hazard (unrepaired) variant violated; "
                 "TLC-generated behaviours replayed on the real member/state objects and the algebraic statement evaluated on real values",
    "design_ref": "DESIGN.md §4.2 C01 / C02",
}


def run(ctx):
    if ctx.replay:
        return G.replay_one(ctx, "C02")
    sel, res = G.generate(ctx, "C02")
    ctx.extra["hazard_violated"] = res["hazard"].violated
    G.replay(ctx, "C02", sel)
    return ctx.finish(
        level="model_checking",
        rule="TLC exhaustively checks ShareConsistency/HonestInQual on the repaired GJKR model (n=3 quick; n=3,4,5 thorough). "
             "Replayed on the real code: every directed behaviour whose adversary breaks the unrepaired model plus "
             "TLC-simulated random adversaries (n=3,4,5, incl. behaviours that force reconstruction of a QUAL member's key); "
             "for every run in which the honest members agree, x_h*G2 is compared with the public key share computed by "
             "every other honest member and every (t+1)-subset of honest shares is interpolated and compared with the group "
             "public key; every step is also compared with the model. Trace validation of harness-adversary runs as in C01.",
        assumptions=["same execution model as C01 (synchronous rounds, consistent broadcast, one operator per seat)",
                     "the harness' Lagrange interpolation and point comparison are correct",
                     "exhaustive exploration is bounded: n<=5, at most 2 corrupt, deviation budget 2 (3 for n=3)"],
        exhaustive=False)
