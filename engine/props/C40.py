"""C40 — key generation results and inactivity claims satisfy the on-chain rules."""
META = {
    "disabled": True,
    "level": "model_checking",
    "text": "draft",
    "note": "draft",
    "technique": "draft",
    "design_ref": "DESIGN.md §4.6 C40",
}
SPEC = "specs/ChainRules"
OV = {"internal/verifc40/solidity.go": "shared/c40/solidity.go"}


def run(ctx):
    g = ctx.tlc(SPEC, "Gen_ChainRules", cfg="Gen_N4q", workers=1, label="Gen_N4q", dump_trace=False, timeout=900)
    cases = ctx.read_emitted(g, "cases.ndjson")
    g2 = ctx.tlc(SPEC, "Gen_InactivityClaim", cfg="Gen_Claim4", workers=1, label="Gen_Claim4", dump_trace=False, timeout=900)
    claims = ctx.read_emitted(g2, "claims.ndjson")
    ctx.note("cases %d claims %d" % (len(cases), len(claims)))
    go = ctx.gotest("pkg/chain/ethereum", "^TestVerif_C40_", ["c40_test.go"], inputs={"cases.ndjson": cases, "claims.ndjson": claims},
                    extra_overlay=OV, label="chain", timeout=1500)
    ctx.absorb(go)
    return ctx.finish(level="model_checking", rule="draft", assumptions=["draft"], exhaustive=False)
