"""C40 — key generation results and inactivity claims satisfy the on-chain rules."""
import os
import re

META = {
    "level": "model_checking",
    "text": "The WalletRegistry rules (EcdsaDkgValidator.validate and its four parts, EcdsaDkg.submitResult's submitter rule, "
            "Wallets.addWallet, WalletRegistry.notifyOperatorInactivity + EcdsaInactivity.verifyClaim, OpenZeppelin ECDSA.recover) are "
            "transcribed statement by statement into the TLA+ modules ChainRules / InactivityClaim next to a model of the client's "
            "submission path (SignResult, signature admission, the signature gate, chain-state check, AssembleDKGResult, on-chain "
            "precheck, submission, approval, final signing group; NewClaimPreimage .. SubmitClaim). Hashes are abstract terms over typed "
            "values. TLC checks for every selected group (incl. operators holding several seats), every operating/misbehaving "
            "partition, submitter, supporter set and signature message (honest, absent, 8 adversarial forms) with n <= 6 that whatever "
            "passes the client's gate satisfies the static rules, the members hash definition and per-signature recovery, that the gate "
            "implies both contract thresholds, and that the registered wallet is the wallet the client operates. Every generated case is "
            "replayed on the real tbtc.go / signer.go functions and on the real dkgResultSigner / dkgResultSubmitter / inactivity claim "
            "signer and submitter running on the real Ethereum TbtcChain, and compared step by step; abstract hashes are mapped to bytes by "
            "an ABI encoder + keccak written from the Solidity text, signatures are recovered with OpenZeppelin's rules. The property "
            "quantifies over inputs, which TLC enumerates: model checking.",
    "note": "Trusted: the hand transcription of the Solidity sources into TLA+ and into the harness (no EVM / solc offline; the engine "
            "only checks that every transcribed statement is still present in the .sol files and the two transcriptions are compared with "
            "each other on every case); go-ethereum's secp256k1 recovery and keccak; the sortition pool is an ID<->address bijection. "
            "Start blocks >= 2^63 and member indexes > 255 are outside the input space. The DKG protocol itself is not run: its outcome "
            "(misbehaved set, who supports the result) is an input.",
    "technique": "TLA+ decision/pipeline spec with a hand-transcribed contract half, TLC exhaustive; generated cases replayed on the real "
                 "client code against an independent ABI/keccak/recover implementation; hazard grain for signature admission",
    "design_ref": "DESIGN.md §4.6 C40",
}
SPEC = "specs/ChainRules"
OV = {"internal/verifc40/solidity.go": "shared/c40/solidity.go"}
OV_T = dict(OV)
OV_T["pkg/chain/ethereum/zz_verif_c40_export.go"] = "pkg/chain/ethereum/c40_export.go"

DKG_ACTS = ["SignResult", "Collect", "GateReject", "GatePass", "NotAwaiting", "Assemble", "Precheck", "Submit", "Superseded", "Approve", "RegisterSigner"]
CLAIM_ACTS = ["NewClaim", "SignClaim", "Collect", "GateReject", "GatePass", "NonceMoved", "Assemble", "Superseded", "Notify"]

# the Solidity statements the transcriptions rest on: (file, statement with whitespace normalized)
SOL = "solidity/ecdsa/contracts/"
QUOTES = [
    (SOL + "EcdsaDkgValidator.sol", s) for s in [
        "uint256 public constant publicKeyByteSize = 64;",
        "uint256 public constant signatureByteSize = 65;",
        "if (result.groupPubKey.length != publicKeyByteSize) {",
        "if (groupSize - misbehavedMembersIndices.length < activeThreshold) {",
        "if (misbehavedMembersIndices.length > 1) { if ( misbehavedMembersIndices[0] < 1 || misbehavedMembersIndices[misbehavedMembersIndices.length - 1] > groupSize ) {",
        "for (uint256 i = 1; i < misbehavedMembersIndices.length; i++) { if ( misbehavedMembersIndices[i - 1] >= misbehavedMembersIndices[i] ) {",
        "uint256 signaturesCount = result.signatures.length / signatureByteSize; if (result.signatures.length == 0) {",
        "if (result.signatures.length % signatureByteSize != 0) {",
        "if (signaturesCount != signingMembersIndices.length) {",
        "if (signaturesCount < groupThreshold) {",
        "if (signaturesCount > groupSize) {",
        "if ( signingMembersIndices[0] < 1 || signingMembersIndices[signingMembersIndices.length - 1] > groupSize ) {",
        "for (uint256 i = 1; i < signingMembersIndices.length; i++) { if (signingMembersIndices[i - 1] >= signingMembersIndices[i]) {",
        "uint32[] memory actualGroupMembers = sortitionPool.selectGroup( groupSize, bytes32(seed) );",
        "if (resultMembers[i] != actualGroupMembers[i]) {",
        "bytes32 hash = keccak256( abi.encode( block.chainid, result.groupPubKey, result.misbehavedMembersIndices, startBlock ) ).toEthSignedMessageHash();",
        "signingMemberIds[i] = result.members[signingMembersIndices[i] - 1];",
        "address[] memory signingMemberAddresses = sortitionPool.getIDOperators( signingMemberIds );",
        "current = result.signatures.slice( signatureByteSize * i, signatureByteSize ); address recoveredAddress = hash.recover(current); if (signingMemberAddresses[i] != recoveredAddress) {",
        "uint32[] memory groupMembers = new uint32[]( result.members.length - result.misbehavedMembersIndices.length );",
        "for (uint256 i = 0; i < result.members.length; i++) {",
        "if (i != result.misbehavedMembersIndices[k] - 1) { groupMembers[j] = result.members[i]; j++; } else if (k < result.misbehavedMembersIndices.length - 1) { k++; }",
        "return keccak256(abi.encode(groupMembers)) == result.membersHash;",
        "return keccak256(abi.encode(result.members)) == result.membersHash;",
        "(bool hasValidFields, string memory error) = validateFields(result); if (!hasValidFields) { return (false, error); } if (!validateSignatures(result, startBlock)) { return (false, \"Invalid signatures\"); } if (!validateGroupMembers(result, seed)) { return (false, \"Invalid group members\"); }",
        "if (!validateMembersHash(result)) { return (false, \"Invalid members hash\"); }",
    ]
] + [
    (SOL + "libraries/EcdsaDkg.sol", s) for s in [
        "uint256 submitterMemberIndex;", "bytes groupPubKey;", "uint8[] misbehavedMembersIndices;", "bytes signatures;",
        "uint256[] signingMembersIndices;", "uint32[] members;", "bytes32 membersHash;",
        "sortitionPool.getIDOperator( result.members[result.submitterMemberIndex - 1] ) == msg.sender,",
    ]
] + [
    (SOL + "libraries/Wallets.sol", s) for s in [
        "walletID = keccak256(publicKey);",
        "self.registry[walletID].membersIdsHash = membersIdsHash;",
    ]
] + [
    (SOL + "WalletRegistry.sol", s) for s in [
        "require(nonce == inactivityClaimNonce[walletID], \"Invalid nonce\");",
        "require( memberIdsHash == keccak256(abi.encode(groupMembers)), \"Invalid group members\" );",
        "uint32[] memory ineligibleOperators = Inactivity.verifyClaim( sortitionPool, claim, bytes.concat(pubKeyX, pubKeyY), nonce, groupMembers );",
    ]
] + [
    (SOL + "libraries/EcdsaInactivity.sol", s) for s in [
        "uint256[] inactiveMembersIndices;", "bool heartbeatFailed;", "uint256[] signingMembersIndices;",
        "uint256 public constant signatureByteSize = 65;",
        "validateMembersIndices( claim.inactiveMembersIndices, groupMembers.length );",
        "uint256 signaturesCount = claim.signatures.length / signatureByteSize; require(claim.signatures.length != 0, \"No signatures provided\");",
        "require( claim.signatures.length % signatureByteSize == 0, \"Malformed signatures array\" );",
        "require( signaturesCount == claim.signingMembersIndices.length, \"Unexpected signatures count\" );",
        "require(signaturesCount >= groupThreshold, \"Too few signatures\");",
        "require(signaturesCount <= groupMembers.length, \"Too many signatures\");",
        "validateMembersIndices( claim.signingMembersIndices, groupMembers.length );",
        "bytes32 signedMessageHash = keccak256( abi.encode( block.chainid, nonce, walletPubKey, claim.inactiveMembersIndices, claim.heartbeatFailed ) ).toEthSignedMessageHash();",
        "address[] memory groupMembersAddresses = sortitionPool.getIDOperators( groupMembers );",
        "address recoveredAddress = signedMessageHash.recover( checkedSignature );",
        "require( groupMembersAddresses[memberIndex - 1] == recoveredAddress, \"Invalid signature\" );",
        "if (!senderSignatureExists && msg.sender == recoveredAddress) { senderSignatureExists = true; }",
        "require(senderSignatureExists, \"Sender must be claim signer\");",
        "inactiveMembers[i] = groupMembers[memberIndex - 1];",
        "require( indices.length > 0 && indices.length <= groupSize, \"Corrupted members indices\" );",
        "require( indices[0] > 0 && indices[indices.length - 1] <= groupSize, \"Corrupted members indices\" );",
        "for (uint256 i = 0; i < indices.length - 1; i++) {",
        "require(indices[i] < indices[i + 1], \"Corrupted members indices\");",
    ]
]


def _norm(s):
    s = re.sub(r"//[^\n]*", " ", s)
    return re.sub(r"\s+", "", s)


def read_sources(ctx):
    """Transcription guard + the constants of both sides, read from the tree under test."""
    repo = os.environ.get("VERIF_REPO", "/repo")
    texts = {}
    for f, q in QUOTES:
        if f not in texts:
            try:
                texts[f] = _norm(open(os.path.join(repo, f)).read())
            except OSError as e:
                ctx.broken("cannot read %s: %s" % (f, e))
        if _norm(q) not in texts[f]:
            ctx.broken("the Solidity statement the transcription rests on is no longer in %s: the specification's contract half is "
                       "stale and must be re-transcribed by hand: %s" % (f, q))

    def const(f, name):
        m = re.search(r"uint256publicconstant%s=(\d+);" % name, texts[SOL + f])
        if not m:
            ctx.broken("constant %s not found in %s" % (name, f))
        return int(m.group(1))
    sol = {"SIZE": const("EcdsaDkgValidator.sol", "groupSize"), "ACTIVE": const("EcdsaDkgValidator.sol", "activeThreshold"),
           "THRESHOLD": const("EcdsaDkgValidator.sol", "groupThreshold"),
           "CLAIM_THRESHOLD": const("libraries/EcdsaInactivity.sol", "groupThreshold")}
    go = open(os.path.join(repo, "pkg/tbtc/tbtc.go")).read()
    m = re.search(r"groupParameters\s*:=\s*&GroupParameters\{\s*GroupSize:\s*(\d+),\s*GroupQuorum:\s*(\d+),\s*HonestThreshold:\s*(\d+),", go)
    if not m:
        ctx.broken("cannot find the client's group parameters in pkg/tbtc/tbtc.go")
    cli = {"SIZE": int(m.group(1)), "QUORUM": int(m.group(2)), "HONEST": int(m.group(3))}
    return sol, cli


def par(jobs, limit=4):
    """Run the jobs on threads, at most `limit` at a time (the machine is shared: never more than a few JVMs)."""
    import threading
    res, errs = [None] * len(jobs), []
    gate = threading.Semaphore(limit)

    def w(i, f):
        with gate:
            if errs:
                return
            try:
                res[i] = f()
            except BaseException as e:      # noqa
                errs.append(e)
    ts = [threading.Thread(target=w, args=(i, f)) for i, f in enumerate(jobs)]
    for t in ts:
        t.start()
    for t in ts:
        t.join()
    if errs:
        raise errs[0]
    return res


def run(ctx):
    sol, cli = read_sources(ctx)
    ctx.note("constants: contract %s, client %s; %d transcribed Solidity statements present" % (sol, cli, len(QUOTES)))

    # ---- 1. TLC: the contract model satisfies the property; hazard / weak-gate variants must violate it (non-vacuity)
    mc_dkg = ctx.pick([], ["MC_N5", "MC_N5adv2", "MC_N5wide", "MC_N4", "MC_N6"])
    mc_claim = ctx.pick([], ["MC_Claim5", "MC_Claim5wide", "MC_Claim4", "MC_Claim6"])
    gen_dkg = ctx.pick(["Gen_N4q"], ["Gen_N4", "Gen_N5", "Gen_N6"])
    gen_claim = ctx.pick(["Gen_Claim4"], ["Gen_Claim4", "Gen_Claim5", "Gen_Claim6"])
    T = ctx.pick(2400, 6000)
    jobs = []      # longest first; par() keeps at most 4 TLC processes alive
    for c in gen_dkg:
        jobs.append(lambda c=c: ("gend", c, ctx.tlc(SPEC, "Gen_ChainRules", cfg=c, workers=1, label=c, dump_trace=False,
                                                    coverage=True, timeout=T, heap="1g")))
    for c in gen_claim:
        jobs.append(lambda c=c: ("genc", c, ctx.tlc(SPEC, "Gen_InactivityClaim", cfg=c, workers=1, label=c, dump_trace=False,
                                                    coverage=True, timeout=T, heap="1g")))
    for c in mc_dkg:
        jobs.append(lambda c=c: ("mcd", c, ctx.tlc(SPEC, "MC_ChainRules", cfg=c, coverage=True, label=c, timeout=T, workers=2, heap="2g")))
    for c in mc_claim:
        jobs.append(lambda c=c: ("mcc", c, ctx.tlc(SPEC, "MC_InactivityClaim", cfg=c, coverage=True, label=c, timeout=T, workers=2, heap="2g")))
    for c, mod in (("MC_Hazard", "MC_ChainRules"), ("MC_WeakGate", "MC_ChainRules"),
                   ("MC_ClaimHazard", "MC_InactivityClaim"), ("MC_ClaimWeakGate", "MC_InactivityClaim")):
        jobs.append(lambda c=c, mod=mod: ("neg", c, ctx.tlc(SPEC, mod, cfg=c, label=c, timeout=T, workers=1, heap="1g", expect=("violation",))))
    cases, claims = [], []
    for kind, c, r in par(jobs):
        if kind in ("mcd", "gend"):
            ctx.require_coverage(r, DKG_ACTS, c)
        if kind in ("mcc", "genc"):
            ctx.require_coverage(r, CLAIM_ACTS, c)
        if kind == "gend":
            got = ctx.read_emitted(r, "cases.ndjson")
            if len(got) < 3000:
                ctx.broken("%s emitted only %d cases" % (c, len(got)))
            cases += got
        if kind == "genc":
            got = ctx.read_emitted(r, "claims.ndjson")
            if len(got) < 2000:
                ctx.broken("%s emitted only %d claims" % (c, len(got)))
            claims += got
    done = sum(1 for x in cases if x["pc"] == "done")
    cdone = sum(1 for x in claims if x["pc"] == "done")
    ctx.note("generated %d result cases (%d submitted) and %d claim cases (%d accepted)" % (len(cases), done, len(claims), cdone))
    if done < 300 or cdone < 100:
        ctx.broken("too few generated cases pass the gates (%d results, %d claims)" % (done, cdone))

    # ---- 2. replay: chain-format side (all cases) and submission side (all gate-passing cases + a seeded sample of the rest)
    import random
    rnd = random.Random(ctx.seed)

    def sample(xs, n):
        hot = [x for x in xs if x["pc"] != "failed"]
        cold = [x for x in xs if x["pc"] == "failed"]
        return hot + rnd.sample(cold, min(len(cold), n))
    t_cases = sample(cases, ctx.pick(1500, 12000))
    t_claims = sample(claims, ctx.pick(800, 6000))
    env = {"VERIF_RUNS": ctx.pick(24, 240), "GOFLAGS": "-mod=mod -p=4"}
    for k, v in sol.items():
        env["VERIF_C40_SOL_" + k] = v
    for k, v in cli.items():
        env["VERIF_C40_CLIENT_" + k] = v
    ge, gt = par([
        lambda: ctx.gotest("pkg/chain/ethereum", "^TestVerif_C40_", ["c40_test.go"], inputs={"cases.ndjson": cases, "claims.ndjson": claims},
                           extra_overlay=OV, env={"VERIF_RUNS": ctx.pick(60, 600), "GOFLAGS": "-mod=mod -p=4"}, label="chain", timeout=ctx.pick(3000, 7200)),
        lambda: ctx.gotest("pkg/tbtc", "^TestVerif_C40_", ["c40_test.go", "c40_export_test.go"],
                           inputs={"cases.ndjson": t_cases, "claims.ndjson": t_claims}, extra_overlay=OV_T, env=env, label="submit",
                           timeout=ctx.pick(3000, 7200)),
    ])
    ctx.absorb(ge)
    ctx.absorb(gt)
    if not ctx.violations:
        h = ctx.extra.get("harness", {})
        need = {"dkg": ["assembled", "registered", "verdict/", "verdict/Too few signatures", "verdict/Too many members misbehaving during DKG",
                        "verify/honest/true", "verify/mislabelled/false", "verify/otherOperator/false", "verify/highS/false"],
                "claims": ["assembled", "notify/", "verify/honest/true"],
                "submit": ["pc/done", "pc/failed", "aborted/not awaiting the result", "aborted/superseded while waiting"],
                "submitclaim": ["pc/done", "pc/failed", "aborted/claim already submitted", "aborted/superseded while waiting"],
                "realparams": ["submitted", "stopped", "claim-accepted", "claim-stopped"]}
        for name, keys in need.items():
            cnt = (h.get(name) or {}).get("counters") or {}
            for k in keys:
                if cnt.get(k, 0) < (1 if name == "realparams" else 3):
                    ctx.broken("harness %s exercised %s only %d times" % (name, k, cnt.get(k, 0)))
    return ctx.finish(
        level="model_checking",
        rule="every case of the models: group size n = 4 (quick) / 4, 5, 6 (thorough) with thresholds (active, signatures, client quorum) "
             "(3,2,3) / (4,3,4) / (5,4,5); 3-5 selected groups (distinct, reversed, operators with several adjacent / separated seats, one "
             "operator everywhere); every misbehaved subset; every operating submitter; every other operating seat offering nothing, an "
             "honest signature or (at most 1-2 seats) one of 8 adversarial messages; key / chain ID / start block / nonce classes spread "
             "over the cases and instantiated by seed; inactivity claims likewise over wallets of 3-6 seats, every non-empty reported "
             "subset (presented unsorted with duplicates) and both heartbeat flags. Non-trivial = the client's gate is passed. Plus "
             "random runs with the real constants (100/90/51) around the quorum and the gate.",
        assumptions=["hand transcription of EcdsaDkgValidator / EcdsaDkg / Wallets / WalletRegistry / EcdsaInactivity / OpenZeppelin ECDSA "
                     "(guarded by a presence check of every transcribed statement)",
                     "the sortition pool maps operator IDs to addresses one to one and returns the group the client selected",
                     "supporter messages reach VerifySignature with the sender's pinned public key and the preferred result hash "
                     "(filters of pkg/tecdsa/dkg and pkg/protocol/inactivity, not re-checked here)",
                     "start blocks < 2^63, member indexes <= 255"],
        exhaustive=True)
