"""C07 — tECDSA DKG: operating members derive one wallet key; excluded ones never join."""
import random

META = {
    "level": "model_checking",
    "text": "TLC exhaustively checks a multi-member model of the tECDSA key generation as Executor.Execute runs it (one message-driven "
            "machine per running member with the real state list: ephemeral keys, symmetric keys, TSS rounds 1-3, finalization; the "
            "marking of excluded members; the four-conjunct admission predicate; the shared append-only history; the count-based "
            "CanTransition; what each Initiate feeds to the TSS party) under arbitrary delivery order, early and duplicate deliveries, "
            "echoes, a running excluded member and injected messages (excluded sender, other session, foreign envelope key): histories "
            "stay clean, operating members that complete agree on key and misbehaved list = excluded set, excluded members never "
            "complete; four admission-weakened variants are refuted by TLC as negative controls. Simulated behaviours of 3..5-member "
            "groups are replayed step by step on the real state objects (history, CanTransition, state type compared after every step) "
            "and TLC-chosen behaviours are executed with the real Executor.Execute and real tss-lib over a scheduled channel "
            "(same group public key, misbehaved = excluded, key-share parties = operating identities). The property quantifies over "
            "delivery interleavings and injected traffic, hence model checking.",
    "note": "Trusted: tss-lib (a TSS party fed exactly its peers' messages of the session produces the group key); TSS rounds are "
            "not computed in the step-by-step replay (stand-in payloads), only in the real Execute runs (quick: 1, thorough: 5); the "
            "100 ms ticker and goroutine scheduling of the real machine are not controlled, only per-receiver delivery order; "
            "exhaustive exploration is bounded to 3-4 members and <= 2 injected messages, larger instances are simulated.",
    "technique": "TLA+ multi-member machine spec + 4 hazard variants, TLC exhaustive + simulation; behaviour replay on real state objects; scheduled real Execute runs",
    "design_ref": "DESIGN.md §4.1 C07",
}
SPEC = "specs/TecdsaDkg"
PKG = "pkg/tecdsa/dkg"
ACTIONS = ["DoStart", "DoInitiate", "DoTransition", "DoFinish", "DoDeliver", "DoDeliverDup", "DoDeliverForged"]
GACTIONS = ["GStart", "GInitiate", "GTransition", "GFinish", "GDeliver", "GDeliverDup", "GDeliverForged"]
OVERLAY = {"pkg/tecdsa/dkg/zz_verif_c08_export.go": "pkg/tecdsa/dkg/c08_export.go"}


def _features(b):
    """what a behaviour exercises: counts of forged / duplicate / intruder / echo deliveries and early (future-state) messages"""
    cur = {}
    f = {"forged": 0, "dup": 0, "intruder": 0, "echo": 0, "early": 0, "admitted_dup": 0}
    for st in b["steps"]:
        i = st["i"]
        if st["a"] == "Deliver":
            k = st["kind"]
            if k in f:
                f[k] += 1
            if k == "genuine" and st["m"]["t"] > cur.get(i, 1):
                f["early"] += 1
        cur[i] = st["after"]["cur"]
    return f


def _gotest(ctx, pkgdirs, *a, **kw):
    """ctx.gotest, but a crash of the test binary whose goroutine stack goes through keep-core's protocol code (below a
    third-party frame such as tss-lib, which the engine's own culprit detection does not look through) is reported as a
    violation: the node would crash on that behaviour."""
    import re
    try:
        return ctx.gotest(*a, **kw)
    except Exception as ex:
        txt = str(ex)
        if type(ex).__name__ != "Broken" or "panic:" not in txt:
            raise
        seg = txt[txt.index("panic:"):]
        for m in re.finditer(r"^\s+(/\S+\.go):(\d+)", seg, re.M):
            f = m.group(1)
            if "zz_verif_" in f or "/verif/harness/" in f or "verifkit" in f:
                break
            if any(("/" + d + "/") in f for d in pkgdirs) and "_test.go" not in f:
                ctx.violation("panic:" + f.split("/")[-1], "keep-core protocol code crashed the process while a specification behaviour "
                              "was executed (%s:%s)" % (f, m.group(2)), {"output": seg[:3000]})
                return None
        raise


def run(ctx):
    rnd = random.Random(ctx.seed)
    # 1. the model satisfies the property (exhaustive, bounded)
    for cfg in ctx.pick(["MC_N3"], ["MC_N3", "MC_N3none", "MC_N3intruder", "MC_N4", "MC_N4two"]):
        r = ctx.tlc(SPEC, "MC_TecdsaDkg", cfg=cfg, coverage=True, label=cfg, timeout=ctx.pick(900, 3000), workers=ctx.pick(4, 8))
        ctx.require_coverage(r, [a for a in ACTIONS if not ((cfg in ("MC_N4", "MC_N3intruder", "MC_N3none") and a == "DoDeliverDup") or (cfg == "MC_N3intruder" and a == "DoDeliverForged"))], cfg)
    if ctx.thorough:
        # liveness under fairness: every operating member completes whatever is injected
        ctx.tlc(SPEC, "MC_TecdsaDkg", cfg="MC_Live", label="MC_Live", timeout=1500)
    # 2. each conjunct of the admission predicate is necessary: TLC must refute the weakened variants
    for cfg in ctx.pick(("MC_HzOperating", "MC_HzSession"), ("MC_HzOperating", "MC_HzSession", "MC_HzMember", "MC_HzSelf")):
        hz = ctx.tlc(SPEC, "MC_TecdsaDkg", cfg=cfg, label=cfg, expect=("violation",))
        if hz.violated != "HistoryClean":
            ctx.broken("%s: expected HistoryClean to be violated, got %s" % (cfg, hz.violated))
    if ctx.thorough:
        hz = ctx.tlc(SPEC, "MC_TecdsaDkg", cfg="MC_HzOperatingKeys", label="MC_HzOperatingKeys", expect=("violation",))
        if hz.violated != "OperatingNeverFail":
            ctx.broken("MC_HzOperatingKeys: expected OperatingNeverFail to be violated, got %s" % hz.violated)
    # 3. simulated behaviours of larger instances (invariants checked on every state) ...
    beh, probes = [], []
    plan = ctx.pick([("Gen_N3", 40), ("Gen_N4", 25)],
                    [("Gen_N3", 200), ("Gen_N3first", 80), ("Gen_N4", 200), ("Gen_N4two", 80), ("Gen_N4none", 60), ("Gen_N5", 100)])
    for cfg, num in plan:
        g = ctx.tlc(SPEC, "Gen_TecdsaDkg", cfg=cfg, mode="simulate", num=num, depth=500, workers=1, coverage=True, label=cfg,
                    dump_trace=False, timeout=ctx.pick(900, 3000))
        got = ctx.read_emitted(g, "behaviours.ndjson")
        if len(got) < num // 2:
            ctx.broken("simulation %s emitted only %d behaviours for %d traces" % (cfg, len(got), num))
        for b in got:
            b["cfg"] = cfg
        beh += got
        pt = ctx.read_emitted(g, "probes.ndjson")
        if len(pt) != 1 or len(pt[0]["probes"]) < 20:
            ctx.broken("simulation %s did not emit its probe table" % cfg)
        probes += pt
    feats = [_features(b) for b in beh]
    tot = {k: sum(f[k] for f in feats) for k in feats[0]}
    ctx.note("behaviours: %d; deliveries by kind: %s" % (len(beh), tot))
    for need in ("forged", "dup", "intruder", "echo", "early"):
        if tot[need] < 5:
            ctx.broken("generated behaviours lack %s deliveries" % need)
    # ... replayed step by step on the real state objects, and a few of them on the real Execute
    scored = sorted(range(len(beh)), key=lambda j: -(min(feats[j]["forged"], 3) + min(feats[j]["dup"], 2) + 2 * min(feats[j]["early"], 2)
                                                     + min(feats[j]["intruder"], 3) + rnd.random()))
    chosen, used = [], set()
    want = ctx.pick(["Gen_N3"], ["Gen_N3", "Gen_N4", "Gen_N3first", "Gen_N4two", "Gen_N5"])
    for cfg in want:
        for j in scored:
            if beh[j]["cfg"] == cfg and j not in used and feats[j]["forged"] >= 1:
                used.add(j)
                chosen.append(beh[j])
                break
    if len(chosen) < len(want):
        ctx.broken("could not choose behaviours for the real runs")
    ctx.note("real runs: %s" % [(b["cfg"], b["excluded"], _features(b)) for b in chosen])
    go = _gotest(ctx, ["pkg/tecdsa/dkg", "pkg/protocol/state"], PKG, "^TestVerif_C07_(States|Execute)$", ["c07_test.go"], inputs={"behaviours.ndjson": beh, "execute.ndjson": chosen, "probes.ndjson": probes},
                    extra_overlay=OVERLAY, label="c07", env={"VERIF_KEYGEN_BUDGET_S": ctx.pick(900, 1500)}, timeout=ctx.pick(1800, 9000))
    if go is not None:
        ctx.absorb(go)
    if go is not None and set(go.reports) != {"states", "execute"} and not ctx.violations:
        ctx.broken("harness reports missing: %s" % sorted(go.reports))
    if not ctx.violations:
        h = ctx.extra.get("harness", {})
        sc = h.get("states", {}).get("counters") or {}
        for need in ("deliver_forged", "deliver_dup", "deliver_intruder", "deliver_echo", "deliver_genuine", "admitted", "rejected",
                     "behaviours_with_early_message", "behaviours_with_duplicate", "party_contexts", "probes",
                     "admitted_in_silent_state"):
            if not sc.get(need):
                ctx.broken("state replay never exercised %s" % need)
        if (h.get("execute", {}).get("counters") or {}).get("real_keygens", 0) < len(chosen):
            ctx.broken("fewer real key generations than requested")
    return ctx.finish(
        level="model_checking",
        rule="exhaustive: 3 members (one excluded / none / the first excluded, <= 2 injected messages, 1 duplicate; thorough: also with "
             "the excluded member running, 4 members with one and two excluded); simulation: %s random behaviours of 3-5 member groups "
             "(<= 4 injected messages from an alphabet of 4 kinds x 5 message types x senders, <= 2 duplicates, echoes, a running excluded "
             "member) each replayed step by step on real state objects; non-trivial = behaviours with an excluded member and injected "
             "or intruder traffic. Real Executor.Execute runs: %d TLC-chosen behaviours (delivery order + injected traffic forced)."
             % (len(beh), len(chosen)),
        assumptions=["symbolic cryptography: a TSS party fed exactly its peers' current-session messages produces the common key; anything else fails",
                     "TSS round computations are not executed in the step-by-step replay (stand-in payloads of the right types)",
                     "the real machine's ticker/goroutine timing is not controlled; only per-receiver delivery order and injected traffic are",
                     "the marking loop of Execute is copied in the state replay; the real loop runs in the real Execute runs",
                     "a real run that exceeds its time budget makes the check exit 2, never 1"],
        exhaustive=False)
