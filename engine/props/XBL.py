"""XBL — composition: the random beacon life cycle (not a listed property)."""
import os

META = {
    "disabled": True,   # composition check, not a property of properties.jsonl: must never enter MANIFEST.json
    "level": "model_checking",
    "text": "composition of Dedup, RelayDedup, Gjkr (abstract outcome), SyncMachine, Support, Submission, DkgFate, Registry, "
            "ShareCollection into one life-cycle specification; TLC checks system-level invariants; complete runs of the real "
            "client are trace-validated against it.",
    "note": "see selftest/XBL.md",
    "technique": "TLA+ composition spec, TLC exhaustive + liveness; trace validation of end-to-end runs of beacon.Initialize nodes",
    "design_ref": "DESIGN.md §7",
}
SPEC = "specs/BeaconLifecycle"
PKG = "pkg/beacon"
FILES = ["xbl_world_test.go", "xbl_scenarios_test.go"]


def run(ctx):
    scen = os.environ.get("XBL_SCENARIOS") or ctx.pick("happy", "happy,crash,fateOut,fateKeep,timeout,resume,twoRounds,multiSeat")
    go = ctx.gotest(PKG, "^TestVerif_XBL_Lifecycle$", FILES, env={"XBL_SCENARIOS": scen}, label="lifecycle",
                    timeout=ctx.pick(600, 1500))
    ctx.absorb(go)
    import shutil
    for fn in os.listdir(go.outdir):
        if fn.endswith(".ndjson"):
            shutil.copy(os.path.join(go.outdir, fn), "/tmp/xbl_" + fn)
    return ctx.finish(level="model_checking", rule="wip", assumptions=["wip"], exhaustive=False)
