"""XBL — composition: the random beacon life cycle (DESIGN.md §7; not a listed property)."""
import json
import os
import re
from concurrent.futures import ThreadPoolExecutor

META = {
    # A composition check, not a property of properties.jsonl: "disabled" stays so that
    # engine/mkmanifest.py never puts it into MANIFEST.json. `./vcheck XBL` runs it all the same.
    "disabled": True,
    "level": "model_checking",
    "text": "One TLA+ specification composes the per-property modules (Dedup, RelayDedup, Gjkr's abstract outcome, SyncMachine's "
            "lockstep, Support, Submission/Slots, DkgFate, Registry, ShareCollection) into the beacon life cycle: DKG started event "
            "-> deduplicator -> group selection -> GJKR -> result signing and support gate -> submission slots -> result event or "
            "timeout -> member fate -> registry (restart) -> relay request -> deduplicator -> share collection -> entry submission "
            "slots -> stale group archival. TLC checks system-level invariants no single module states (a node signs only with a "
            "persisted membership of the group the chain accepted, key equal and member not listed; one DKG execution per seed, "
            "node and process lifetime; registry = storage after restarts, archived groups never come back; every entry verifies "
            "under the accepted key; nobody submits after observing or before its slot; no timeout with a correct quorum) "
            "exhaustively on small worlds, by simulation on larger ones, liveness under fairness, and refutes six negative "
            "configurations. Complete runs of the real client (one beacon.Initialize per node over a wrapped local_v1 chain, "
            "pkg/net/local and the encrypted disk persistence; real GJKR, result publication, registry, threshold signing; "
            "duplicates, stale events, crashes, restarts, message loss) are trace-validated against the composition with every "
            "invariant evaluated at every step.",
    "note": "Trusted: the chain side of the harness (first valid DKG result wins, BLS check of entries, current request, stale "
            "groups) is hand written after the contracts; attribution of calls to members uses goroutine ids; 'correct' nodes of "
            "a scenario are those the scenario injects no fault into. Liveness is checked on the model only (Prompt assumption); "
            "on real runs missing activity is reported as a broken check, never as a violation.",
    "technique": "TLA+ composition (INSTANCE of the per-property modules), TLC exhaustive + simulation + liveness + negative "
                 "configurations; trace validation of end-to-end runs of real beacon nodes",
    "design_ref": "DESIGN.md §7",
}
SPEC = "specs/BeaconLifecycle"
PKG = "pkg/beacon"
FILES = ["xbl_world_test.go", "xbl_scenarios_test.go"]
REUSED = {
    "Slots.tla": "specs/Submission/Slots.tla",
    "Support.tla": "specs/Support/Support.tla",
    "DkgFate.tla": "specs/DkgFate/DkgFate.tla",
    "RelayDedup.tla": "specs/RelayDedup/RelayDedup.tla",
    "Registry.tla": "specs/Registry/Registry.tla",
    "ShareCollection.tla": "specs/BlsRecovery/ShareCollection.tla",
}
ALL_ACTIONS = [
    "StartDkg", "AdvanceDkg", "CloseDkg", "DeliverDkg", "JoinDkg", "GjkrDone", "Equivocate", "Verify", "SubmitDkg",
    "ObserveDkg", "FateEvent", "FateTimeout", "Register", "RequestRelay", "AdvanceRelay", "CloseRelay", "ConfirmRelay",
    "DedupRelay", "SendShare", "AcceptShare", "SubmitEntry", "ObserveEntry", "RelayTimeout", "ReportTimeout", "MarkStale",
    "DeliverGroupRegistered", "ArchiveOne", "SweepDone", "Stop", "Start", "Resume",
]
# what the smallest exhaustive world (no faults, no duplicates, no restarts) must exercise
QUICK_ACTIONS = ["StartDkg", "AdvanceDkg", "CloseDkg", "DeliverDkg", "JoinDkg", "GjkrDone", "Verify", "SubmitDkg",
                 "ObserveDkg", "Register", "RequestRelay", "AdvanceRelay", "CloseRelay", "ConfirmRelay", "DedupRelay",
                 "SendShare", "AcceptShare", "SubmitEntry", "ObserveEntry"]
NEGATIVES = {   # cfg -> property TLC must refute
    "Neg_Fairness": "TemporalProperty",
    "Neg_Dedup": "OneDkgPerSeed", "Neg_WriteAhead": "RegistryIsStorage", "Neg_LeaveOnSeen": "NoSubmitAfterObserve",
    "Neg_InGroup": "SignsOnlyAcceptedGroup", "Neg_FateCheck": "KeepOnlyAsChainDecided", "Neg_Agreement": "KeepOnlyAsChainDecided",
}
LAYOUT_CFG = {"abc": "Trace_abc", "aabc": "Trace_aabc"}


VERIF = os.path.dirname(os.path.dirname(os.path.dirname(os.path.abspath(__file__))))


def _files():
    return {k: os.path.join(VERIF, v) for k, v in REUSED.items()}


def _covered(res):
    """names of the actions a TLC run took (coverage lines are named after DoX, X or XAny)"""
    out = set()
    for a in ALL_ACTIONS:
        if any(res.coverage.get(n, (0, 0))[1] > 0 for n in (a, "Do" + a, a + "Any")):
            out.add(a)
    # RequestRelay is reported as RequestAny, GjkrDone as GjkrDoneAny, ...
    if res.coverage.get("RequestAny", (0, 0))[1] > 0:
        out.add("RequestRelay")
    if res.coverage.get("AcceptAny", (0, 0))[1] > 0:
        out.add("AcceptShare")
    return out


def _model(ctx, files):
    """model checking part; returns the set of covered actions"""
    covered = set()
    jobs = []    # (kind, cfg, kwargs)
    jobs.append(("mc", "MC_Quick", dict(timeout=900)))
    negs = ["Neg_Dedup", "Neg_WriteAhead", "Neg_LeaveOnSeen"]
    if ctx.thorough:
        negs += ["Neg_InGroup", "Neg_FateCheck", "Neg_Agreement", "Neg_Fairness"]
        for c in ("MC_DupDkg", "MC_DupRelay", "MC_Stop", "MC_BadDkg", "MC_BadRelay", "MC_aabc"):
            jobs.append(("mc", c, dict(timeout=2400)))
        jobs.append(("live", "MC_Live", dict(timeout=2400)))
    for c in negs:
        jobs.append(("neg", c, dict(timeout=1200)))
    # Sim_async: the same world without the lockstep assumption (chain time free: late joins, requests that
    # overtake registrations, timeouts with a quorum) -- the safety invariants must hold there too
    sims = [("Sim_abc", ctx.pick(100, 2500)), ("Sim_aabc", ctx.pick(0, 1000)), ("Sim_async", ctx.pick(60, 2000))]
    for c, num in sims:
        if num:
            jobs.append(("sim", c, dict(timeout=2400, num=num)))

    def one(job):
        kind, cfg, kw = job
        if kind == "mc":
            return job, ctx.tlc(SPEC, "MC_BeaconLifecycle", cfg=cfg, coverage=True, label=cfg, files=files, workers=4,
                                heap="4g", **kw)
        if kind == "live":
            return job, ctx.tlc(SPEC, "MC_BeaconLifecycle", cfg=cfg, coverage=False, label=cfg, files=files, workers=4,
                                heap="4g", **kw)
        if kind == "neg":
            return job, ctx.tlc(SPEC, "MC_BeaconLifecycle", cfg=cfg, label=cfg, files=files, workers=2, heap="3g",
                                expect=("violation",), **kw)
        return job, ctx.tlc(SPEC, "MC_BeaconLifecycle", cfg=cfg, mode="simulate", num=kw["num"], depth=400, coverage=True,
                            label=cfg, files=files, heap="3g", timeout=kw["timeout"], simulate_seed=ctx.seed)

    # at most 3 JVMs at a time (the machine is shared); exceptions surface through future.result()
    with ThreadPoolExecutor(max_workers=3) as ex:
        results = [f.result() for f in [ex.submit(one, j) for j in jobs]]
    for (kind, cfg, _), res in results:
        if kind == "neg":
            if res.violated != NEGATIVES[cfg]:
                ctx.broken("negative configuration %s: TLC refuted %s instead of %s" % (cfg, res.violated, NEGATIVES[cfg]))
        elif kind in ("mc", "sim"):
            got = _covered(res)
            covered |= got
            if cfg == "MC_Quick":
                miss = [a for a in QUICK_ACTIONS if a not in got]
                if miss:
                    ctx.broken("vacuous model run MC_Quick: actions never taken: %s" % miss)
    ctx.extra["negative_configs_refuted"] = {c: NEGATIVES[c] for c in negs}
    return covered


def _scenario_of(lines, hwm):
    name = "?"
    for ln in lines[:max(hwm, 1)]:
        if '"event":"Reset"' in ln:
            try:
                name = json.loads(ln).get("scenario", "?")
            except Exception:
                pass
    return name


def _perturbed(lines):
    """Scenarios in which a node the scenario injected no fault into was marked inactive / failed GJKR: on this
    harness that only happens when the machine is so slow that protocol messages miss their block windows. Such a
    run says nothing about the life-cycle glue (C01 owns 'no honest member is punished'); it must not become a verdict."""
    out, sc, honest_seats, done, joined, crashed = [], None, set(), set(), set(), set()
    for no, ln in enumerate(lines, 1):
        e = json.loads(ln)
        ev = e.get("event")
        if ev == "Reset":
            sc = e.get("scenario")
            honest = set(e["nodes"]) - set(e["bad"])
            honest_seats = {i + 1 for i, nd in enumerate(e["seats"]) if nd in honest}
            done, joined, crashed = set(), set(), set()
        elif ev == "Crash":
            crashed.add(e["node"])
        elif ev == "GjkrDone":
            done.add((e["round"], e["member"]))
            if e["member"] in honest_seats and set(e["mis"]) & honest_seats:
                out.append((no, sc, "%s: member %d marked correct member(s) %s as misbehaved" % (
                    sc, e["member"], sorted(set(e["mis"]) & honest_seats))))
        elif ev == "DkgExited" and e["member"] in honest_seats and (e["round"], e["member"]) not in done:
            out.append((no, sc, "%s: GJKR of correct member %d failed" % (sc, e["member"])))
    return out


def _validate(ctx, go, layout, files):
    path = os.path.join(go.outdir, "trace_%s.ndjson" % layout)
    if not os.path.isfile(path):
        return 0
    lines = open(path).read().splitlines()
    pert = _perturbed(lines)

    def timing(sc, upto):
        """a perturbation recorded in the same scenario at or before the offending line: the run is no evidence"""
        hit = [m for (no, s2, m) in pert if s2 == sc and no <= upto]
        if hit:
            ctx.broken("timing-perturbed run, no verdict: %s" % "; ".join(hit[:4]))
    f = dict(files)
    f["trace.ndjson"] = path
    res = ctx.tlc(SPEC, "Trace_BeaconLifecycle", cfg=LAYOUT_CFG[layout], mode="bfs", workers=1, timeout=3000, dump_trace=False,
                  label="Trace_" + layout, expect=("ok", "violation"), files=f, view_queue=True, heap="3g",
                  extra_args=["-checkpoint", "0"])
    nruns = sum(1 for ln in lines if '"event":"Reset"' in ln)
    if res.ok:
        ctx.trace_events += len(lines)
        ctx.traces_validated += nruns
        return nruns
    m = None
    for m in re.finditer(r'"VERIF_HWM",\s*(\d+)', res.out):
        pass
    hwm = int(m.group(1)) if m else 0
    if res.violated and res.violated != "Postcondition":
        # an invariant / action property of the composition is false in a state of the real run
        cur = None
        for cur in re.finditer(r"^/\\ l = (\d+)", res.out, re.M):
            pass
        at = int(cur.group(1)) if cur else hwm
        sc = _scenario_of(lines, at)
        timing(sc, at)
        ctx.violation("trace-inv:%s:%s" % (res.violated, sc),
                      "a recorded run of the real beacon client (scenario %s) reaches a state in which %s of the life-cycle "
                      "composition is false (around trace line %d: %s)" % (
                          sc, res.violated, at, lines[at - 2][:300] if 2 <= at <= len(lines) + 1 else "?"),
                      {"trace_tail": lines[max(0, at - 25):at + 1], "tlc": res.out[-3000:]})
        return 0
    sc = _scenario_of(lines, hwm)
    timing(sc, hwm)
    bad = lines[hwm - 1] if 1 <= hwm <= len(lines) else "?"
    evname = "?"
    try:
        evname = json.loads(bad).get("event", "?")
    except Exception:
        pass
    ctx.violation("trace:%s:%s" % (sc, evname),
                  "a recorded run of the real beacon client (scenario %s) is not a behaviour of the life-cycle composition: "
                  "no action of the specification explains event %d: %s" % (sc, hwm, bad[:400]),
                  {"trace_tail": lines[max(0, hwm - 25):hwm + 2], "tlc": res.out[-2000:]})
    return 0


def run(ctx):
    files = _files()
    scen = os.environ.get("XBL_SCENARIOS") or ctx.pick("happy,fateOut2,fateKeep2,resume",
                                                       "happy,crash,fateOut,fateOut2,fateKeep,fateKeep2,timeout,resume,twoRounds,multiSeat")
    # the real runs take about a minute of block time: start them first, model check meanwhile
    with ThreadPoolExecutor(max_workers=1) as ex:
        fut = ex.submit(ctx.gotest, PKG, "^TestVerif_XBL_Lifecycle$", FILES, None, {"XBL_SCENARIOS": scen},
                        ctx.pick(900, 1800), False, "lifecycle")
        covered = _model(ctx, files)
        go = fut.result()
    if ctx.thorough:
        miss = [a for a in ALL_ACTIONS if a not in covered]
        if miss:
            ctx.broken("vacuous model runs: actions never taken in any configuration: %s" % miss)
    ctx.extra["actions_covered"] = sorted(covered)
    ctx.absorb(go, require_evals=len(scen.split(",")))
    rep = go.reports.get("lifecycle") or {}
    notes = rep.get("notes") or []
    if any("still running" in x or "panicked" in x for x in notes):
        # goroutines that did not end within the (generous) bound leave a truncated trace: no verdict
        ctx.broken("scenario(s) incomplete: %s" % "; ".join(notes))
    n = 0
    for layout in LAYOUT_CFG:
        n += _validate(ctx, go, layout, files)
    if not ctx.violations:
        # the runs are behaviours of the specification; were they the runs we wanted? (slowness or a harness
        # problem -- never a verdict about the code)
        if notes:
            ctx.broken("scenario(s) incomplete: %s" % "; ".join(notes))
        cnt = rep.get("counters") or {}
        need = ["ev_Submitted", "ev_Registered", "ev_Loaded", "ev_RelayJoined", "ev_ShareSent", "ev_EntrySubmitted", "dkg_accepted",
                "entry_accepted", "ev_DkgJoinAttempt", "ev_RelayConfirm", "ev_ResultObserved"]
        if ctx.thorough:
            need += ["ev_Forwarder", "ev_Archived", "ev_TimeoutReported", "ev_ResumeAsked"]
        missing = [k for k in need if not cnt.get(k)]
        if missing:
            ctx.broken("the recorded runs never showed: %s" % missing)
        if n < len(scen.split(",")):
            ctx.broken("only %d of %d scenario traces were validated" % (n, len(scen.split(","))))
    return ctx.finish(
        level="model_checking",
        rule="Model: exhaustive TLC runs of the composition for 3 seats / 3 operators, 1 DKG round, 1 relay request (quick: no "
             "faults; thorough: also duplicate deliveries, a restart, one faulty operator with deviant GJKR views, equivocation "
             "and message loss), liveness under fairness (MC_Live), seeded simulation of the large worlds (2 rounds, 2 requests, "
             "duplicates, restarts, a faulty operator; 4 seats with an operator holding two), and the negative configurations "
             "(TLC must refute the named invariant when one mechanism is switched off). Binding: scenarios %s, each a complete run "
             "of real beacon nodes, trace-validated; non-trivial = every scenario." % scen,
        assumptions=["the chain side of the harness stands for the contracts (hand written)",
                     "GJKR is abstracted to its outcome in the model (C01/C02 are checked by their own modules); the traces run the real GJKR",
                     "Prompt assumption for the no-timeout-with-quorum invariant and the liveness properties: chain time does not "
                     "advance while a correct member has a step to take, and the chain does not request an entry from a group whose "
                     "DKG result period is still running",
                     "absence of expected activity in a real run is reported as a broken check (exit 2), never as a violation"],
        exhaustive=False)
