"""C47 — on-chain submissions use distinct member slots and stop once someone succeeded."""
import json
import os

META = {
    "level": "model_checking",
    "text": "The five submission protocols (beacon DKG result, relay entry, tECDSA DKG result, DKG result approval, inactivity "
            "claim) are one TLA+ specification: slot functions transcribed from the code and a submitter process (Begin / "
            "SlotReached / Observe / RelayTimeout) against a chain process (Advance / Compete, injected faults). The step "
            "constants and beacon configurations are read from the code under test and handed to TLC, which checks slot "
            "injectivity, relay-entry slots before the timeout, no submission before the slot or after observing somebody "
            "else's success (exhaustive, groups of 3-4; slot functions for every member of groups up to 100 and every entry "
            "residue). TLC-generated slot cases and process behaviours are replayed on the real functions with recording block "
            "counters and fake chains; the observable state is compared after every step. Model checking is the right level: "
            "the property quantifies over indices, residues and histories of competing submissions.",
    "note": "Trusted: the fake block counter fires a waiter only when the harness says the block was reached (as the real "
            "counters do); for SubmitResult/SubmitClaim the context is cancelled by the harness where the upstream subscription "
            "(generateSigningGroup / claimInactivity) would cancel it; approval precedence period >= 1 block; behaviours are "
            "sampled by TLC simulation (groups of 3), not enumerated.",
    "technique": "TLA+ slot functions + submitter/chain process, TLC exhaustive; constants read from the code; TLC-generated "
                 "cases and behaviours replayed on the real functions (conformance after every step)",
    "design_ref": "DESIGN.md §4.2 C47",
}
SPEC = "specs/Submission"
OV = {"internal/verifsub/world.go": "shared/c47/world.go"}
ACTIONS = ["Begin", "SlotReached", "Observe", "Compete", "Advance"]


def consts_module(beacon, tbtc):
    recs = sorted({(int(c["n"]), int(c["step"]), int(c["timeout"])) for c in beacon})
    body = ",\n      ".join("[n |-> %d, step |-> %d, timeout |-> %d]" % r for r in recs)
    return ("------------------------------ MODULE C47Consts ------------------------------\n"
            "(* written by engine/props/C47.py from the values the harness read from the code *)\n"
            "BeaconConfigsDef ==\n    { %s }\n"
            "TecdsaStepDef == %d\nApprovalStepDef == %d\nInactivityStepDef == %d\nChallengeConfirmationDef == %d\n"
            "=============================================================================\n" % (
                body, tbtc["dkgResultSubmissionDelayStepBlocks"], tbtc["dkgResultApprovalDelayStepBlocks"],
                tbtc["inactivityClaimSubmissionDelayStepBlocks"], tbtc["dkgResultChallengeConfirmationBlocks"]))


def run(ctx):
    # 0. constants of the code under test -> TLC
    gb = ctx.gotest("pkg/beacon/entry", "^TestVerif_C47_RelayEntry_Constants$", ["c47_test.go"], extra_overlay=OV, label="beacon-constants")
    gt = ctx.gotest("pkg/tbtc", "^TestVerif_C47_Constants$", ["c47_test.go", "c47_consts_test.go"], extra_overlay=OV,
                    label="tbtc-constants")
    try:
        beacon = gb.reports["beacon_constants"]["extra"]["configs"]
        tbtc = gt.reports["tbtc_constants"]["extra"]
        consts = consts_module(beacon, tbtc)
    except Exception as ex:
        ctx.broken("could not read the constants of the code: %r" % ex)
    have = {int(c["n"]) for c in beacon if c["source"] == "local_v1"}
    if not {3, 4} <= have:
        ctx.broken("beacon configurations for group sizes 3 and 4 missing: %s" % sorted(have))
    ctx.extra["code_constants"] = {"beacon": beacon, "tbtc": {k: v for k, v in tbtc.items() if k != "harness_wall_s"}}
    files = {"C47Consts.tla": consts}
    model_alarms = []

    # 1. slot functions over the input space (static part of the property)
    r = ctx.tlc(SPEC, "SlotCases", cfg="MC_Slots", label="MC_Slots", files=files, expect=("ok", "violation"), timeout=1800)
    if r.violated:
        model_alarms.append("MC_Slots:" + r.violated)
        ctx.note("slot model with the code's constants violates %s (must be reproduced on the code below)" % r.violated)
    elif r.distinct < 100:
        ctx.broken("slot case space suspiciously small: %d cases" % r.distinct)
    # the indexing of the pinned commit (hazard variant) and a zero precedence period: TLC must find the collisions
    ctx.tlc(SPEC, "SlotCases", cfg="MC_SlotsAsCoded", label="MC_SlotsAsCoded", files=files, expect=("violation",))
    ctx.tlc(SPEC, "SlotCases", cfg="MC_SlotsPrecedence0", label="MC_SlotsPrecedence0", files=files, expect=("violation",))

    # 2. the submitter / chain process
    if ctx.thorough:
        mcs = ["MC_beaconDkg", "MC_beaconDkgAll", "MC_relayEntry", "MC_tecdsaDkg", "MC_inactivity", "MC_approval"]
    else:
        mcs = ["MC_Quick"]
    for c in mcs:
        r = ctx.tlc(SPEC, "Submission", cfg=c, coverage=True, label=c, files=files, expect=("ok", "violation"), timeout=3000)
        if r.violated:
            model_alarms.append("%s:%s" % (c, r.violated))
            ctx.note("process model %s with the code's constants violates %s" % (c, r.violated))
        else:
            need = list(ACTIONS)
            if c in ("MC_Quick", "MC_relayEntry"):
                need.append("RelayTimeout")
            ctx.require_coverage(r, need, c)
    # executeDkgValidation around the approval (validity, challenge loop, scheduling failures)
    r = ctx.tlc(SPEC, "Validation", cfg="MC_Validation", coverage=True, label="MC_Validation", files=files)
    ctx.require_coverage(r, ["Challenge", "Confirm"], "MC_Validation")
    gv = ctx.tlc(SPEC, "Gen_Validation", cfg="Gen_Validation", workers=1, label="Gen_Validation", files=files, dump_trace=False)
    validation = ctx.read_emitted(gv, "validation.ndjson")
    if len(validation) < 10:
        ctx.broken("only %d validation behaviours" % len(validation))
    hz = ctx.tlc(SPEC, "Submission", cfg="MC_RelayAsCoded", label="MC_RelayAsCoded", files=files, expect=("violation",))
    ctx.extra["hazard_ascoded_violates"] = hz.violated

    # 3. generation: slot cases (exhaustive) and process behaviours (simulation)
    g = ctx.tlc(SPEC, "SlotCases", cfg="Gen_Slots", workers=1, label="Gen_Slots", files=files, dump_trace=False, timeout=1800)
    cases = ctx.read_emitted(g, "slotcases.ndjson")
    if len(cases) < 100:
        ctx.broken("slot case generation produced only %d cases" % len(cases))
    if not ctx.thorough:
        # big groups: one reference block only
        cases = [c for c in cases if c["case"]["n"] <= 8 or c["case"]["ref"] == 7]
    beh = []
    for cfg, num in (("Gen_Sched", ctx.pick(150, 1500)), ("Gen_Faults", ctx.pick(100, 1000)), ("Gen_Sched2", ctx.pick(60, 600))):
        b = ctx.tlc(SPEC, "Gen_Submission", cfg=cfg, mode="simulate", num=num, depth=26, label=cfg, files=files,
                    dump_trace=False, timeout=1800)
        got = ctx.read_emitted(b, "behaviours.ndjson")
        if len(got) < num // 2:
            ctx.broken("behaviour generation %s produced only %d behaviours" % (cfg, len(got)))
        beh += got
    by = {}
    for b in beh:
        by.setdefault(b["params"]["proto"], []).append(b)
    for p in ("beaconDkg", "relayEntry", "tecdsaDkg", "inactivity", "approval"):
        if len(by.get(p, [])) < 10:
            ctx.broken("only %d behaviours generated for %s" % (len(by.get(p, [])), p))
    ctx.note("generated %d slot cases, behaviours: %s" % (len(cases), {p: len(v) for p, v in sorted(by.items())}))

    def sel(protos):
        return [c for c in cases if c["case"]["proto"] in protos]

    # 4. replay on the real functions
    go1 = ctx.gotest("pkg/beacon/dkg/result", "^TestVerif_C47_BeaconDkg_", ["c47_test.go"], extra_overlay=OV, label="beaconDkg",
                     inputs={"slotcases.ndjson": sel(["beaconDkg"]), "behaviours_beaconDkg.ndjson": by["beaconDkg"]},
                     timeout=ctx.pick(900, 3000))
    ctx.absorb(go1)
    go2 = ctx.gotest("pkg/beacon/entry", "^TestVerif_C47_RelayEntry_(Slots|Behaviours)$", ["c47_test.go"], extra_overlay=OV,
                     label="relayEntry", timeout=ctx.pick(900, 3000),
                     inputs={"slotcases.ndjson": sel(["relayEntry"]), "behaviours_relayEntry.ndjson": by["relayEntry"]})
    ctx.absorb(go2)
    go3 = ctx.gotest("pkg/tbtc", "^TestVerif_C47_Tbtc_", ["c47_test.go", "c47_consts_test.go"], extra_overlay=OV, label="tbtc",
                     timeout=ctx.pick(900, 3000),
                     inputs={"slotcases.ndjson": sel(["tecdsaDkg", "inactivity", "approval"]),
                             "behaviours_tecdsaDkg.ndjson": by["tecdsaDkg"], "behaviours_inactivity.ndjson": by["inactivity"],
                             "behaviours_approval.ndjson": by["approval"], "validation.ndjson": validation})
    ctx.absorb(go3)
    # every protocol must have been stepped through its decisive actions
    counters = {}
    for g_ in (go1, go2, go3):
        for rep in g_.reports.values():
            for k, v in (rep.get("counters") or {}).items():
                counters[k] = counters.get(k, 0) + v
    if not ctx.violations and not ctx.known_hits:
        for p in ("beaconDkg", "relayEntry", "tecdsaDkg", "inactivity", "approval"):
            for a in ("Begin", "SlotReached", "Observe", "slotcases"):
                if counters.get("%s.%s" % (p, a), 0) == 0:
                    ctx.broken("replay never exercised %s.%s" % (p, a))
        if model_alarms:
            ctx.broken("the model violates %s with the code's constants but the replay on the code found nothing" % model_alarms)
    ctx.extra["replay_counters"] = counters
    return ctx.finish(
        level="model_checking",
        rule="slot cases: every member of every (protocol, group size, step/config from the code, reference block, entry "
             "residue / submitter / approval parameters) case runs the real submission function with a recording block counter; "
             "the requested block is compared with the specification's slot and the observed slots are checked for "
             "distinctness / timeout. Behaviours: TLC simulation of the submitter+chain process (3 members), each step applied "
             "to the real functions and the state (requested block, submissions, return value, chain) compared; non-trivial = "
             "behaviours in which a slot is reached or an event is delivered, and cases with more than one member.",
        assumptions=["fake block counter / waitForBlockFn: a wait ends only when the harness says the block was reached or the context ended",
                     "SubmitResult / SubmitClaim: context cancellation stands for the upstream result-submitted / claim-submitted subscription",
                     "approval precedence period >= 1 block (with 0 the submitter and member 1 share a slot: MC_SlotsPrecedence0)",
                     "process behaviours are sampled (TLC simulation), groups of 3; exhaustive model checking covers groups of 3 (quick) / 4 (thorough)"],
        exhaustive=False)
