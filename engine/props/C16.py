"""C16 — broadcast delivery is at-most-once per message and stops on cancellation."""
import concurrent.futures
import json
import os
import threading

META = {
    "level": "model_checking",
    "text": "TLC exhaustively checks a specification of the broadcast channel shaped like channel.go / broadcast_channel.go (Send with "
            "atomic sequence numbers, deliver as snapshot plus one non-blocking send per handler, Recv / cancel / removeHandler for "
            "both lifecycle variants, a receiver's context ending by cancel(), by deadline or through its parent, and the processing goroutine as Dequeue, CheckCtx, FilterDup, Invoke, Return) for at-most-once "
            "delivery per (sender, seqno), no hand-over of a message dequeued after the cancellation, fresh sequence numbers, bounded "
            "queues and no loss towards live handlers; variants without the second context check / without the filter violate it. "
            "TLC-generated behaviours are forced step by step on the real libp2p and local channels by holding each processing "
            "goroutine at the calls it makes on its context and inside the handler, comparing handlers list, queue lengths, handler "
            "invocations and goroutine position after every step; unscheduled concurrent runs (several senders, retransmissions, "
            "ticks, registration and cancellation in flight, concurrent Send on one channel, a stuck handler with a full queue) and "
            "the forcing scenario are trace-validated; the duplicate filter alone is checked for linearizability under six "
            "concurrent callers and, sequentially, on every arrival order of two senders' sequence numbers 1..4 (out of order, "
            "gaps filled later, everything seen so far retransmitted after every step). Model checking is the right level: the property quantifies over interleavings.",
    "note": "Reading of 'sees nothing after its context is cancelled': a message dequeued after cancel() took effect is never handed "
            "to the handler; a cancellation that falls between the context check and the call does not stop that one call (the model "
            "has this window as MC_Window, and the code cannot close it). Trusted: Go channels are FIFO; the harness parks goroutines "
            "only at ctx.Done()/ctx.Err()/handler entry, so a deliver() call is one step in the forced replay (TLC explores it split). "
            "No libp2p host: the pubsub topic is replaced by a fake publisher feeding processPubsubMessage. The forced replay "
            "relies on the implementation reading ctx.Err() exactly once after each dequeue (calibrated at run time; if that "
            "changes the check reports itself broken rather than guessing). Exhaustive bounds are smaller than planned in "
            "DESIGN.md (2 senders x 1 message x 1 retransmission x 2 handlers; 2 x 2 messages only for one handler): the "
            "planned 2x2x2x2 configuration has more than 10^8 states.",
    "technique": "TLA+ spec with two lifecycle variants + negative variants, TLC exhaustive; forced schedule replay through an instrumented "
                 "context; trace validation of concurrent runs; linearizability check of the filter",
    "design_ref": "DESIGN.md §4.4 C16",
}
SPEC = "specs/Broadcast"
ALL_ACTIONS = ["Send", "FailPublish", "StartDeliverC", "TrySend", "Register", "End", "ExitOnDone", "Dequeue", "CheckCtx", "FilterDup",
               "Invoke", "Return"]


def _overflow_cfg(lifecycle, cap):
    return """SPECIFICATION TSpec
CONSTANTS
  Senders = {"s3", "f"}
  Handlers = {"h1"}
  MaxSend = %d
  MaxRetx = 0
  Cap = %d
  Lifecycle = "%s"
  SecondCheck = TRUE
  Filter = TRUE
  EndKinds = {"cancel", "deadline", "parent"}
  Honoured = {"cancel", "deadline", "parent"}
  MaxFail = 0
  GiveBack = FALSE
CONSTRAINT Hwm
INVARIANTS AtMostOnce NoStaleInvoke QueueBound
POSTCONDITION Accepted
""" % (cap + 12, cap, lifecycle)


def run(ctx):
    lock = threading.Lock()
    orig_subdir = ctx.subdir

    def subdir(name):
        with lock:
            return orig_subdir(name)
    ctx.subdir = subdir

    # ---------------------------------------------------------------- model checking
    def model_checking():
        out = {}
        mcs = ctx.pick(["MC_Proc_Libp2p", "MC_Life_Local"],
                       ["MC_Proc_Libp2p", "MC_Proc_Local", "MC_Life_Libp2p", "MC_Life_Local",
                        "MC_Thorough_Libp2p", "MC_Thorough_Deep"])
        for cfg in mcs:
            r = ctx.tlc(SPEC, "Broadcast", cfg=cfg, coverage=True, label=cfg, timeout=ctx.pick(600, 3000))
            acts = list(ALL_ACTIONS)
            if "Libp2p" in cfg or "Deep" in cfg:
                acts.append("RemoveHandler")
            ctx.require_coverage(r, acts, cfg)
        # without the second context check / the filter the invariants fail; the strict reading fails on the code as written
        negs = ctx.pick(["MC_NoSecondCheck", "MC_GiveBack", "MC_DeadlineIgnored"],
                        ["MC_NoSecondCheck", "MC_GiveBack", "MC_DeadlineIgnored", "MC_NoFilter", "MC_Window"])
        for cfg in negs:
            r = ctx.tlc(SPEC, "Broadcast", cfg=cfg, label=cfg, expect=("violation",), dump_trace=False)
            out[cfg] = r.violated
        r = ctx.tlc(SPEC, "DupFilter", cfg="MC_DupFilter", coverage=True, label="MC_DupFilter")
        ctx.require_coverage(r, ["Call", "TestAndSet", "Delegate", "Return"], "MC_DupFilter")
        if ctx.thorough:
            ctx.tlc(SPEC, "DupFilter", cfg="MC_DupFilterHazard", label="MC_DupFilterHazard", expect=("violation",), dump_trace=False)
        return out

    # the largest exhaustive configuration (thorough tier) runs beside the others
    def model_checking_big():
        if not ctx.thorough:
            return None
        r = ctx.tlc(SPEC, "Broadcast", cfg="MC_Thorough_Local", coverage=True, label="MC_Thorough_Local", timeout=3000)
        ctx.require_coverage(r, [a for a in ALL_ACTIONS if a != "FailPublish"], "MC_Thorough_Local")
        return r.distinct

    # The trace specs are explored depth-first and stop TLC (TLCSet("exit")) on the first path that consumes the whole
    # trace; a search that ends without such a path fails the postcondition: the trace is rejected.
    def validate(tp, cfg, cfg_text, label, module="Trace_Broadcast"):
        r = ctx.tlc(SPEC, module, cfg=cfg, cfg_text=cfg_text, mode="bfs", workers=1, timeout=ctx.pick(900, 3000),
                    dump_trace=False, label=label, expect=("ok", "violation"), files={"trace.ndjson": tp}, view_queue=True,
                    extra_args=["-checkpoint", "0"])
        if r.ok:
            with lock:
                ctx.trace_events += sum(1 for _ in open(tp))
            return True, r
        if r.violated != "Postcondition":
            ctx.broken("trace validation %s ended with %s" % (label, r.violated))
        return False, r

    # ---------------------------------------------------------------- one channel implementation
    def channel(name, pkg, gen_cfg, trace_cfg, lifecycle):
        num = ctx.pick(40, 600)
        g = ctx.tlc(SPEC, "Gen_Broadcast", cfg=gen_cfg, mode="simulate", num=num, depth=60, workers=1,
                    label=gen_cfg, dump_trace=False, timeout=1500)
        beh = ctx.read_emitted(g, "behaviours.ndjson")
        if len(beh) < num // 2:
            ctx.broken("behaviour generation for %s produced only %d behaviours" % (name, len(beh)))
        go = ctx.gotest(pkg, "^TestVerif_C16_(Replay|Trace)$", ["c16_test.go"],
                        inputs={"behaviours_%s.ndjson" % name: beh}, label="channel_" + name,
                        env={"VERIF_RUNS": ctx.pick(25, 200), "VERIF_FORCE_REPS": ctx.pick(40, 60),
                             "VERIF_SEQNO_ROUNDS": ctx.pick(3, 12)},
                        timeout=ctx.pick(900, 3000))
        res = {"go": go, "beh": len(beh), "traces": []}
        if go.rc != 0 or not go.reports:
            return res
        tp = ctx.trace_path(go, "trace_" + name)
        # the recorded runs are independent (each starts with a Reset): validate them in parallel chunks
        lines = open(tp).read().splitlines()
        runs, cur = [], None
        for ln in lines:
            if '"event":"Reset"' in ln:
                cur = []
                runs.append(cur)
            if cur is None:
                ctx.broken("trace %s does not start with a Reset" % tp)
            cur.append(ln)
        nchunks = ctx.pick(2, 4)
        chunk_files = []
        for k in range(nchunks):
            part = [ln for i, r in enumerate(runs) if i % nchunks == k for ln in r]
            if not part:
                continue
            cp = os.path.join(os.path.dirname(tp), "trace_%s_part%d.ndjson" % (name, k))
            with open(cp, "w") as f:
                f.write("\n".join(part) + "\n")
            chunk_files.append(cp)
        with concurrent.futures.ThreadPoolExecutor(max_workers=nchunks) as cex:
            futs = [cex.submit(validate, cp, trace_cfg, None, "%s_part%d" % (trace_cfg, k)) for k, cp in enumerate(chunk_files)]
            for cp, f in zip(chunk_files, futs):
                ok, tr = f.result()
                res["traces"].append((os.path.basename(cp)[:-7], cp, ok, tr))
        if ctx.thorough:
            cap = int(((go.reports.get("trace_" + name) or {}).get("extra") or {}).get("cap") or 0)
            if cap <= 0:
                ctx.broken("harness did not report the queue capacity of " + name)
            tpo = ctx.trace_path(go, "trace_%s_overflow" % name)
            ok, r = validate(tpo, None, _overflow_cfg(lifecycle, cap), "Trace_%s_overflow" % name)
            res["traces"].append(("trace_%s_overflow" % name, tpo, ok, r))
        return res

    def filter_alone():
        seq_cfg = ctx.pick("Gen_DupFilterSeq4", "Gen_DupFilterSeq5")
        g = ctx.tlc(SPEC, "Gen_DupFilterSeq", cfg=seq_cfg, workers=1, label=seq_cfg, dump_trace=False, timeout=1500)
        seqs = ctx.read_emitted(g, "sequences.ndjson")
        if len(seqs) < 4000:
            ctx.broken("only %d arrival orders generated" % len(seqs))
        go = ctx.gotest("pkg/net/retransmission", "^TestVerif_C16_Filter(Order)?$", ["c16_test.go"], label="filter",
                        inputs={"sequences.ndjson": seqs},
                        env={"VERIF_FILTER_ROUNDS": ctx.pick(4000, 30000), "VERIF_FILTER_TRACED": ctx.pick(60, 400)})
        res = {"go": go, "traces": []}
        if go.rc != 0 or not go.reports:
            return res
        tp = ctx.trace_path(go, "trace_filter")
        ok, tr = validate(tp, "Trace_DupFilter", None, "Trace_DupFilter", module="Trace_DupFilter")
        res["traces"].append(("trace_filter", tp, ok, tr))
        return res

    with concurrent.futures.ThreadPoolExecutor(max_workers=5) as ex:
        f_big = ex.submit(model_checking_big)
        f_mc = ex.submit(model_checking)
        f_p2p = ex.submit(channel, "libp2p", "pkg/net/libp2p", "Gen_Libp2p", "Trace_Libp2p", "separate")
        f_loc = ex.submit(channel, "local", "pkg/net/local", "Gen_Local", "Trace_Local", "inline")
        f_flt = ex.submit(filter_alone)
        results = [f.result() for f in (f_mc, f_p2p, f_loc, f_flt)]   # re-raises Broken
        f_big.result()
    negs, r_p2p, r_loc, r_flt = results
    ctx.extra["negative_variants"] = negs

    for name, res in (("libp2p", r_p2p), ("local", r_loc), ("filter", r_flt)):
        go = res["go"]
        if go.rc != 0 and not go.reports:
            continue                      # a panic of keep-core code was already turned into a violation by gotest
        ctx.absorb(go)
        for tname, tp, ok, tr in res["traces"]:
            lines = open(tp).read().splitlines()
            nruns = sum(1 for ln in lines if '"Reset"' in ln)
            if ok:
                ctx.traces_validated += nruns
                continue
            hw = ctx.longest_prefix(tr) or 1
            kind = "?"
            for ln in reversed(lines[:hw]):
                if '"Reset"' in ln:
                    kind = json.loads(ln).get("kind", "filter")
                    break
            bad = lines[hw - 1] if hw <= len(lines) else "?"
            # cut the rejected run out of the trace for the replay file
            start = max(i for i in range(hw) if '"Reset"' in lines[i]) if any('"Reset"' in l for l in lines[:hw]) else 0
            ctx.violation("trace:%s:%s" % (name, kind),
                          "a recorded %s run of the real %s is not a behaviour of the specification: the event at line %d cannot "
                          "happen there (%s)" % (kind, "duplicate filter" if name == "filter" else name + " channel", hw, bad),
                          {"rejected_event": bad, "run": lines[start:hw + 1][-80:], "tlc": tr.out[-1500:]})
    # the forced replay must really have walked the processing goroutine through its steps
    for name, res in (("libp2p", r_p2p), ("local", r_loc)):
        rep = (res["go"].reports or {}).get("replay_" + name)
        if not rep:
            continue
        c = rep.get("counters") or {}
        if c.get("replay_not_applicable") and not ctx.violations:
            ctx.broken("forced replay on %s not applicable: the implementation no longer reads ctx.Err() exactly once after each "
                       "dequeue (the harness must be adapted to the new structure)" % name)
        total = sum(v for k, v in c.items() if k.startswith("behaviour_"))
        lost = c.get("behaviour_desync", 0)
        ctx.note("%s forced replay: %d behaviours, %s; %d steps compared" % (
            name, total, ", ".join("%s=%d" % (k[10:], v) for k, v in sorted(c.items()) if k.startswith("behaviour_")),
            c.get("steps_compared", 0)))
        if not ctx.violations:
            for a in ("Dequeue", "CheckCtx", "FilterInvoke", "Return", "ExitOnDone", "Send", "Retransmit", "Register") + \
                    (("SendFail",) if name == "libp2p" else ()):
                if c.get("step_" + a, 0) == 0:
                    ctx.broken("forced replay on %s never took step %s" % (name, a))
            if total and lost * 5 > total:
                ctx.broken("forced replay on %s lost step with the implementation in %d of %d behaviours: the harness no longer "
                           "matches the structure of the code" % (name, lost, total))
            if c.get("behaviour_complete", 0) < total // 3:
                ctx.broken("forced replay on %s completed only %d of %d behaviours" % (name, c.get("behaviour_complete", 0), total))
    return ctx.finish(
        level="model_checking",
        rule="TLC: every interleaving of the specification's actions within MC_*.cfg (2 senders x 1-2 messages x 1 retransmission, "
             "1-2 handlers, both lifecycle variants). Replay: TLC-simulated behaviours (40 steps, 2 senders x 2 messages x 2 "
             "retransmissions, 2 handlers) forced on the real libp2p and local channels, state compared after every step; "
             "non-trivial = behaviours in which a message reaches the filter or a select finds both a message and a cancelled "
             "context. Traces: random concurrent runs, concurrent Send on one channel, the forcing scenario, the full-queue "
             "scenario (thorough), and concurrent duplicates through the filter alone.",
        assumptions=["Go channels are FIFO and a select with several ready cases picks any of them",
                     "goroutines are held only at ctx.Done(), ctx.Err() and handler entry; one deliver() call is one step of the forced replay",
                     "a behaviour whose real select took the other ready case is stopped there (counted as unrealized), not judged",
                     "the pubsub topic is replaced by a publisher that feeds processPubsubMessage of the receiving channel",
                     "an invocation that starts in the window between the context check and the call is permitted (MC_Window)"],
        exhaustive=False)
