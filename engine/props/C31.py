"""C31 — assembled SPV proofs prove the transaction."""
META = {
    "level": "model_checking",
    "text": "AssembleSpvProof is specified query by query (confirmations, transaction, tip, one GetBlockHeader per header, Merkle proof, "
            "coinbase hash, coinbase transaction, coinbase Merkle proof) interleaved with blocks mined at any moment and failing queries, "
            "over a chain that answers like an Electrum server. TLC checks exhaustively that a returned proof consists of `required` "
            "consecutive headers from the transaction's block, a Merkle proof for (that block, the transaction's position) and that "
            "block's coinbase, and that the only spurious failure is a block arriving between the confirmations and the tip query. "
            "Every generated behaviour is replayed on the real AssembleSpvProof over a fake chain with real transactions, Merkle trees "
            "and linked headers that mines on the behaviour's schedule; an independent verifier (crypto/sha256 only) folds the proofs, "
            "checks header linkage and the coinbase preimage and maps the real proof back to (block, position).",
    "note": "Trusted: an Electrum server refuses a Merkle proof request for a transaction that is not in the block at the given height "
            "(ElectrumX and electrs do); MC_Lenient shows that without this the assembler would return proofs for the wrong block when "
            "a block arrives between its first and third query. Reorganisations are not modelled.",
    "technique": "TLA+ spec shaped like the assembler, TLC exhaustive; every behaviour replayed on the real code over a real-data fake chain with an independent proof verifier",
    "design_ref": "DESIGN.md §4.7 C31",
}
SPEC = "specs/SpvAssembly"
PKG = "pkg/bitcoin"
ACTIONS = ["MineBlock", "QConfirmations", "QTransaction", "QLatest", "QHeader", "QMerkle", "QCoinbaseHash", "QCoinbaseTx",
           "QCoinbaseMerkle"]


def run(ctx):
    mc = ctx.pick("MC_Quick", "MC_Full")
    r = ctx.tlc(SPEC, "SpvAssembly", cfg=mc, coverage=True, label=mc, timeout=ctx.pick(900, 3000))
    ctx.require_coverage(r, ACTIONS, mc)
    hz = ctx.tlc(SPEC, "SpvAssembly", cfg="MC_Lenient", label="MC_Lenient", expect=("violation",), timeout=900)
    ctx.note("hazard variant (server does not check that the transaction is in the block): TLC counterexample of %s - "
             "the assembler relies on the server's check when a block arrives between its reads" % hz.violated)
    gen = ctx.pick("Gen_Quick", "Gen_Full")
    g = ctx.tlc(SPEC, "Gen_SpvAssembly", cfg=gen, workers=1, label=gen, dump_trace=False, timeout=ctx.pick(900, 3000))
    beh = ctx.read_emitted(g, "behaviours.ndjson")
    if len(beh) < ctx.pick(4000, 20000):
        ctx.broken("%s produced only %d behaviours" % (gen, len(beh)))
    ok = sum(1 for b in beh if b["ok"])
    raced = sum(1 for b in beh if b["steps"][-1]["cause"] == "tx-not-in-block")
    grown = sum(1 for b in beh if b["ok"] and any(s["a"] == "MineBlock" for s in b["steps"]))
    if ok < 300 or raced < 100 or grown < 100:
        ctx.broken("generated behaviours too thin: %d successful (%d with growth), %d raced" % (ok, grown, raced))
    ctx.note("replay set: %d behaviours, %d successful assemblies (%d with blocks mined meanwhile), %d failing on the race" % (
        len(beh), ok, grown, raced))
    go = ctx.gotest(PKG, "^TestVerif_C31_", ["c31_test.go"], inputs={"behaviours.ndjson": beh}, label="assemble",
                    timeout=ctx.pick(900, 3000))
    ctx.absorb(go, require_evals=len(beh))
    return ctx.finish(
        level="model_checking",
        rule="every behaviour of the model within the bounds of Gen_*.cfg (initial tip, transaction block incl. unconfirmed, required "
             "confirmations, up to 2/3 blocks mined between any two queries, at most one failing query) replayed on the real "
             "AssembleSpvProof with seeded tree sizes 1..17 and positions; non-trivial = successful assemblies and behaviours with growth",
        assumptions=["the Electrum server refuses get_merkle for a transaction not in the block at the given height",
                     "no reorganisation during assembly", "tree size / position do not influence the assembler's control flow "
                     "(checked in the model for sizes 1..9, drawn at random per behaviour in the harness)"],
        exhaustive=True)
