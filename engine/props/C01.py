"""C01 — beacon DKG (GJKR): honest members agree on the group key and on who misbehaved."""
import importlib.util
import os

_p = os.path.join(os.path.dirname(os.path.abspath(__file__)), "gjkr_common.py")
_s = importlib.util.spec_from_file_location("gjkr_common", _p)
G = importlib.util.module_from_spec(_s)
_s.loader.exec_module(G)

META = {
    "level": "model_checking",
    "text": "An implementation-shaped TLA+ model of the 12 GJKR states (per-member IA/DQ views, evidence log, qualified shares, "
            "stored points, expected reconstructions; symbolic adversary controlling every field of every message of up to t "
            "corrupt members within a deviation budget; consistent broadcast with every cross-sender order) is checked "
            "exhaustively by TLC for n=3 (quick) and n=3,4,5 (thorough): Agreement (misbehaved set and group-key terms), "
            "NoHonestPunished, NoAbort, ViewsAgree. The model of the pinned code (no repairs) is shown to violate them. "
            "Directed adversary classes (every behaviour that breaks the pinned design) and random composite adversaries "
            "(TLC simulation, n=3..5, 1-2 corrupt) are replayed on the real gjkr states with real bn256/ECDH values; every "
            "member's IA/DQ, evidence log, QUAL, stored points, expected/revealed reconstructions and accepted messages are "
            "compared with the model after every step and agreement is evaluated on the real results. In the other direction, "
            "runs against an adversary chosen by the harness (unbounded deviations, random orders in every state) are recorded "
            "and validated by TLC against the model (Trace_Gjkr) with all invariants evaluated on the real traces. Model checking is the "
            "right level: agreement quantifies over combinations of misbehaviours across phases and delivery orders that no "
            "test enumerates (six genuine defects were found this way, five need only one or two interacting deviations).",
    "note": "Trusted: the symbolic-to-real abstraction function of the harness (stated in gjkr_harness_test.go); block timing of "
            "state.SyncMachine is not exercised (states are driven directly: Initiate before the messages of a state, as the "
            "machine does) and a corrupt message reaches either all honest members in time or none; exhaustive bounds are "
            "n<=5, deviation budget 2-3; the IA-versus-DQ classification of a misbehaved member is not asserted to agree "
            "(the result merges both lists).",
    "technique": "TLA+ spec of the protocol states checked exhaustively with TLC; hazard (unrepaired) variant violated; TLC-generated "
                 "directed and random behaviours replayed step by step on the real member/state objects with real cryptography; "
                 "trace validation of harness-adversary runs",
    "design_ref": "DESIGN.md §4.2 C01 / C02",
}


def run(ctx):
    if ctx.replay:
        return G.replay_one(ctx, "C01")
    sel, res = G.generate(ctx, "C01")
    ctx.extra["hazard_violated"] = res["hazard"].violated
    G.replay(ctx, "C01", sel)
    return ctx.finish(
        level="model_checking",
        rule="TLC exhaustively checks Agreement/NoHonestPunished/NoAbort/ViewsAgree on the repaired GJKR model (n=3 quick; "
             "n=3,4,5 thorough; every corrupt message field within the deviation budget; every delivery order). Replayed on "
             "the real code: every directed behaviour whose adversary breaks the unrepaired model (classes: single deviation "
             "n=3, duplicate reveal, unexpected reveal, absent shares, dropped accuser, partial points) plus TLC-simulated "
             "random adversaries for n=3,4,5; non-trivial = behaviours with at least one deviation. After every step the "
             "real member's view is compared with the model; agreement, honest-punished and fatal aborts are evaluated on "
             "the real results. Trace validation: 10 (quick) / 120 (thorough) runs per group size against a harness-chosen "
             "adversary must be accepted by Trace_Gjkr with every invariant holding.",
        assumptions=["synchronous rounds: a message is delivered to all honest members within its state or to none",
                     "consistent broadcast: all honest members see the same messages of a sender in the same order",
                     "one operator per seat (membership validation maps a transport key to exactly one member index)",
                     "cryptographic values are realized by the harness' abstraction function; binding of Pedersen commitments "
                     "and unforgeability of the transport signature are assumed",
                     "exhaustive exploration is bounded: n<=5, at most 2 corrupt, deviation budget 2 (3 for n=3)"],
        exhaustive=False)
