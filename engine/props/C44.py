"""C44 — explicit configuration is never overridden by network defaults."""
META = {
    "level": "model_checking",
    "text": "The resolution rules of config.ReadConfig are a finite decision function: the TLA+ module enumerates the whole input space "
            "(network flags x where peers / Electrum URL / each contract address were set: unset, file or flag), TLC checks the "
            "property's invariants on the specified Resolve for all 8 contracts (exhaustive), and every generated combination is "
            "executed through the real ReadConfig with a real TOML file and pflag set and compared field by field.",
    "note": "Trusted: viper/pflag (file and flag layering). Generation varies 4 of the 8 contract addresses (the other 4 stay unset and "
            "are checked against defaults); the environment-variable source is not exercised.",
    "technique": "TLA+ decision spec enumerated exhaustively by TLC; every case replayed through the real ReadConfig",
    "design_ref": "DESIGN.md §4.7 C44",
}
SPEC = "specs/Config"


def run(ctx):
    r = ctx.tlc(SPEC, "Config", cfg=ctx.pick("MC_Config", "MC_Config_thorough"), coverage=True, label="MC_Config", timeout=900)
    ctx.require_coverage(r, ["Read"], "MC_Config")
    g = ctx.tlc(SPEC, "Gen_Config", cfg="Gen_Config", workers=1, label="Gen_Config", dump_trace=False, timeout=900)
    cases = ctx.read_emitted(g, "cases.ndjson")
    if len(cases) != 24576:
        ctx.broken("expected 24576 generated cases, got %d" % len(cases))
    if not ctx.thorough:
        import random
        cases = random.Random(ctx.seed).sample(cases, 700)
    go = ctx.gotest("config", "^TestVerif_C44_", ["c44_test.go"], inputs={"cases.ndjson": cases}, label="resolve")
    ctx.absorb(go, require_evals=len(cases))
    return ctx.finish(
        level="model_checking",
        rule="all 24576 combinations (quick: seeded sample of 700) of {testnet, developer} flags x {unset, file, flag (+ single-entry peers, + malformed contract address)} for peers, "
             "Electrum URL and 4 contract addresses; non-trivial = at least one value left unset (a default must be chosen)",
        assumptions=["viper/pflag layering is trusted", "embedded default lists are read from config/_peers and config/_electrum_urls"],
        exhaustive=ctx.thorough)
