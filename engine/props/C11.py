"""C11 — retry-loop attempts have identical, non-overlapping block windows."""
import json
import os
import random

META = {
    "level": "model_checking",
    "text": "TLA+ specification of signingRetryLoop.start and dkgRetryLoop.start as sequential processes against a nondeterministic "
            "environment (chain, announcer, attempt function, done check, context), one action per call/decision of the code; the "
            "window constants are read from the built code and passed to TLC, which checks for every failure history that attempt n "
            "has the closed-form windows on every member, that attempt n+1 is announced only after attempt n timed out, that a member "
            "takes part only in a window that had not passed when it looked, and that the attempt function gets exactly the window. "
            "TLC enumerates every failure history of up to 3 attempts as a script; the real loops are driven through each script with "
            "fake block functions, a scripted announcer / attempt function / done check, and everything they ask of the environment "
            "is trace-validated against the specification and compared across runs.",
    "note": "Trusted: the announcer honours its context (key generation relies on it to sit out a window that is over); member "
            "selection is C10 (here an environment choice, realized by searching a message for which the real selection matches); "
            "histories longer than 3 attempts are not enumerated.",
    "technique": "TLA+ spec, TLC exhaustive with code-derived constants; TLC-enumerated failure histories replayed on the real loops with fake block/announcer/attempt functions; trace validation",
    "design_ref": "DESIGN.md §4.3 C11",
}
SPEC = "specs/AttemptWindows"
PKG = "pkg/tbtc"
ACTIONS = ["BeginAttempt", "ObserveErr", "DoObserve", "WaitStartErr", "DoWaitStart", "DoWaiterAsks", "AnnounceErr",
           "DoAnnounce", "SelectErr", "DoSelect", "AttemptErr", "AttemptOk", "SignalErr", "SignalOk", "DoneWaitErr",
           "DoneWaitOk", "Cancel"]
INVS = ("TypeOK WindowClosedForm SameOnEveryMember NumberedConsecutively NonOverlapping OnlyCurrentWindow "
        "ParamsExact SpawnedAreBoundaries LimitRespected ResultWindow ConstantsSane")
CONST_INVS = {"NonOverlapping", "ConstantsSane"}


def _hwm(out):
    import re
    m = None
    for m in re.finditer(r'"VERIF_HWM",\s*(\d+)', out):
        pass
    return int(m.group(1)) if m else None


def _blocks(lines):
    starts = [i for i, ln in enumerate(lines) if '"event":"Reset"' in ln]
    return [(s, (starts[k + 1] if k + 1 < len(starts) else len(lines))) for k, s in enumerate(starts)]


def _consts_cfg(c):
    return ("  SDelay = %d\n  SActive = %d\n  SProtocol = %d\n  SMax = %d\n"
            "  DDelay = %d\n  DActive = %d\n  DProtocol = %d\n  DMax = %d\n" % (
                c["SDelay"], c["SActive"], c["SProtocol"], c["SMax"],
                c["DDelay"], c["DActive"], c["DProtocol"], c["DMax"]))


def _mc_cfg(c, procs, kinds, gsize, need, limits, max_attempts, constraint=True, invs=INVS, quiet=False):
    return ("SPECIFICATION Spec\nCONSTANTS\n" + _consts_cfg(c) +
            "  Procs = {%s}\n  Kinds = {%s}\n  GroupSize = %d\n  Need = %d\n  Start0 = 1000\n  Limits = {%s}\n"
            "  MaxAttempts = %d\n" % (", ".join(map(str, procs)), ", ".join('"%s"' % k for k in kinds), gsize, need,
                                      ", ".join(map(str, sorted(limits))), max_attempts) +
            ("CONSTRAINT FewPendingWaiters\n" if constraint else "") + ("CONSTRAINT QuietContext\n" if quiet else "") +
            "INVARIANTS " + invs + "\n")


def run(ctx):
    from concurrent.futures import ThreadPoolExecutor
    # 1. every failure history of one loop, as a script of environment answers (shape only; model constants)
    g = ctx.tlc(SPEC, "Gen_AttemptWindows", cfg=ctx.pick("Gen_Quick", "Gen_Thorough"), workers=1, label="Gen",
                dump_trace=False, timeout=ctx.pick(900, 3000))
    scripts = ctx.read_emitted(g, "scripts.ndjson")
    sig = [s for s in scripts if s["kind"] == "signing"]
    dkg = [s for s in scripts if s["kind"] == "dkg"]
    if len(sig) < 1000 or len(dkg) < 300:
        ctx.broken("script generation produced %d signing and %d dkg histories" % (len(sig), len(dkg)))
    ctx.note("failure histories: %d signing, %d key generation" % (len(sig), len(dkg)))
    rnd = random.Random(ctx.seed)
    sel = rnd.sample(sig, min(ctx.pick(260, 5000), len(sig))) + rnd.sample(dkg, min(ctx.pick(160, 2500), len(dkg)))
    rnd.shuffle(sel)
    # 2. the real loops, driven through the scripts; also yields the constants of the built code
    go = ctx.gotest(PKG, "^TestVerif_C11_", ["c11_test.go"], inputs={"scripts.ndjson": sel}, label="windows",
                    timeout=ctx.pick(900, 3000))
    ctx.absorb(go, require_evals=200)
    cpath = os.path.join(go.outdir, "c11_constants.json")
    if not os.path.isfile(cpath):
        ctx.broken("the harness did not export the window constants")
    c = json.load(open(cpath))
    ctx.extra["code_constants"] = c
    ctx.note("window constants of the built code: %s" % json.dumps(c, sort_keys=True))
    rep = go.reports.get("windows", {})
    unreal = int(rep.get("unrealized", 0))
    if unreal > len(sel) // 5:
        ctx.broken("%d of %d scripts could not be realized" % (unreal, len(sel)))
    limits = {0, 2, int(c["DkgLimit"])}
    # 3. TLC on the specification with the code's constants (all invariants, every failure history), and
    # 4. the recorded runs validated against the specification with the code's constants
    tp = ctx.trace_path(go, "trace_windows")
    lines = open(tp).read().splitlines()
    nblocks = len(_blocks(lines))
    trace_cfg = ("SPECIFICATION TSpec\nCONSTANTS\n" + _consts_cfg(c) +
                 "  Procs = {1}\n  Kinds = {\"signing\"}\n  GroupSize = 1\n  Need = 1\n  Start0 = 0\n  Limits = {0}\n"
                 "  MaxAttempts = 1000000\nCONSTRAINT Hwm\nINVARIANTS " + INVS.replace("TypeOK ", "") + "\nPOSTCONDITION Accepted\n")

    def validate(cur_lines, k):
        return ctx.tlc(SPEC, "Trace_AttemptWindows", cfg_text=trace_cfg, mode="bfs", workers=1,
                       timeout=ctx.pick(1200, 3600), dump_trace=False, label="Trace_%d" % k, expect=("ok", "violation"),
                       files={"trace.ndjson": "\n".join(cur_lines) + "\n"}, view_queue=True, heap="4g")

    with ThreadPoolExecutor(4) as ex:
        f_cov = ex.submit(ctx.tlc, SPEC, "AttemptWindows", cfg_text=_mc_cfg(c, [1], ["signing", "dkg"], 2, 2, limits, 2, False),
                          coverage=True, label="MC_Coverage", timeout=1200, workers=2, expect=("ok", "violation"))
        f_one = ex.submit(ctx.tlc, SPEC, "AttemptWindows",
                          cfg_text=_mc_cfg(c, [1], ["signing", "dkg"], 3, 2, limits, ctx.pick(3, 4)),
                          label="MC_One", timeout=ctx.pick(1200, 3000), workers=4, expect=("ok", "violation"))
        f_two = ex.submit(ctx.tlc, SPEC, "AttemptWindows",
                          cfg_text=_mc_cfg(c, [1, 2], ctx.pick(["signing"], ["signing", "dkg"]), 2, 2, {0, int(c["DkgLimit"])}, 2,
                                           quiet=not ctx.thorough),
                          label="MC_Two", timeout=ctx.pick(1200, 3000), workers=4, expect=("ok", "violation"))
        f_tr = ex.submit(validate, lines, 0)
        mcs = [("MC_Coverage", f_cov.result()), ("MC_One", f_one.result()), ("MC_Two", f_two.result())]
        tr = f_tr.result()
    for name, r in mcs:
        if r.violated:
            if r.violated in CONST_INVS:
                # the only inputs of this run that come from the code are its window constants
                ctx.violation("constants:" + r.violated,
                              "with the window constants of the built code (%s) the specification violates %s: consecutive "
                              "attempts are not separated (attempt n+1 is announced before attempt n timed out)" % (
                                  json.dumps(c, sort_keys=True), r.violated), {"tlc": r.out[-3000:]})
            else:
                ctx.broken("model run %s violates %s" % (name, r.violated))
    if not mcs[0][1].violated:
        ctx.require_coverage(mcs[0][1], ACTIONS, "MC_Coverage")
    rejected = 0
    while not tr.ok:
        if tr.violated in CONST_INVS:
            # the same finding as in the model runs (the trace specification carries the same constants)
            ctx.violation("constants:" + tr.violated,
                          "with the window constants of the built code (%s) the specification violates %s" % (
                              json.dumps(c, sort_keys=True), tr.violated), {"tlc": tr.out[-3000:]})
            ctx.note("trace validation not meaningful: the code's window constants violate %s" % tr.violated)
            break
        if tr.violated != "Postcondition":
            ctx.broken("trace validation stopped with %s, not with a rejected trace:\n%s" % (tr.violated, tr.out[-1500:]))
        hw = _hwm(tr.out)
        if not hw or hw > len(lines):
            ctx.broken("trace rejected but no high-water mark reported")
        blk = [b for b in _blocks(lines) if b[0] <= hw - 1 < b[1]]
        if not blk:
            ctx.broken("rejected line %d is outside every block" % hw)
        s, e = blk[0]
        head = json.loads(lines[s])
        sc = sel[head["script"]] if head.get("script") is not None and head["script"] < len(sel) else None
        import hashlib
        key = "trace:%s:%s" % (head["kind"], hashlib.sha256(json.dumps(sc, sort_keys=True).encode()).hexdigest()[:12])
        ctx.violation(key, "a real %s retry loop (member %s, start block %s) left the specification at its %d-th recorded step: %s "
                           "(preceding steps: %s)" % (head["kind"], head["member"], head["start"], hw - s, lines[hw - 1],
                                                      " | ".join(lines[max(s, hw - 6):hw - 1])),
                      {"script": sc, "run": lines[s:e][:120], "rejected_line": lines[hw - 1]})
        rejected += 1
        lines = lines[:s] + lines[e:]
        if rejected >= 3 or not lines:
            ctx.note("stopped re-validating after %d rejected runs" % rejected)
            break
        tr = validate(lines, rejected)
    if tr.ok:
        ctx.trace_events += len(lines)
    ctx.traces_validated += max(0, nblocks - rejected)
    return ctx.finish(
        level="model_checking",
        rule="every failure history of one loop of up to 3 attempts over the answer alphabet {current block error / before / at / "
             "after the announcement end / one or two attempts late, wait error, announcement error / too few / everyone / all "
             "but the member / exactly enough, member included or skipped, selection error, attempt error, signal error, done "
             "check error, success, cancellation during the announcement or after the last attempt, attempt limit 0/1/2}; quick: "
             "seeded sample of 420 histories with 3 observation points, thorough: 7500 with 6; non-trivial = histories with more "
             "than 3 environment answers. TLC checks the specification exhaustively with the constants read from the built code.",
        assumptions=["the announcer honours its context (reports only the member itself once the window is over)",
                     "member selection is an environment choice here (C10); runs use a message for which the real selection matches the script",
                     "spawned cancel-on-block goroutines are observed through their wake-up requests"],
        exhaustive=False)
