"""C06 — relay entry requests are processed at most once and in order."""
META = {
    "level": "model_checking",
    "text": "TLC exhaustively checks the (currentRequestStartBlock, currentRequestPreviousEntry) state machine of "
            "Deduplicator.NotifyRelayEntryStarted (one atomic action per branch, chain answers including both error paths) for "
            "'processed start blocks strictly increase, at most one true per request, new previous entry always processed, reused "
            "previous entry processed iff the chain confirms it', and the retry loop confirmCurrentRelayRequest in front of it. "
            "Every behaviour of the model (all notification sequences x chain answers) is replayed on the real Deduplicator with "
            "result, error, chain queries and remembered request compared after every call; concurrent runs of 8 goroutines are "
            "recorded as call/return events and accepted only if TLC finds an atomic order explaining every result "
            "(linearizability). The property quantifies over histories and schedules: enumeration, hence model checking.",
    "note": "Trusted: recording order of Call/Return events (a tracer mutex); concurrency is exercised by real scheduling (no "
            "hook points in this method), so a missing lock is caught only when a race actually materializes in a recorded run. "
            "Start block 0 is treated as 'no request' by the code; the at-most-once invariant is stated for blocks >= 1.",
    "technique": "TLA+ state machine, TLC exhaustive with action properties; behaviour replay; linearizability by trace validation",
    "design_ref": "DESIGN.md §4.2 C06",
}
SPEC = "specs/RelayDedup"


def run(ctx):
    acts = ["NotifyFirst", "NotifyNew", "NotifyStale", "NotifyErr", "NotifyRetry", "NotifyReorg"]
    r = ctx.tlc(SPEC, "RelayDedup", cfg="MC_Dedup", coverage=True, label="MC_Dedup")
    ctx.require_coverage(r, acts, "MC_Dedup")
    cacts = ["QueryErr", "QueryEqual", "QueryGreater", "QueryLess", "GiveUp"]
    if ctx.thorough:   # quick: the generation run below checks the same invariants for maxRetries 1..3
        r = ctx.tlc(SPEC, "RelayConfirm", cfg="MC_Confirm", coverage=True, label="MC_Confirm")
        ctx.require_coverage(r, cacts, "MC_Confirm")
    # behaviours -> real Deduplicator
    gen_cfg = ctx.pick("Gen_Dedup3", "Gen_Dedup4")
    g = ctx.tlc(SPEC, "Gen_RelayDedup", cfg=gen_cfg, workers=1, label=gen_cfg, dump_trace=False, timeout=1500)
    beh = ctx.read_emitted(g, "behaviours.ndjson")
    if len(beh) < 1000:
        ctx.broken("behaviour generation produced only %d behaviours" % len(beh))
    gc = ctx.tlc(SPEC, "Gen_RelayConfirm", cfg=ctx.pick("Gen_Confirm3", "Gen_Confirm4"), workers=1, label="Gen_Confirm", dump_trace=False,
                 coverage=True)
    ctx.require_coverage(gc, cacts, "Gen_Confirm")
    cases = ctx.read_emitted(gc, "confirm.ndjson")
    if len(cases) < 40:
        ctx.broken("confirm case generation produced only %d cases" % len(cases))
    ctx.note("dedup behaviours: %d, confirm cases: %d" % (len(beh), len(cases)))
    go = ctx.gotest("pkg/beacon/event", "^TestVerif_C06_(Replay|Concurrent)$", ["c06_test.go"],
                    inputs={"behaviours.ndjson": beh}, label="dedup",
                    env={"VERIF_RUNS": ctx.pick(32, 200), "VERIF_WORKERS": 8, "VERIF_CALLS": ctx.pick(2, 3)})
    ctx.absorb(go)
    if set(go.reports) != {"replay", "concurrent"}:
        ctx.broken("dedup harness reports missing: %s" % sorted(go.reports))
    # linearizability of the concurrent runs
    tp = ctx.trace_path(go, "trace_dedup")
    ok, tr = ctx.validate_trace(SPEC, "Trace_RelayDedup", tp, cfg="Trace_Dedup", label="Trace_Dedup", timeout=3000, heap="4g")
    nruns = sum(1 for line in open(tp) if '"Reset"' in line)
    if ok:
        ctx.traces_validated += nruns
    elif tr.violated and tr.violated != "Postcondition":
        lines = open(tp).read().splitlines()
        hw = ctx.longest_prefix(tr)
        ctx.violation("trace:invariant:" + str(tr.violated),
                      "a recorded concurrent run of NotifyRelayEntryStarted violates %s of the specification" % tr.violated,
                      {"tlc": tr.out[-2500:], "trace_tail": lines[max(0, (hw or 1) - 30):(hw or 1) + 2]})
    else:
        lines = open(tp).read().splitlines()
        hw = ctx.longest_prefix(tr)
        ctx.violation("trace:not-linearizable",
                      "a recorded concurrent run of NotifyRelayEntryStarted is not explained by any atomic order of the overlapping "
                      "calls (rejected at line %s: %s)" % (hw, lines[hw - 1] if hw and hw <= len(lines) else "?"),
                      {"trace_tail": lines[max(0, (hw or 1) - 40):(hw or 1) + 2], "tlc": tr.out[-1500:]})
    # confirmation loop
    go2 = ctx.gotest("pkg/beacon", "^TestVerif_C06_Confirm$", ["c06_test.go"], inputs={"confirm.ndjson": cases}, label="confirm",
                     timeout=1200)
    ctx.absorb(go2)
    return ctx.finish(
        level="model_checking",
        rule="every sequence of 3 (quick) / 4 (thorough) notifications over start blocks 0..3 and previous entries {aa,bb}, with "
             "every chain answer (each (entry, block) pair, previous-entry error, start-block error) wherever the chain is consulted; "
             "non-trivial = behaviours in which the chain is consulted. Concurrent: 32/200 runs of 8 goroutines x 2/3 calls released together by a barrier "
             "(duplicates of one request, small alphabets, increasing blocks; chain answering ok/errors) validated as linearizable. "
             "Confirmation loop: every sequence of chain answers (error, 0, lower, equal, higher) up to maxRetries 3/4.",
        assumptions=["Call/Return recording order is a valid real-time order (events are written under one mutex)",
                     "the chain's answer is constant during one concurrent run",
                     "start block 0 means 'no request' (as the code assumes)"],
        exhaustive=True)
