"""C14 — the block-synchronized state machine runs every phase in its block window."""
META = {
    "level": "model_checking",
    "text": "TLC exhaustively checks a step-by-step model of SyncMachine.Execute/stateTransition (every protocol of up to 3-4 states "
            "with delays 0-2 and active periods 0-2 including silent states, every interleaving of block arrivals, deliveries, "
            "hand-offs, state work and injected errors; two and three members on one chain) for block-exact initiation and end "
            "blocks, hand-off discipline, FIFO delivery, handler lifecycle, lockstep and termination. TLC-generated behaviours are "
            "replayed step by step on the real SyncMachine through parking fakes with the observable state compared after every "
            "step, free-running concurrent runs are trace-validated against the model, and the real GJKR / result-publication "
            "state chains are summed against ProtocolBlocks()/PrePublicationBlocks().",
    "note": "Trusted: block counters emit the requested height on their waiters (true for local_v1 and keep-common's Ethereum "
            "counter); the fake channel invokes the handler of live registrations synchronously. A message pushed to recvChan "
            "while a state is current can be handed to the next state when the end-of-state waiter wins the select: the model "
            "contains this (MC_CarryOver shows it), it is documented code behaviour, not flagged.",
    "technique": "TLA+ spec shaped like Execute/stateTransition, TLC exhaustive (safety + liveness); behaviour replay on real code with "
                 "parking fakes; trace validation of concurrent runs; walk of the real state chains",
    "design_ref": "DESIGN.md §4.1 C14",
}
SPEC = "specs/SyncMachine"
PKG = "pkg/protocol/state"
CORE = ["DoExec", "DoStartReached", "DoDelayReached", "DoInitiateEnd", "DoEndBegin", "DoEndNext", "Mine"]


def mc(ctx, T, sfx):
    # one member, messages, every error path: all actions must be covered
    r = ctx.tlc(SPEC, "SyncMachine", cfg="MC_Core", coverage=True, label="MC_Core", timeout=ctx.pick(600, 1800))
    ctx.require_coverage(r, CORE + ["DoArrive", "DoHandOff", "DoFailStart", "DoFailDelay", "DoFailInitiate",
                                    "DoFailWaiter", "DoFailNext"], "MC_Core")
    # larger bounds; block arithmetic over many protocols; two members (any interleaving); members with a prompt scheduler
    runs = [("MC_Blocks", 20000), ("MC_Pair", 10000), ("MC_Prompt", 5000), ("MC_Window", 20000)]
    if T:
        runs = [("MC_Core", 100000)] + runs
    for cfg, floor in runs:
        r = ctx.tlc(SPEC, "SyncMachine", cfg=cfg + sfx, label=cfg + sfx, timeout=ctx.pick(600, 3000))
        if r.distinct < floor:
            ctx.broken("%s explored only %d states" % (cfg, r.distinct))
    if T:
        r = ctx.tlc(SPEC, "SyncMachine", cfg="MC_Live", label="MC_Live", timeout=2400)
    # 2a. the hazard that DelayBlocks removes is reachable in the model (so DelayProtects is not vacuous)
    te = ctx.tlc(SPEC, "SyncMachine", cfg="MC_TooEarly", label="MC_TooEarly", expect=("violation",))
    if te.violated != "NeverTooEarly":
        ctx.broken("MC_TooEarly: expected a NeverTooEarly counterexample, got %s" % te.violated)
    # 2b. documented residual behaviour: a buffered message can cross a state boundary
    co = ctx.tlc(SPEC, "SyncMachine", cfg="MC_CarryOver", label="MC_CarryOver", expect=("violation",))
    if co.violated != "NoCarryOver":
        ctx.broken("MC_CarryOver: expected a NoCarryOver counterexample, got %s" % co.violated)


def blocks(ctx):
    # the real protocols' durations
    go2 = ctx.gotest("pkg/beacon/gjkr", "^TestVerif_C14_GjkrBlocks$", ["c14_blocks_test.go"], label="gjkr_blocks")
    go3 = ctx.gotest("pkg/beacon/dkg/result", "^TestVerif_C14_ResultBlocks$", ["c14_blocks_test.go"], label="result_blocks")
    return go2, go3


class Bg:
    """Run an independent step of the check on its own thread (TLC model runs and
    the block-sum tests do not depend on the replay pipeline)."""
    def __init__(self, fn, *a):
        import threading
        self.res, self.exc = None, None

        def body():
            try:
                self.res = fn(*a)
            except BaseException as ex:  # re-raised by join()
                self.exc = ex
        self.t = threading.Thread(target=body, daemon=True)
        self.t.start()

    def join(self):
        self.t.join()
        if self.exc is not None:
            raise self.exc
        return self.res


def run(ctx):
    import random, threading
    T = ctx.thorough
    sfx = "_T" if T else ""
    # scratch sub-directories are numbered by ctx: serialize the numbering between threads
    lock, orig = threading.Lock(), ctx.subdir

    def subdir(name):
        with lock:
            return orig(name)
    ctx.subdir = subdir
    # 1./2. the model satisfies the property (exhaustive, bounded) -- in the background
    bg_mc = Bg(mc, ctx, T, sfx)
    bg_blocks = Bg(blocks, ctx)
    try:
        return pipeline(ctx, T, bg_mc, bg_blocks)
    except BaseException:
        # do not leave background TLC / go test processes behind
        import subprocess
        subprocess.run(["pkill", "-f", ctx.scratch], stderr=subprocess.DEVNULL)
        raise
    finally:
        ctx.subdir = orig


def pipeline(ctx, T, bg_mc, bg_blocks):
    import random
    # 3. behaviours for replay
    rnd = random.Random(ctx.seed)
    beh = []
    for cfg, num in (("Gen_Sim1", ctx.pick(120, 1200)), ("Gen_Sim2", ctx.pick(60, 600))):
        g = ctx.tlc(SPEC, "Gen_SyncMachine", cfg=cfg, mode="simulate", num=num, depth=400, workers=1,
                    label=cfg, dump_trace=False, timeout=ctx.pick(300, 1800))
        b = ctx.read_emitted(g, "behaviours.ndjson")
        if len(b) < num // 2:
            ctx.broken("%s produced only %d behaviours" % (cfg, len(b)))
        beh += b
    if T:
        g = ctx.tlc(SPEC, "Gen_SyncMachine", cfg="Gen_Exh", workers=1, label="Gen_Exh", dump_trace=False, timeout=1800)
        ex = ctx.read_emitted(g, "behaviours.ndjson")
        if len(ex) < 1000:
            ctx.broken("Gen_Exh produced only %d behaviours" % len(ex))
        ctx.note("Gen_Exh: %d behaviours enumerated (every behaviour of 1-2 state protocols with one delivery), 6000 sampled for replay" % len(ex))
        beh += rnd.sample(ex, min(len(ex), 6000))
    acts = {}
    for b in beh:
        for s in b["steps"]:
            acts[s["a"]] = acts.get(s["a"], 0) + 1
    need = ["Exec", "StartReached", "DelayReached", "InitiateEnd", "HandOff", "EndBegin", "EndNext", "Arrive", "Mine",
            "FailStart", "FailDelay", "FailInitiate", "FailWaiter", "FailNext"]
    missing = [a for a in need if acts.get(a, 0) == 0]
    if missing:
        ctx.broken("generated behaviours never take: %s" % missing)
    ncarry = sum(1 for b in beh if b.get("carry"))
    ctx.note("replay set: %d behaviours, %d steps, %d with a message crossing a state boundary" % (
        len(beh), sum(acts.values()), ncarry))
    ctx.extra["replay_actions"] = acts
    # 4. replay + free-running runs on the real machine (one test binary)
    go = ctx.gotest(PKG, "^TestVerif_C14_(Replay|Free)$", ["c14_test.go"], inputs={"behaviours.ndjson": beh},
                    env={"VERIF_RUNS": ctx.pick(120, 400)}, label="state", timeout=ctx.pick(600, 3000))
    ctx.absorb(go)
    hung = (go.reports.get("free", {}).get("extra") or {}).get("hung")
    if hung and not ctx.violations:
        ctx.broken("free-running harness: " + str(hung))
    # 5. the recorded concurrent runs are behaviours of the model (all invariants at every step)
    tp = ctx.trace_path(go, "trace_sync")
    if hung:
        ctx.note("free-running runs incomplete (%s); trace validation skipped, replay divergences reported" % hung)
    ok, tr = (True, None) if hung else ctx.validate_trace(SPEC, "Trace_SyncMachine", tp, cfg="Trace_SyncMachine", label="Trace_SyncMachine",
                                timeout=ctx.pick(600, 3000))
    lines = open(tp).read().splitlines()
    nruns = sum(1 for x in lines if '"Reset"' in x)
    if ok and not hung:
        ctx.traces_validated += nruns
    elif hung:
        pass
    else:
        import re as _re
        mm = _re.findall(r'"VERIF_HWM",\s*(\d+)', tr.out)
        hw = int(mm[-1]) if mm else None
        inv = tr.violated if tr.violated and tr.violated != "Postcondition" else None
        bad = lines[hw - 1] if hw and hw <= len(lines) else "?"
        import json as _j
        try:
            key = "trace:" + (inv or _j.loads(bad).get("event", "?"))
        except Exception:
            key = "trace:?"
        ctx.violation(key,
                      "a recorded run of the real SyncMachine is not a behaviour of the specification (%s; line %s: %s)" % (
                          ("invariant %s violated" % inv) if inv else "event rejected", hw, bad),
                      {"trace_tail": lines[max(0, (hw or 1) - 25):(hw or 1) + 2], "tlc": tr.out[-2500:]})
    # 6. join the background steps
    go2, go3 = bg_blocks.join()
    ctx.absorb(go2)
    ctx.absorb(go3)
    bg_mc.join()
    return ctx.finish(
        level="model_checking",
        rule="TLC: every protocol configuration and every interleaving within the bounds of MC_*.cfg. Replay: TLC-simulated "
             "(and, thorough, exhaustively enumerated) behaviours stepped on the real Execute with the projection (pending call, "
             "current state, requested heights, Initiate heights, registrations, per-state received messages, outcome) compared "
             "after every step; non-trivial = behaviours with a hand-off or two members. Free runs: 2 members, miner and delivery "
             "goroutines, injected faults; every event validated against the model with all invariants.",
        assumptions=["block counter waiters emit the requested height (local_v1, keep-common Ethereum counter)",
                     "messages held by the harness between Arrive and HandOff in replay mode model the channel-side per-handler buffer",
                     "timeouts of the harness (180 s per step) are reported as broken check, never as violation",
                     "recvChan capacity (128) is not exercised"],
        exhaustive=False)
