"""C17 — retransmission schedules are exact under any tick timing."""
META = {
    "level": "model_checking",
    "text": "TLC exhaustively checks the retransmission contract model (all tick/cancel/callback interleavings, 12 ticks) and "
            "enumerates every interleaving of the two statements of BackoffStrategy.Tick for 3-4 overlapping callbacks; every such "
            "schedule is forced on the real Ticker/ScheduleRetransmissions/BackoffStrategy through hook-point gates, and random real "
            "runs with bursts and cancellation are trace-validated against the contract. Model checking is the right level: the "
            "property quantifies over schedules, which tests cannot enumerate.",
    "note": "Trusted: the hook placement in BackoffStrategy.Tick (after the increment / at return); bounded waits decide "
            "unrealizability; schedules with more than 4 overlapping callbacks are not enumerated.",
    "technique": "TLA+ contract + hazard-grain spec, TLC exhaustive; hazard schedules replayed on real code via goroutine gates; trace validation",
    "design_ref": "DESIGN.md §4.4 C17",
}
SPEC = "specs/Retransmission"
PKG = "pkg/net/retransmission"


def run(ctx):
    # 1. the contract model satisfies the property (exhaustive, bounded)
    r = ctx.tlc(SPEC, "Retransmission", cfg="MC_Contract", coverage=True, label="MC_Contract")
    ctx.require_coverage(r, ["DeliverTick", "Cancel", "DoAtomicTick"], "MC_Contract")
    r = ctx.tlc(SPEC, "Retransmission", cfg="MC_Standard", coverage=True, label="MC_Standard")
    ctx.require_coverage(r, ["DeliverTick", "Cancel", "DoCall"], "MC_Standard")
    # 2. the hazard-grain model (unsynchronized Tick) violates it: TLC must find the race
    hz = ctx.tlc(SPEC, "Retransmission", cfg="MC_Hazard", label="MC_Hazard", expect=("violation",))
    ctx.extra["hazard_counterexample_len"] = len((hz.trace or {}).get("state", [])) if isinstance(hz.trace, dict) else None
    # 3. every schedule of the hazard model, replayed on the real code
    gen_cfg = ctx.pick("Gen_Hazard", "Gen_Hazard4")
    g = ctx.tlc(SPEC, "Gen_Retransmission", cfg=gen_cfg, workers=1, label=gen_cfg, dump_trace=False)
    beh = ctx.read_emitted(g, "behaviours.ndjson")
    if len(beh) < 50:
        ctx.broken("behaviour generation produced only %d schedules" % len(beh))
    bad = [b for b in beh if b["observedCount"] != b["expectedCount"]]
    ctx.note("hazard model: %d schedules, %d of them violate the contract in the model" % (len(beh), len(bad)))
    if ctx.thorough:
        import random
        rnd = random.Random(ctx.seed)
        good = [b for b in beh if b["observedCount"] == b["expectedCount"]]
        # every schedule takes up to ~0.1 s to be declared unrealizable: bound the replay set
        sel = rnd.sample(bad, min(len(bad), 2500)) + rnd.sample(good, min(len(good), 500))
    else:
        # all model-violating schedules plus a seeded sample of the others
        import random
        rnd = random.Random(ctx.seed)
        good = [b for b in beh if b["observedCount"] == b["expectedCount"]]
        sel = bad + rnd.sample(good, min(len(good), 60))
    go = ctx.gotest(PKG, "^TestVerif_C17_Hazard$", ["c17_test.go"], inputs={"behaviours.ndjson": sel},
                    label="hazard", timeout=ctx.pick(600, 3000))
    ctx.absorb(go)
    # 4. random real runs validated against the contract model
    go2 = ctx.gotest(PKG, "^TestVerif_C17_Contract$", ["c17_test.go"], label="contract",
                     env={"VERIF_RUNS": ctx.pick(40, 400), "VERIF_MAXTICKS": ctx.pick(24, 60)})
    ctx.absorb(go2)
    # 5. several messages with their own contexts on one ticker (TickerMulti)
    gm = ctx.tlc(SPEC, "TickerMulti", cfg="Gen_Multi", workers=1, label="Gen_Multi", dump_trace=False)
    multi = ctx.read_emitted(gm, "multi.ndjson")
    if len(multi) < 1000:
        ctx.broken("TickerMulti generated only %d behaviours" % len(multi))
    import random as _r
    rnd2 = _r.Random(ctx.seed + 17)
    # behaviours where a message is registered after another one was cancelled and removed are the interesting ones
    def late_reg(b):
        seen_removed = False
        cancelled = set()
        for s in b["steps"]:
            if s["a"] == "Cancel":
                cancelled.add(s["h"])
            elif s["a"] == "Tick" and cancelled:
                seen_removed = True
            elif s["a"] == "Register" and seen_removed:
                return True
        return False
    lr = [b for b in multi if late_reg(b)]
    rest = [b for b in multi if not late_reg(b)]
    sel_m = rnd2.sample(multi, min(len(multi), 1500)) if ctx.thorough else rnd2.sample(lr, min(len(lr), 150)) + rnd2.sample(rest, min(len(rest), 100))
    go3 = ctx.gotest(PKG, "^TestVerif_C17_Multi$", ["c17_test.go"], inputs={"multi.ndjson": sel_m}, label="multi",
                     timeout=ctx.pick(600, 3000))
    ctx.absorb(go3)
    for strat, cfg in (("backoff", "Trace_Backoff"), ("standard", "Trace_Standard")):
        tp = ctx.trace_path(go2, "trace_" + strat)
        ok, tr = ctx.validate_trace(SPEC, "Trace_Retransmission", tp, cfg=cfg, label=cfg)
        nruns = sum(1 for line in open(tp) if '"Reset"' in line)
        if ok:
            ctx.traces_validated += nruns
        else:
            import shutil, os
            keep = os.path.join(ctx.scratch, "..")
            lines = open(tp).read().splitlines()
            hw = ctx.longest_prefix(tr)
            ctx.violation("trace:%s" % strat,
                          "recorded %s run is not a behaviour of the retransmission contract (rejected at line %s: %s)" % (
                              strat, hw, lines[hw - 1] if hw and hw <= len(lines) else "?"),
                          {"trace_tail": lines[max(0, (hw or 1) - 15):(hw or 1) + 2], "tlc": tr.out[-1500:]})
    return ctx.finish(
        level="model_checking",
        rule="TLC enumerates every interleaving of Inc/Decide steps of up to 3 (quick) or 4 (thorough) overlapping "
             "tick callbacks; each schedule is forced on the real Ticker+ScheduleRetransmissions+BackoffStrategy by "
             "parking goroutines at hook points; non-trivial = schedules in which callbacks overlap. Plus random real "
             "runs (bursts, cancellation, both strategies) trace-validated against the contract model.",
        assumptions=["goroutines can only be parked at the two hook points in BackoffStrategy.Tick",
                     "a schedule is declared unrealizable after a bounded wait (errs towards 'held')",
                     "Go memory-model effects other than interleaving of the two statements are not modelled"],
        exhaustive=ctx.thorough)
