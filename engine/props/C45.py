"""C45 — background generation pauses while a protocol runs."""
META = {
    "level": "model_checking",
    "text": "TLC exhaustively checks a model of generator.Scheduler and ProtocolLatch in which one checkProtocols call is a sequence of "
            "individual IsExecuting reads interleaved with Lock/Unlock (nested, several latches), RegisterProtocol, compute and worker "
            "iterations: a stopped scheduler has cancelled every worker context, no iteration begins while stopped, a check during which "
            "a registered protocol executed throughout leaves the scheduler stopped, one during which none executed leaves it working, "
            "the state only turns to working in a check whose reads all returned false (nesting is counted), and under fairness of the "
            "periodic check generation resumes once nothing executes. Behaviours of the model are replayed step by step on the real "
            "Scheduler/ProtocolLatch with the check parked inside each IsExecuting call and gated worker functions; the full state is "
            "compared after every step. Model checking is the right level: the property quantifies over interleavings.",
    "note": "Trusted: the gate in front of ProtocolLatch.IsExecuting (a wrapper registered as the Protocol); goroutine positions are read "
            "from runtime.Stack dumps; the 1 s ticker of StartScheduler is replaced by direct calls of checkProtocols.",
    "technique": "TLA+ spec with read-granular check, TLC exhaustive safety + liveness; TLC-generated behaviours replayed on the real Scheduler with gated protocols and workers",
    "design_ref": "DESIGN.md §4.6 C45",
}
SPEC = "specs/Scheduler"
OVERLAY = {"internal/verifc39/engine.go": "pkg/generator/c39engine/engine.go"}
ACTIONS = ["DoLock", "DoUnlock", "DoUnlockPanic", "DoRegister", "Compute", "CheckStart", "CheckRead", "CheckStop", "CheckResume",
           "DoWTop", "DoWEnd"]


def run(ctx):
    cfg = ctx.pick("MC_Quick", "MC_Thorough")
    r = ctx.tlc(SPEC, "Scheduler", cfg=cfg, coverage=True, label=cfg, timeout=ctx.pick(600, 3000))
    ctx.require_coverage(r, ACTIONS, cfg)
    lv = ctx.tlc(SPEC, "Scheduler", cfg="MC_Live", coverage=True, label="MC_Live", timeout=600)
    ctx.require_coverage(lv, ["DoLock", "DoUnlock", "DoRegister", "CheckStart", "CheckRead", "CheckStop", "CheckResume"], "MC_Live")
    g = ctx.tlc(SPEC, "Gen_Scheduler", cfg="Gen_Sim", mode="simulate", num=ctx.pick(100, 1500), depth=200,
                label="Gen_Sim", dump_trace=False, timeout=1500)
    beh = ctx.read_emitted(g, "behaviours.ndjson")
    if len(beh) < ctx.pick(100, 1500):
        ctx.broken("behaviour generation produced only %d behaviours" % len(beh))
    go = ctx.gotest("pkg/generator", "^TestVerif_C45_Replay$", ["c45_test.go"], inputs={"behaviours.ndjson": beh},
                    extra_overlay=OVERLAY, label="replay_scheduler", timeout=ctx.pick(600, 3000))
    ctx.absorb(go)
    rep = go.reports.get("replay_scheduler") or {}
    if not rep.get("divergences"):
        cnt = rep.get("counters") or {}
        missing = [a for a in ("Lock", "Unlock", "UnlockPanic", "Register", "Compute", "CheckStart", "CheckRead", "CheckStop",
                               "CheckResume", "WTop", "WEnd") if cnt.get("step_" + a, 0) == 0]
        if missing:
            ctx.broken("replay never exercised: %s" % missing)
        if cnt.get("behaviours_completed", 0) < ctx.pick(80, 1200):
            ctx.broken("replay completed only %d behaviours" % cnt.get("behaviours_completed", 0))
    return ctx.finish(
        level="model_checking",
        rule="TLC explores every interleaving of the scheduler model within the bounds of %s (2 latches nested to depth 2, %s), "
             "with one checkProtocols call split into its individual IsExecuting reads, plus the liveness properties under fairness "
             "of the periodic check. Conformance: seeded random behaviours of the same model (3 latches, 2 worker functions, 40 steps) "
             "are forced on the real Scheduler/ProtocolLatch; the check is parked inside every IsExecuting call so that Lock/Unlock/"
             "compute interleave with its reads exactly as in the behaviour; the full state is compared after every step; "
             "non-trivial = behaviours containing at least one check." % (
                 cfg, ctx.pick("1 worker function, 3 goroutines", "2 worker functions, 5 goroutines")),
        assumptions=["checkProtocols is invoked directly instead of by the 1 s ticker goroutine of StartScheduler",
                     "a cancellation arriving between a worker goroutine's loop-head test and the call of the worker function "
                     "cannot be forced on the real code (the model explores it, the replay does not)",
                     "worker functions honour their context (the harness' functions return only when released)"],
        exhaustive=False)
