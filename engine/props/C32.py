"""C32 — SPV required confirmations are minimal and sufficient across epochs."""
META = {
    "level": "model_checking",
    "text": "getProofInfo is a decision function over five chain answers. The TLA+ module states the answer declaratively (range "
            "classification against the relay's previous/current epoch; least number of headers whose accumulated difficulty reaches "
            "factor x the first header's difficulty, as the Bridge demands) and transcribes the coded arithmetic step by step beside it; "
            "TLC compares both on the whole input space (start offsets -8..+8 around the boundaries of epochs current-2..current+2, "
            "factor 1..8, difficulties 1..6 rising and falling, relay at epochs 0/1, failing queries): sufficiency, minimality, "
            "classification, error propagation. Every enumerated input is then executed on the real getProofInfo and on a real "
            "proveTransactions round behind recording mock chains and compared with the declarative answer.",
    "note": "Trusted: the Bridge's acceptance rule (accumulated difficulty >= factor x first header difficulty, headers at the relay's "
            "current or previous difficulty) is transcribed from the function's documentation, the Solidity is not in the repository. "
            "A Bitcoin block arriving between the two Bitcoin queries (model MC_Race) is shown at model level only.",
    "technique": "TLA+ declarative vs coded decision spec enumerated exhaustively by TLC; every case replayed through the real getProofInfo / proveTransactions",
    "design_ref": "DESIGN.md §4.7 C32",
}
SPEC = "specs/SpvConfirmations"
PKG = "pkg/maintainer/spv"


def run(ctx):
    mc = ctx.pick("MC_Quick", "MC_Full")
    r = ctx.tlc(SPEC, "MC_SpvConfirmations", cfg=mc, coverage=True, label=mc, timeout=ctx.pick(900, 2400))
    ctx.require_coverage(r, ["QueryLatest", "QueryConfirmations", "QueryFactor", "QueryEpoch", "QueryDifficulties"], mc)
    # the hazard (block mined between the two Bitcoin queries) is visible in the model
    hz = ctx.tlc(SPEC, "MC_SpvConfirmations", cfg="MC_Race", label="MC_Race", expect=("violation",), timeout=900)
    ctx.note("model-level hazard: a block mined between GetLatestBlockHeight and GetTransactionConfirmations shifts the "
             "computed start block by one (TLC counterexample of %s)" % hz.violated)
    gen = ctx.pick("Gen_Quick", "Gen_Full")
    g = ctx.tlc(SPEC, "Gen_SpvConfirmations", cfg=gen, workers=1, label=gen, dump_trace=False, timeout=ctx.pick(900, 2400))
    cases = ctx.read_emitted(g, "cases.ndjson")
    want = ctx.pick(17832, 113400)
    if len(cases) < ctx.pick(15000, 100000):
        ctx.broken("expected about %d generated cases, got %d" % (want, len(cases)))
    classes = {}
    for c in cases:
        classes[c["class"]] = classes.get(c["class"], 0) + 1
    for k in ("current", "previous", "spanning", "outside"):
        if classes.get(k, 0) < 500:
            ctx.broken("generated cases hardly cover class %s: %s" % (k, classes))
    ctx.extra["case_classes"] = classes
    go = ctx.gotest(PKG, "^TestVerif_C32_", ["c32_test.go"], inputs={"cases.ndjson": cases}, label="replay", timeout=1500)
    ctx.absorb(go, require_evals=len(cases))
    return ctx.finish(
        level="model_checking",
        rule="every input of the enumerated space (start offsets -8..+8 around 5 epoch boundaries x factor 1..8 x previous/current "
             "difficulty (quick: {1,2,3,5}^2, thorough: {1..6}^2) x confirmations x relay epochs {0,1,392} x failing query) is run "
             "through the real getProofInfo and one real proveTransactions round; non-trivial = spanning proofs, ranges touching "
             "an epoch boundary and failing queries",
        assumptions=["the Bridge accepts a proof iff the accumulated difficulty of its headers >= factor x the first header's "
                     "difficulty and the headers are at the relay's current/previous difficulty (documented in getProofInfo)",
                     "model difficulties are scaled by 1, 10^13 or 2^70 (seeded choice per case)",
                     "the two Bitcoin queries see the same chain tip (the race is reported at model level only)"],
        exhaustive=True)
