"""C35 — signing completes only when every included member confirmed the same signature."""
import json
import os
import re

META = {
    "level": "model_checking",
    "text": "TLC exhaustively checks the signing-done specification (listener Accept under the mutex, waiter Check, Timeout) over "
            "the full message alphabet (sender key x claimed seat x message x attempt x end block x signature, duplicates) at "
            "the contract grain and at the hazard grain (map iterated while the listener inserts); every delivery history up to "
            "3 (quick) / 4 (thorough) messages is replayed on the real signingDoneCheck with the real membership validator, "
            "comparing doneSigners after every message and the value returned by waitUntilAllDone; random concurrent deliveries "
            "while the waiter runs are trace-validated and also run under the Go race detector. A multi-attempt layer "
            "(SigningDoneLoop: per-attempt included set, timeout block, receiver lifetime, map reset; hazard variant with the "
            "listener bound to the loop context refuted by TLC) is replayed on the real signingRetryLoop.start + real "
            "signingDoneCheck with scripted blocks/announcer/attempt function/channel (TLC-simulated and directed "
            "stale-listener behaviours) and random multi-attempt scripts are trace-validated.",
    "note": "Trusted: the fake broadcast channel honours Recv's context contract; signatures/keys are abstracted injectively "
            "(2 signatures, 4 operator keys); the waiter's 100 ms ticker is real time, so 'would never complete' is decided from "
            "len(doneSigners) != expectedSignersCount once every message is processed.",
    "technique": "TLA+ contract + hazard-grain spec, TLC exhaustive; exhaustive history replay on real code; trace validation; race detector",
    "design_ref": "DESIGN.md §4.3 C35",
}
SPEC = "specs/SigningDone"
PKG = "pkg/tbtc"
CONFIG = {"seats": 3, "included": [1, 3], "owner": [1, 2, 3], "keys": 4, "timeout": 10}
INVS = ["DoneOnlyIncluded", "DoneCommonSignature", "DoneEndBlock", "DoneJustified", "ConfirmedAuthentic"]


def _race_reports(out):
    """DATA RACE blocks of the race detector that involve signing_done.go."""
    blocks = re.split(r"={18,}", out)
    hits = []
    for b in blocks:
        if "WARNING: DATA RACE" in b and "signing_done.go" in b:
            hits.append(b.strip())
    return hits


def _loop_followup(ctx, go, nloops):
    """Vacuity guards and trace validation for the multi-attempt layer."""
    if go is None or "loop" not in go.reports or "looptrace" not in go.reports:
        if ctx.violations:
            return
        ctx.broken("multi-attempt harness reports missing")
    lr = go.reports["loop"]
    cnt = lr.get("counters") or {}
    if not ctx.violations and (int(cnt.get("behaviours_with_stale_delivery", 0)) < 3 or int(cnt.get("behaviours_completed", 0)) < 2):
        ctx.broken("multi-attempt replay too thin: %s" % cnt)
    tp = ctx.trace_path(go, "trace_loop")
    ok, tr = ctx.validate_trace(SPEC, "Trace_SigningDoneLoop", tp, cfg="Trace_SigningDoneLoop", label="Trace_SigningDoneLoop",
                                timeout=ctx.pick(900, 3000))
    lines = open(tp).read().splitlines()
    nruns = sum(1 for line in lines if '"Reset"' in line)
    if nruns < 10:
        ctx.broken("multi-attempt trace harness recorded only %d runs" % nruns)
    if ok:
        ctx.traces_validated += nruns
        return
    mh = re.findall(r'"VERIF_HWM",\s*(\d+)', tr.out)
    hw = int(mh[-1]) if mh else None
    if hw is None and tr.violated and tr.violated != "Postcondition":
        ctx.violation("looptrace:invariant:%s" % tr.violated,
                      "a recorded multi-attempt run of the real signing retry loop + done check reaches a state violating %s" % tr.violated,
                      {"tlc": tr.out[-3000:]})
        return
    bad = lines[hw - 1] if hw and hw <= len(lines) else "?"
    act = "?"
    try:
        act = json.loads(bad).get("a", "?")
    except Exception:
        pass
    start = max([i for i in range(0, (hw or 1)) if '"Reset"' in lines[i]] or [0])
    ctx.violation("looptrace:%s" % act,
                  "a recorded multi-attempt run of the real signing retry loop + done check is not a behaviour of the "
                  "multi-attempt signing-done specification (rejected at step %s, line %s: %s)" % (act, hw, bad[:500]),
                  {"run": lines[start:(hw or 1)], "tlc": tr.out[-1500:]})


def run(ctx):
    # 1. the contract model satisfies the property (exhaustive over the full alphabet)
    for cfg in ctx.pick(["MC_Contract"], ["MC_Contract_T", "MC_TwoSeats"]):
        r = ctx.tlc(SPEC, "MC_SigningDone", cfg=cfg, coverage=True, label=cfg, timeout=1500)
        ctx.require_coverage(r, ["DoDeliver", "Check", "Timeout"], cfg)
    # the contract also holds when the waiter's read is not atomic (given only included members are stored)
    hc = ctx.pick("MC_HazardContract", "MC_HazardContract_T")
    r = ctx.tlc(SPEC, "MC_SigningDone", cfg=hc, coverage=True, label=hc, timeout=1500)
    ctx.require_coverage(r, ["DoDeliver", "ReadLen", "DoVisit", "FinishIter", "Timeout"], hc)
    # 2. the variant without the included-member test violates it: TLC must find the counterexample
    for cfg in ("MC_AsCoded", "MC_HazardAsCoded"):
        hz = ctx.tlc(SPEC, "MC_SigningDone", cfg=cfg, label=cfg, expect=("violation",))
        if hz.violated != "DoneOnlyIncluded":
            ctx.broken("%s: expected DoneOnlyIncluded to be violated, got %s" % (cfg, hz.violated))
    # 2b. the multi-attempt layer (signingRetryLoop.start + one signingDoneCheck): contract holds, the variant whose
    #     listener is bound to the loop context is refuted
    lc = ctx.pick("MC_Loop", "MC_Loop_T")
    r = ctx.tlc(SPEC, "MC_Loop", cfg=lc, coverage=True, label=lc, timeout=ctx.pick(900, 3000))
    ctx.require_coverage(r, ["BeginAttempt", "AnnounceFails", "Select", "OwnRunFails", "OwnRunOk", "SignalFails", "SignalOk",
                             "Deliver", "Check", "Mismatch", "WaitTimeout", "Stop"], lc)
    for cfg, inv in ctx.pick([("MC_LoopHazardStale", "NoStaleReceiver")],
                             [("MC_LoopHazardStale", "NoStaleReceiver"), ("MC_LoopHazard", "DoneExact")]):
        hz = ctx.tlc(SPEC, "MC_Loop", cfg=cfg, label=cfg, expect=("violation",), timeout=1500)
        if hz.violated != inv:
            ctx.broken("%s: expected %s to be violated, got %s" % (cfg, inv, hz.violated))
    # behaviours of the loop layer: the directed stale-listener scenarios plus random ones (TLC simulation)
    loops_path = os.path.join(ctx.scratch, "loops.ndjson")
    gd = ctx.tlc(SPEC, "Gen_SigningDoneLoop", cfg="Gen_LoopDirected", workers=1, label="Gen_LoopDirected", dump_trace=False, timeout=900)
    gs = ctx.tlc(SPEC, "Gen_SigningDoneLoop", cfg="Gen_LoopSim", mode="simulate", num=ctx.pick(120, 2500), depth=45,
                 label="Gen_LoopSim", dump_trace=False, timeout=ctx.pick(900, 3000))
    nloops = 0
    with open(loops_path, "w") as out:
        seen = set()
        for g in (gd, gs):
            lp = os.path.join(g.dir, "loops.ndjson")
            if not os.path.isfile(lp):
                ctx.broken("loop behaviour generation %s wrote nothing" % g.dir)
            for line in open(lp):
                if line not in seen:
                    seen.add(line)
                    out.write(line)
                    nloops += 1
    if nloops < 50:
        ctx.broken("only %d multi-attempt behaviours generated" % nloops)
    # 3. every history of the contract model, replayed on the real code
    gens = ctx.pick(["Gen_Quick"], ["Gen_Deep", "Gen_Full2"])
    total = 0
    first_go = None
    for i, gcfg in enumerate(gens):
        g = ctx.tlc(SPEC, "Gen_SigningDone", cfg=gcfg, workers=1, label=gcfg, dump_trace=False, timeout=3000)
        hp = os.path.join(g.dir, "histories.ndjson")
        if not os.path.isfile(hp):
            ctx.broken("generation %s wrote no histories" % gcfg)
        nlines = sum(1 for _ in open(hp))
        if nlines < 100:
            ctx.broken("generation %s produced only %d prefixes" % (gcfg, nlines))
        tests = "^TestVerif_C35_(Replay|Concurrent|Loop|LoopTrace)$" if i == 0 else "^TestVerif_C35_Replay$"
        go = ctx.gotest(PKG, tests, ["c35_test.go", "c35_loop_test.go"],
                        inputs={"histories.ndjson": hp, "config.json": json.dumps(CONFIG), "loops.ndjson": loops_path},
                        env={"VERIF_RUNS": ctx.pick(120, 1200), "VERIF_MAX_HIST": ctx.pick(0, 150000),
                             "VERIF_LOOP_RUNS": ctx.pick(40, 600)},
                        label="replay-" + gcfg, timeout=ctx.pick(900, 3000))
        ctx.absorb(go)
        if i == 0:
            first_go = go
        if go.reports:
            rp = go.reports.get("replay") or {}
            n = int((rp.get("extra") or {}).get("histories", 0))
            total += n
            if n < 1000:
                ctx.broken("replay %s covered only %d histories" % (gcfg, n))
        if i == 0 and "concurrent" in go.reports:
            # 4. concurrent deliveries while the waiter runs, validated against the contract model
            tp = ctx.trace_path(go, "trace_signingdone")
            ok, tr = ctx.validate_trace(SPEC, "Trace_SigningDone", tp, cfg="Trace_SigningDone", label="Trace_SigningDone",
                                        timeout=ctx.pick(900, 3000))
            lines = open(tp).read().splitlines()
            nruns = sum(1 for line in lines if '"Reset"' in line)
            if nruns < 20:
                ctx.broken("concurrent harness recorded only %d runs" % nruns)
            if ok:
                ctx.traces_validated += nruns
            else:
                mh = re.findall(r'"VERIF_HWM",\s*(\d+)', tr.out)
                hw = int(mh[-1]) if mh else None
                if hw is None and tr.violated and tr.violated != "Postcondition":
                    # an invariant of the module failed on a state of the real trace
                    ctx.violation("trace:invariant:%s" % tr.violated,
                                  "a recorded run of the real signingDoneCheck reaches a state violating %s" % tr.violated,
                                  {"tlc": tr.out[-3000:]})
                else:
                    bad = lines[hw - 1] if hw and hw <= len(lines) else "?"
                    ev = "?"
                    try:
                        ev = json.loads(bad).get("event", "?")
                    except Exception:
                        pass
                    start = max(i for i in range(0, (hw or 1)) if '"Reset"' in lines[i]) if hw else 0
                    ctx.violation("trace:%s" % ev,
                                  "recorded concurrent run of the real signingDoneCheck is not a behaviour of the signing-done "
                                  "contract (rejected at %s event, line %s: %s)" % (ev, hw, bad),
                                  {"run": lines[start:(hw or 1) + 1], "tlc": tr.out[-1500:]})
    _loop_followup(ctx, first_go, nloops)
    ctx.note("replayed %d multi-attempt behaviours on the real signingRetryLoop.start + signingDoneCheck" % nloops)
    ctx.note("replayed %d delivery histories (late and eager waiter) on the real signingDoneCheck" % total)
    # 5. the same concurrent runs under the race detector
    try:
        gr = ctx.gotest(PKG, "^TestVerif_C35_Concurrent$", ["c35_test.go"], inputs={"config.json": json.dumps(CONFIG)},
                        env={"VERIF_RUNS": ctx.pick(40, 200), "GORACE": "halt_on_error=0"},
                        race=True, label="race", timeout=ctx.pick(900, 2400))
        ctx.extra["race_detector"] = "no data race reported"
    except Exception as ex:
        # a failing -race run: look for race reports that involve signing_done.go
        outp = None
        for name in sorted(os.listdir(ctx.scratch)):
            if name.endswith("go-race"):
                outp = os.path.join(ctx.scratch, name, "gotest.out")
        out = open(outp).read() if outp and os.path.isfile(outp) else ""
        hits = _race_reports(out)
        if not hits:
            raise
        ctx.extra["race_detector"] = "%d race report(s) in signing_done.go" % len(hits)
        ctx.violation("race:doneSigners",
                      "the Go race detector reports a data race in pkg/tbtc/signing_done.go between the listener goroutine "
                      "(writing doneSigners under doneSignersMutex) and waitUntilAllDone (reading it) while confirmations "
                      "arrive during the check",
                      {"reports": [h[:2500] for h in hits[:3]]})
    return ctx.finish(
        level="model_checking",
        rule="TLC enumerates every delivery history over the message alphabet (quick: 25 messages x length <= 3; thorough: "
             "25 x length <= 4 plus the full 576-message alphabet x length <= 2); each is replayed on the real listener + "
             "waitUntilAllDone twice (waiter started late / running from the start) with doneSigners compared after every "
             "message; non-trivial = histories in which at least one confirmation is accepted or the check decides. Plus random "
             "concurrent runs trace-validated (every invariant evaluated on the real trace) and run under -race.",
        assumptions=["fake broadcast channel (handler not called once the receive context ended)",
                     "symbolic crypto: two signature values, four operator keys; real MembershipValidator and key-to-address code",
                     "the waiter's ticker cannot be driven: interleavings of Check with deliveries are sampled by real time in the "
                     "concurrent runs and inferred by TLC, not enumerated",
                     "hazard-grain schedules (iteration racing with inserts) are model-checked but not forced on the code (no hook points)",
                     "multi-attempt layer: three seats, two included per attempt, attempts fail/succeed by script (announcer, attempt "
                     "function, Send); behaviours are TLC-simulated (seeded) plus three directed scenarios, not exhaustive"],
        exhaustive=True)
