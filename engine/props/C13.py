"""C13 — result and claim support counts only valid, distinct, matching signatures."""
import json
import random

META = {
    "level": "model_checking",
    "text": "Support counting of the three implementations (beacon DKG result, tECDSA DKG result, inactivity claim) is one TLA+ "
            "specification: the Receive filter (not from self, pinned network key seated at the claimed index, sender operating, "
            "key in the message = network key), the duplicate rule (beacon: a sender with more than one accepted message is "
            "dropped; tECDSA/inactivity: the first accepted message of a sender wins), verification (same hash, signature "
            "verifies for the sender's own key - a re-broadcast copy of another member's valid signature bytes does not count) and the submission gate (beacon honest+(n-honest)/2, tECDSA quorum, inactivity honest threshold). TLC "
            "checks exhaustively (all histories of up to 4 messages over the message alphabet incl. copied signatures, n=4, every threshold) that the "
            "set holds the own signature plus at most one signature per operating member that signed the same hash with its "
            "network key, and that submission happens only at the NOMINAL threshold of the group parameters for every actual "
            "size m (quorum <= m <= n) of the signing group / wallet. TLC-generated histories are fed to the REAL states "
            "with REAL ECDSA-signed messages; stored-message counts after every Receive, the signature map after verification "
            "and the map handed to the submitter/chain are compared; the gates run through the real submit functions.",
    "note": "Trusted: the abstraction between message classes and real messages (internal/verifsup Realize: 3 realizations of "
            "'foreign', 2 of 'other key', 4 of 'invalid signature'); tECDSA/inactivity states use a signer built on the same "
            "chain.Signing calls as the production signers, which are checked separately in pkg/tbtc; histories longer than 2 are "
            "sampled for the replay.",
    "technique": "TLA+ spec of filter/dedup/verify/gate, TLC exhaustive; TLC-generated cases replayed on the real states with real "
                 "signed messages; gates through the real submit functions",
    "design_ref": "DESIGN.md §4.3 C13",
}
SPEC = "specs/Support"
OV = {"internal/verifsup/support.go": "shared/c13/support.go"}


def sample(seed, count):
    r = random.Random(seed * 7919 + 13)

    def msg(acceptable):
        if acceptable:
            sender = r.choice([2, 3, 4])
            if r.random() < 0.3:
                # the exact signature bytes of another member (or of the receiver) under the sender's own index and key
                return {"sender": sender, "hash": r.choice(["mine", "mine", "mine", "other"]), "sig": "copy", "key": "network",
                        "origin": "member", "src": r.choice([x for x in (1, 2, 3, 4) if x != sender])}
            return {"sender": sender, "hash": r.choice(["mine", "mine", "mine", "other"]),
                    "sig": r.choice(["valid", "valid", "valid", "invalid"]), "key": "network", "origin": "member", "src": 0}
        return {"sender": r.randint(1, 4), "hash": r.choice(["mine", "other"]), "sig": r.choice(["valid", "invalid"]),
                "key": r.choice(["network", "other"]), "origin": r.choice(["member", "foreign"]), "src": 0}

    out = []
    for _ in range(count):
        ln = r.choice([3, 4, 4])
        p = r.choice([0.5, 0.8, 1.0])
        out.append({"msgs": [msg(r.random() < p) for _ in range(ln)]})
    return "".join(json.dumps(x) + "\n" for x in out)


def run(ctx):
    # 1. the specification satisfies the property (exhaustive, bounded)
    cfg = ctx.pick("MC_Quick", "MC_Thorough")
    r = ctx.tlc(SPEC, "Support", cfg=cfg, coverage=True, label=cfg, timeout=3000)
    ctx.require_coverage(r, ["Receive", "Verify", "Submit"], cfg)
    if r.distinct < 10000:
        ctx.broken("support model suspiciously small: %d states" % r.distinct)

    # 2. cases: every history of up to 2 messages + sampled histories of 3-4 messages, both sets of non-operating members
    smp = sample(ctx.seed, ctx.pick(1500, 25000))
    g = ctx.tlc(SPEC, "SupportCases", cfg="Gen_Cases", workers=1, label="Gen_Cases", dump_trace=False, timeout=3000,
                files={"sample.ndjson": smp})
    cases = ctx.read_emitted(g, "supportcases.ndjson")
    gates = ctx.read_emitted(g, "gates.ndjson")
    ncopy = sum(1 for c in cases if any(m["sig"] == "copy" for m in c["msgs"]))
    if len(cases) < 12000 or ncopy < 3000 or len(gates) != 1 or len(gates[0]) < 100:
        ctx.broken("case generation produced %d cases / %d gate sets" % (len(cases), len(gates)))
    multi = sum(1 for c in cases if len(c["firstWins"]) >= 3)
    dup = sum(1 for c in cases if len(c["firstWins"]) != len(c["dropAll"]))
    ctx.note("generated %d histories (%d with >= 3 supporters, %d on which the two duplicate rules differ), %d gates" % (
        len(cases), multi, dup, len(gates[0])))
    if multi < 20 or dup < 20:
        ctx.broken("generated histories do not exercise thresholds / duplicate rules (%d, %d)" % (multi, dup))
    inputs = {"supportcases.ndjson": cases, "gates.ndjson": gates}

    # 3. replay on the real states / submit functions
    for pkg, rx, label in (("pkg/beacon/dkg/result", "^TestVerif_C13_Beacon$", "beacon"),
                           ("pkg/tecdsa/dkg", "^TestVerif_C13_Tecdsa$", "tecdsa"),
                           ("pkg/protocol/inactivity", "^TestVerif_C13_Inactivity$", "inactivity"),
                           ("pkg/tbtc", "^TestVerif_C13_Tbtc", "tbtc")):
        go = ctx.gotest(pkg, rx, ["c13_test.go"], inputs=inputs, extra_overlay=OV, label=label, timeout=ctx.pick(900, 3000))
        ctx.absorb(go)
        if not ctx.violations and label == "tbtc":
            cnt = (go.reports.get("tbtc_gates") or {}).get("counters") or {}
            if cnt.get("tecdsa.gate.smallgroup", 0) < 10 or cnt.get("inactivity.gate.smallgroup", 0) < 10:
                ctx.broken("gates were not exercised with signing groups smaller than the nominal size: %s" % cnt)
        if not ctx.violations and label != "tbtc":
            rep = list(go.reports.values())[0]
            cnt = rep.get("counters") or {}
            if cnt.get(label + ".cases", 0) < len(cases):
                ctx.broken("%s replay covered %d of %d cases" % (label, cnt.get(label + ".cases", 0), len(cases)))
    return ctx.finish(
        level="model_checking",
        rule="every history of <= 2 messages over the 88-message alphabet (incl. exact copies of another member's signature bytes, before and after the original) and a seeded sample of histories of 3-4 messages, for "
             "both sets of non-operating members, replayed on the real signing / verification / submission states of the three "
             "protocols with real ECDSA operator keys; compared: stored-message count after every Receive, signature map "
             "(members and exact signature bytes) after verification and as handed to the submitter / chain; gates: every map "
             "size 0..m for every (honest, quorum) and every actual group / wallet size m in [quorum, n] through the real "
             "SubmitResult / SubmitClaim (beacon SubmitDKGResult: chain config only, m = n); production "
             "signers on every signature realization. Non-trivial = non-empty histories, gate and signer cases.",
        assumptions=["abstraction function of internal/verifsup.Realize (classes -> real messages) is faithful",
                     "tECDSA / inactivity states are driven with a signer equivalent to the production one (checked separately)",
                     "n = 4, receiving member 1; histories of 3-4 messages are sampled for the replay (TLC covers all of them)"],
        exhaustive=False)
