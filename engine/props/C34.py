"""C34 — main UTXO lookup and chain-sync check reflect the wallet's real state."""
META = {
    "level": "model_checking",
    "text": "DetermineWalletMainUtxo and EnsureWalletSyncedBetweenChains are deterministic functions of the wallet's Bitcoin "
            "surroundings and the Bridge state. The TLA+ module MainUtxo enumerates those surroundings (up to 3 transactions, confirmed "
            "or in the mempool, paying the wallet by P2PKH/P2WPKH or somebody else, spending deposits / moved funds sweep requests / "
            "unrelated outputs / earlier wallet outputs), every registered main UTXO hash (none, of any output, same outpoint with a wrong "
            "value, of nothing) and a failing chain call; TLC checks the lookup and sync invariants on all of them, and every scenario is "
            "rebuilt with real transactions, a Bitcoin chain fake with the documented bitcoin.Chain semantics and the package's local "
            "Bridge, executed on the real functions and compared (returned outpoint and value / nil / which error).",
    "note": "Trusted: the harness' Bitcoin chain fake (its UTXO views are cross-checked against the specification's for every case); "
            "ComputeMainUtxoHash is taken as injective. Scenarios are bounded to 3 transactions with at most 2 outputs and 2 inputs.",
    "technique": "TLA+ decision spec enumerated exhaustively by TLC; every generated scenario replayed through the real functions",
    "design_ref": "DESIGN.md §4.5 C34",
}
SPEC = "specs/MainUtxo"


def par(jobs):
    import threading
    res, errs = [None] * len(jobs), []

    def w(i, f):
        try:
            res[i] = f()
        except BaseException as e:      # noqa
            errs.append(e)
    ts = [threading.Thread(target=w, args=(i, f)) for i, f in enumerate(jobs)]
    for t in ts:
        t.start()
    for t in ts:
        t.join()
    if errs:
        raise errs[0]
    return res


def run(ctx):
    cfgs = ["MainUtxo", "MainUtxo_faults"] + (["MainUtxo_full", "MainUtxo_thorough"] if ctx.thorough else [])
    jobs = []
    for c in cfgs:
        jobs.append(lambda c=c: ctx.tlc(SPEC, "MC_MainUtxo", cfg="MC_" + c, coverage=True, label="MC_" + c, timeout=3000,
                                        workers=4))
        jobs.append(lambda c=c: ctx.tlc(SPEC, "Gen_MainUtxo", cfg="Gen_" + c, workers=1, label="Gen_" + c, dump_trace=False,
                                        timeout=3000, heap="8g", extra_args=["-seed", str(ctx.seed)]))
    res = par(jobs)
    cases = []
    for i, c in enumerate(cfgs):
        mc, gen = res[2 * i], res[2 * i + 1]
        ctx.require_coverage(mc, ["Determine", "EnsureSynced"], "MC_" + c)
        got = ctx.read_emitted(gen, "cases.ndjson")
        # the model checker's initial states are exactly the generated scenarios
        import re
        m = re.search(r"Finished computing initial states: (\d+) distinct", mc.out)
        init = int(m.group(1)) if m else 0
        sampled = c == "MainUtxo_thorough"     # 3-transaction scenarios: all 2-transaction ones plus a seeded random sample
        if not got or (init and init != len(got) and not sampled) or (sampled and len(got) < 30000):
            ctx.broken("Gen_%s emitted %d cases, MC_%s has %d initial states" % (c, len(got), c, init))
        cases += got
    seen, uniq = set(), []
    import json
    for x in cases:
        k = json.dumps([x["txs"], x["registered"], x["fault"]], sort_keys=True)
        if k not in seen:
            seen.add(k)
            uniq.append(x)
    if len(uniq) < ctx.pick(15000, 100000):
        ctx.broken("only %d scenarios generated" % len(uniq))
    go = ctx.gotest("pkg/tbtc", "^TestVerif_C34_", ["c34_test.go"], inputs={"cases.ndjson": uniq}, label="mainutxo",
                    timeout=ctx.pick(900, 3000))
    ctx.absorb(go, require_evals=len(uniq))
    counters = (go.reports.get("mainutxo") or {}).get("counters") or {}
    for k in ("main:ok", "main:notFound", "sync:synced", "sync:spent", "sync:depositSweep", "sync:movedSweep", "sync:noUtxos",
              "main:getTx", "sync:movedRequest"):
        if counters.get(k, 0) < 20:
            ctx.broken("harness compared only %d cases of class %s" % (counters.get(k, 0), k))
    return ctx.finish(
        level="model_checking",
        rule="all scenarios of <= 2 (quick) / <= 3 (thorough) transactions {confirmed, mempool} x output shapes {w, wo, ow, ww} (thorough, 2 tx: + o) "
             "x input shapes {D, M, S, SD, R, Q} (thorough, 2 tx: + DS, SM, RD, SR) x spent references, x registered hash {none, bogus, every output, wrong value} "
             "x (2 transactions) 8 failing chain calls; thorough replays a seeded sample of 6000 of the 3-transaction scenarios (TLC checks all of them); non-trivial = at least one transaction and a registration that can match",
        assumptions=["the Bitcoin chain fake implements bitcoin.Chain as documented (cross-checked per case)",
                     "ComputeMainUtxoHash is injective", "at most 3 transactions, 2 outputs, 2 inputs"],
        exhaustive=True)
