"""C37 — each distinct chain event is handled exactly once, even under concurrency."""
META = {
    "level": "model_checking",
    "text": "TLC checks the deduplication contract (atomic test-and-set per key, 4 concurrent deliveries, 2 keys) and enumerates every "
            "interleaving of the membership test and the insertion of up to 3 overlapping deliveries; every schedule is forced on the "
            "four real notify functions by parking the handler goroutines at a hook point before the cache insertion; unscheduled "
            "concurrent runs are checked for linearizability against the contract by trace validation; sequential behaviours with "
            "expiry are replayed; injectivity of the result-submitted cache key is model-checked and every confusable pair of the "
            "concatenated encoding is lifted to real events.",
    "note": "Trusted: keep-common's TimeCache (Add is an atomic test-and-set, Has/Sweep as documented); hook placement before the "
            "insertion; bounded waits decide unrealizability. Key model uses hash length 2 and 3 hex digits; lifting to 64 digits is "
            "by inserting a common filler inside both hash spans.",
    "technique": "TLA+ contract + hazard-grain spec, TLC exhaustive; schedules replayed on real code via goroutine gates; linearizability trace validation; key-injectivity model with lifted witnesses",
    "design_ref": "DESIGN.md §4.6 C37",
}
SPEC = "specs/Dedup"


def run(ctx):
    r = ctx.tlc(SPEC, "Dedup", cfg="MC_Contract", coverage=True, label="MC_Contract")
    ctx.require_coverage(r, ["Call", "AtomicNotify"], "MC_Contract")
    ctx.tlc(SPEC, "Dedup", cfg="MC_Hazard", label="MC_Hazard", expect=("violation",))
    ctx.tlc(SPEC, "DedupKey", cfg="MC_KeySep", label="MC_KeySep")                    # separator encoding is injective
    ctx.tlc(SPEC, "DedupKey", cfg="MC_KeyConcat", label="MC_KeyConcat", expect=("violation",), dump_trace=False)
    g1 = ctx.tlc(SPEC, "Gen_Dedup", cfg="Gen_Hazard", workers=1, label="Gen_Hazard", dump_trace=False)
    sched = ctx.read_emitted(g1, "schedules.ndjson")
    g2 = ctx.tlc(SPEC, "Gen_DedupSeq", cfg="Gen_Seq", workers=1, label="Gen_Seq", dump_trace=False)
    seqs = ctx.read_emitted(g2, "sequences.ndjson")
    g3 = ctx.tlc(SPEC, "DedupKey", cfg="Gen_KeyCollisions", workers=1, label="Gen_KeyCollisions", dump_trace=False)
    coll = ctx.read_emitted(g3, "collisions.ndjson")
    g4 = ctx.tlc(SPEC, "DedupKinds", cfg="Gen_Kinds", workers=1, label="Gen_Kinds", dump_trace=False)
    kinds = ctx.read_emitted(g4, "kinds.ndjson")
    if len(kinds) != 216:
        ctx.broken("expected 216 kind sequences, got %d" % len(kinds))
    if len(sched) < 100 or len(seqs) < 50 or len(coll) < 4:
        ctx.broken("generation too small: %d schedules, %d sequences, %d collisions" % (len(sched), len(seqs), len(coll)))
    import random
    rnd = random.Random(ctx.seed)
    if not ctx.thorough:
        # schedules with overlapping deliveries of the same key first; sample the rest
        def racy(s):
            return any(v > 1 for v in s["modelTrue"].values())
        bad = [s for s in sched if racy(s)]
        good = [s for s in sched if not racy(s)]
        sched = rnd.sample(bad, min(len(bad), 60)) + rnd.sample(good, min(len(good), 40))
        seqs = rnd.sample(seqs, min(len(seqs), 40))
    inputs = {"schedules.ndjson": sched, "sequences.ndjson": seqs, "collisions.ndjson": coll, "kinds.ndjson": kinds}
    env = {"VERIF_ROUNDS": ctx.pick(300, 3000)}
    go1 = ctx.gotest("pkg/tbtc", "^TestVerif_C37_", ["c37_test.go"], inputs=inputs, env=env, label="tbtc", timeout=ctx.pick(900, 3000))
    ctx.absorb(go1)
    go2 = ctx.gotest("pkg/beacon/event", "^TestVerif_C37_", ["c37_test.go"], inputs=inputs, env=env, label="beacon", timeout=ctx.pick(900, 3000))
    ctx.absorb(go2)
    for go, name in ((go1, "trace_tbtc"), (go2, "trace_beacon")):
        tp = ctx.trace_path(go, name)
        ok, tr = ctx.validate_trace(SPEC, "Trace_Dedup", tp, cfg="Trace_Dedup", label="Trace_" + name)
        if ok:
            ctx.traces_validated += sum(1 for line in open(tp) if '"Reset"' in line)
        else:
            lines = open(tp).read().splitlines()
            hw = ctx.longest_prefix(tr) or 1
            # find the target of the rejected round
            tgt = "?"
            for ln in reversed(lines[:hw]):
                if '"Reset"' in ln:
                    import json
                    tgt = json.loads(ln).get("target", "?")
                    break
            ctx.violation("dedup-race:" + tgt,
                          "recorded concurrent deliveries on %s are not linearizable w.r.t. the test-and-set contract (rejected at line %d: %s)" % (
                              tgt, hw, lines[hw - 1] if hw <= len(lines) else "?"),
                          {"trace_window": lines[max(0, hw - 12):hw + 2]})
    return ctx.finish(
        level="model_checking",
        rule="every Begin/Finish schedule of up to 3 overlapping deliveries over 2 events (TLC, exhaustive) forced on each of the 4 real "
             "notify functions; non-trivial = schedules where deliveries overlap; plus sequential Notify/ExpireAll behaviours of length 5, "
             "random 4-way concurrent rounds (trace-validated), and all lifted key collisions",
        assumptions=["TimeCache.Add is an atomic test-and-set (keep-common, not part of this repository)",
                     "goroutines can be parked only at the hook before the insertion",
                     "expiry replays that ran too slowly to stay inside the short test period are discarded as inconclusive"],
        exhaustive=ctx.thorough)
