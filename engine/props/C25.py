"""C25 — a wallet never runs two actions at the same time."""
META = {
    "level": "model_checking",
    "text": "TLC exhaustively checks the walletDispatcher contract model (concurrent callers, two wallets plus one with an unmarshallable "
            "key, actions of arbitrary duration and outcome): at most one executing action per wallet, refusal exactly when the wallet "
            "has an entry, independence of wallets, and under scheduler fairness that a wallet whose action ended becomes available. "
            "Every sequential behaviour of the model is replayed on the real dispatcher comparing results, the action map and the live "
            "goroutines after every step; every interleaving of the map lookup and the insertion of 3 concurrent calls is attempted on "
            "the real code by parking callers between the map lookup and the insertion (at the verifhook point and, independently, inside a callback); random concurrent runs are trace-validated with the critical "
            "section and the deferred delete inferred as silent steps.",
    "note": "Trusted: placement of the observation point tbtc.dispatch.beforeInsert (right after the busy check); a panic inside an "
            "action is not survived by the code (no recover) and is not exercised; goroutine liveness is read from runtime.Stack.",
    "technique": "TLA+ contract + hazard-grain spec, TLC exhaustive incl. liveness; behaviour replay; hazard schedules forced through callback gates; trace validation",
    "design_ref": "DESIGN.md §4.5 C25",
}
SPEC = "specs/Dispatcher"
PKG = "pkg/tbtc"


def run(ctx):
    import json
    import random
    rnd = random.Random(ctx.seed)
    # 1. the contract model satisfies the property
    for cfg in ctx.pick(["MC_Contract"], ["MC_Contract_T", "MC_Contract3_T"]):
        r = ctx.tlc(SPEC, "Dispatcher", cfg=cfg, coverage=True, label=cfg, timeout=1800)
        ctx.require_coverage(r, ["AtomicDispatch", "Return", "DoExecBegin", "DoExecEnd", "DoRelease"], cfg)
    live = ctx.pick("MC_Live", "MC_Live_T")
    r = ctx.tlc(SPEC, "Dispatcher", cfg=live, coverage=True, label=live, timeout=1800)
    ctx.require_coverage(r, ["DoExecEnd", "DoRelease"], live)
    # the liveness property is not vacuous: without fairness it fails
    # (vlib does not classify TLC 1.8's "Temporal property X was violated" line: read it here)
    # (thorough tier only, to keep the quick tier short)
    if ctx.thorough:
        nf = ctx.tlc(SPEC, "Dispatcher", cfg="MC_LiveNoFair", label="MC_LiveNoFair", expect=("violation", "error"), dump_trace=False)
        if "Temporal property BecomesAvailable was violated" not in nf.out:
            ctx.broken("the liveness property is not violated without fairness: vacuous?\n" + nf.out[-800:])
    # 2. without the mutex (hazard grain) the property fails in the model
    # (quick tier: the double-dispatch schedules enumerated by Gen_Hazard below are the same evidence)
    if ctx.thorough:
        ctx.tlc(SPEC, "Dispatcher", cfg="MC_Hazard", label="MC_Hazard", expect=("violation",), dump_trace=False)
    # 3. behaviours for replay
    seqs = []
    for cfg in ctx.pick(["Gen_Seq"], ["Gen_Seq_T", "Gen_Seq_T2"]):
        g = ctx.tlc(SPEC, "Gen_Dispatcher", cfg=cfg, workers=1, label=cfg, dump_trace=False, timeout=1800)
        seqs += ctx.read_emitted(g, "sequences.ndjson")
    g = ctx.tlc(SPEC, "Gen_Dispatcher", cfg="Gen_Hazard", workers=1, label="Gen_Hazard", dump_trace=False)
    sched = ctx.read_emitted(g, "schedules.ndjson")
    if len(seqs) < 300 or len(sched) < 300:
        ctx.broken("generation too small: %d sequences, %d schedules" % (len(seqs), len(sched)))
    racy = [s for s in sched if any(v > 1 for v in s["modelOks"].values())]
    calm = [s for s in sched if not any(v > 1 for v in s["modelOks"].values())]
    ctx.note("hazard model: %d schedules, %d of them accept two actions for one wallet" % (len(sched), len(racy)))
    if not racy:
        ctx.broken("the hazard model produced no double dispatch")
    if not ctx.thorough:
        sched = rnd.sample(racy, min(len(racy), 50)) + rnd.sample(calm, min(len(calm), 30))
        seqs = rnd.sample(seqs, min(len(seqs), 600))
    go = ctx.gotest(PKG, "^TestVerif_C25_", ["c25_test.go"],
                    inputs={"sequences.ndjson": seqs, "schedules.ndjson": sched},
                    env={"VERIF_ROUNDS": ctx.pick(120, 1200), "VERIF_AVAIL": ctx.pick(24, 200), "VERIF_HANDOFF": ctx.pick(30, 200)},
                    label="dispatcher", timeout=ctx.pick(900, 3000))
    ctx.absorb(go)
    for name in ("seq", "hazard", "handoff", "hammer", "avail"):
        if name not in go.reports:
            ctx.broken("harness report %s missing" % name)
    hz = go.reports["hazard"]
    hc = hz.get("counters") or {}
    if (hc.get("realized_via_hook", 0) < 3 or hc.get("realized_via_callback", 0) < 3) and not ctx.violations:
        ctx.broken("hazard schedules could not be driven (hook tbtc.dispatch.beforeInsert missing or gate broken?): %s" % hc)
    # 4. random concurrent runs validated against the contract model
    tp = ctx.trace_path(go, "trace_dispatcher")
    ok, tr = ctx.validate_trace(SPEC, "Trace_Dispatcher", tp, cfg="Trace_Dispatcher", label="Trace_Dispatcher",
                                timeout=ctx.pick(600, 1800))
    lines = open(tp).read().splitlines()
    if ok:
        ctx.traces_validated += sum(1 for ln in lines if '"Reset"' in ln)
    elif tr.violated and tr.violated != "Postcondition":
        ctx.violation("trace:invariant:" + tr.violated,
                      "a recorded concurrent run of walletDispatcher drives the contract model into a state violating %s" % tr.violated,
                      {"tlc": tr.out[-3000:]})
    else:
        import re
        mh = re.findall(r'"VERIF_HWM",\s*(\d+)', tr.out)
        hw = int(mh[-1]) if mh else 1
        rejected = json.loads(lines[hw - 1]) if hw <= len(lines) else {}
        ctx.violation("trace:" + str(rejected.get("event", "?")),
                      "recorded concurrent run of walletDispatcher is not a behaviour of the dispatcher contract "
                      "(rejected at line %d: %s)" % (hw, lines[hw - 1] if hw <= len(lines) else "?"),
                      {"trace_window": lines[max(0, hw - 25):hw + 2], "tlc": tr.out[-1500:]})
    return ctx.finish(
        level="model_checking",
        rule="all sequential behaviours of the contract with 3 (quick: seeded sample of 600; thorough: 4) dispatches over wallets "
             "{w1, w2, unmarshallable} replayed step by step; all Check/Insert interleavings of 3 concurrent dispatch calls over 2 "
             "wallets (quick: all double-dispatch schedules up to 50 plus 30 others) attempted on the real code twice (held at the hook / in the callback); non-trivial = "
             "behaviours with a refusal, an error or a release / schedules with overlapping critical sections; plus random "
             "concurrent rounds (2-4 callers, 1-3 calls each) trace-validated, and availability observations after ok/err outcomes",
        assumptions=["callers are parked at the hook tbtc.dispatch.beforeInsert and, in a second pass, in the actionType() callback dispatch makes",
                     "a hazard schedule is declared unrealizable after a bounded wait (errs towards 'held')",
                     "goroutine liveness is decided from runtime.Stack ('created by ...walletDispatcher.dispatch')",
                     "a panic inside execute() crashes the process (the code has no recover) and is not exercised"],
        exhaustive=ctx.thorough)
