"""C38 — wallet and group registries survive restarts exactly."""
import random

META = {
    "level": "model_checking",
    "text": "TLC exhaustively checks a model of the write-ahead discipline shared by tbtc.walletRegistry and beacon registry.Groups "
            "(storage: current and archived directories per wallet/group with one entry per member index; in-memory map) under every "
            "sequence of registrations, archivals (archiveWallet / UnregisterStaleGroups with arbitrary chain answers, chain errors and "
            "failing Archive calls), failing Save calls, restarts with unreadable entries, and a crash between every storage call and "
            "the following map update: the map never shows what is not persisted, equals the persisted-and-not-archived entries after "
            "a restart, holds no duplicates, and nothing persisted is lost. TLC-generated behaviours of that model are replayed on the "
            "real registries over the real keep-common stack (encrypted protected disk handle in a temp dir) behind a fault/crash "
            "injector; after every step the directory tree, the map, every lookup (public key / key hash / wallet ID) and the key "
            "material of every signer (byte-for-byte) are compared. Model checking is the right level: the property quantifies over "
            "histories and crash points.",
    "note": "Trusted: the fault injector (a failing call has no effect; a crash happens right after a storage call took effect or "
            "before it started), i.e. storage calls are atomic - torn directory moves inside keep-common's Archive are not modelled; "
            "a signer is registered at most once per process lifetime; beacon private key shares are compared through the signature "
            "share they produce.",
    "technique": "TLA+ spec of storage+map with crash points, TLC exhaustive; TLC-generated behaviours replayed on the real registries over real disk persistence with fault and crash injection",
    "design_ref": "DESIGN.md §4.6 C38",
}
import json
SPEC = "specs/Registry"
OVERLAY = {"internal/verifc38/engine.go": "pkg/tbtc/c38engine/engine.go"}
MC_ACTIONS = {
    "tbtc": ["RegisterOk", "RegisterFail", "RegisterCrash", "ArchiveOk", "ArchiveFail", "ArchiveMissing", "ArchiveCrash", "Restart"],
    "beacon": ["RegisterOk", "RegisterFail", "RegisterCrash", "Unregister", "UnregisterCrash", "Restart"],
}


def require_actions(ctx, res, actions, label):
    """Vacuity guard; TLC names a disjunct after DoA, A or AAny depending on how the quantifiers unroll."""
    missing = [a for a in actions
               if not any(res.coverage.get(n, (0, 0))[1] > 0 for n in ("Do" + a, a, a + "Any"))]
    if missing:
        ctx.broken("vacuous model run %s: actions never taken: %s" % (label, missing))


def run(ctx):
    import os
    only = os.environ.get("C38_ONLY")        # self-test convenience: run one flavour only
    rnd = random.Random(ctx.seed)
    for fl, pkg, test, rep in (("tbtc", "pkg/tbtc", "^TestVerif_C38_ReplayWallets$", "replay_tbtc"),
                               ("beacon", "pkg/beacon/registry", "^TestVerif_C38_ReplayGroups$", "replay_beacon")):
        if only and only != fl:
            continue
        # 1. the model satisfies the property (exhaustive, bounded)
        cfg = "MC_" + fl + ctx.pick("", "_Thorough")
        r = ctx.tlc(SPEC, "Registry", cfg=cfg, coverage=True, label=cfg, timeout=ctx.pick(600, 3000))
        require_actions(ctx, r, MC_ACTIONS[fl], cfg)
        if fl == "beacon" and ctx.thorough:
            # three groups (one member each): more than one stale group per UnregisterStaleGroups call
            r2 = ctx.tlc(SPEC, "Registry", cfg="MC_beacon_Wide", coverage=True, label="MC_beacon_Wide", timeout=3000)
            require_actions(ctx, r2, MC_ACTIONS[fl], "MC_beacon_Wide")
        # 2. behaviours of the model replayed on the real registry
        g = ctx.tlc(SPEC, "Gen_Registry", cfg="Gen_" + fl, mode="simulate", num=ctx.pick(14 if fl == "tbtc" else 6, 250 if fl == "tbtc" else 100), depth=100,
                    label="Gen_" + fl, dump_trace=False, timeout=1800)
        beh = ctx.read_emitted(g, "behaviours.ndjson")

        def actions_of(b):
            return set(json.dumps(b).replace('"', " ").split()) & set(MC_ACTIONS[fl])

        # the simulation seed decides which actions the walks happen to take: top up with further
        # simulation runs until every action of the model occurs in some behaviour (the replay guard below
        # would otherwise depend on the seed)
        tries = 0
        while tries < 6 and (set(MC_ACTIONS[fl]) - set().union(*[actions_of(b) for b in beh] or [set()])):
            tries += 1
            g2 = ctx.tlc(SPEC, "Gen_Registry", cfg="Gen_" + fl, mode="simulate",
                         num=ctx.pick(14 if fl == "tbtc" else 6, 250 if fl == "tbtc" else 100), depth=100,
                         label="Gen_%s_more%d" % (fl, tries), dump_trace=False, timeout=1800,
                         simulate_seed=ctx.seed * 7919 + tries)
            beh += ctx.read_emitted(g2, "behaviours.ndjson")
        want = ctx.pick(120, 2500)
        if len(beh) < ctx.pick(80, 1500):
            ctx.broken("behaviour generation (%s) produced only %d behaviours" % (fl, len(beh)))
        if len(beh) > want:
            # keep one behaviour per action of the model, sample the rest
            must = []
            for a in MC_ACTIONS[fl]:
                for b in beh:
                    if a in actions_of(b):
                        must.append(b)
                        break
            rest = [b for b in beh if b not in must]
            beh = must + rnd.sample(rest, max(0, min(len(rest), want - len(must))))
        go = ctx.gotest(pkg, test, ["c38_test.go"], inputs={"behaviours.ndjson": beh},
                        extra_overlay=OVERLAY, label=rep, timeout=ctx.pick(900, 3000))
        ctx.absorb(go)
        report = go.reports.get(rep)
        if report is None:
            if ctx.violations:
                continue
            ctx.broken("harness report %s missing" % rep)
        if not report.get("divergences"):
            cnt = report.get("counters") or {}
            missing = [a for a in MC_ACTIONS[fl] if cnt.get("step_" + a, 0) == 0]
            if missing:
                ctx.broken("replay %s never exercised: %s" % (rep, missing))
            # a behaviour whose crash point inside UnregisterStaleGroups depends on Go's map order is followed
            # only when the real order matches, so the share of completed behaviours varies with the seed;
            # the guard only has to rule out a dead replay
            if cnt.get("behaviours_completed", 0) < len(beh) * 0.4:
                ctx.broken("replay %s completed only %d of %d behaviours" % (rep, cnt.get("behaviours_completed", 0), len(beh)))
    return ctx.finish(
        level="model_checking",
        rule="TLC explores every sequence of operations, storage faults and crash points of the registry model within the bounds of "
             "MC_tbtc/MC_beacon%s (%s). Conformance: seeded random behaviours of the same model (3 wallets/groups x 3 member indexes, "
             "14 operations, up to 4 restarts) are executed on the real tbtc.walletRegistry and beacon registry.Groups over the real "
             "encrypted disk persistence; the storage call of each operation fails, succeeds, or takes effect and kills the caller as "
             "the behaviour says; directory tree, in-memory map, all lookups and all key material are compared after every step; "
             "non-trivial = behaviours with a fault, crash, archival or restart." % (
                 ctx.pick("", "_Thorough"), ctx.pick("2 wallets x 2 indexes, 1 restart",
                                                    "tbtc 3 wallets x 2 indexes, beacon 2 groups x 2 members and 3 groups x 1 member, 2 restarts")),
        assumptions=["storage calls of keep-common are atomic (a crash falls before or after a Save/Archive, not inside)",
                     "a signer / membership is registered at most once per process lifetime (the code appends without a check)",
                     "which stale groups were archived before a crash inside UnregisterStaleGroups depends on Go's map order: any "
                     "subset of the right size is accepted, the behaviour is followed only when it matches"],
        exhaustive=False)
