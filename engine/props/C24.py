"""C24 — coordination followers accept only the leader's valid proposal."""
META = {
    "level": "model_checking",
    "text": "The TLA+ module specifies the follower's filter chain and fault list over message histories whose messages range over who "
            "really sent them and which seat they claim (leader's lowest seat, leader's other seat, another member, own seat, members and "
            "non-members claiming foreign seats incl. the leader's, out-of-range seats, foreign message types) x window ok/bad x wallet "
            "ok/bad x action allowed/disallowed, plus the end of the active phase at any point. TLC checks exhaustively (histories <= 3) "
            "that a returned proposal is the first message from the leader's lowest seat with valid membership, right window and wallet "
            "and an allowed action, that impersonation faults name the key that sent the message, that silent filters leave no trace and "
            "that silence ends in the idleness fault and an error. Every history is replayed on the real executeFollowerRoutine with a "
            "fake broadcast channel, the real membership validator and real operator keys, on three seat layouts, message by message and "
            "as a burst; returned proposal (by identity), error and faults (type, culprit address, order) are compared.",
    "note": "Trusted: the network layer authenticates SenderPublicKey (the fake channel sets it). The race between a message arriving "
            "and the end of the active phase (Go's select picks at random) is not driven: the timeout is delivered only after the inbox "
            "was drained (fence read from runtime.Stack).",
    "technique": "TLA+ spec, TLC exhaustive; all behaviours replayed on real code with real membership validation and keys",
    "design_ref": "DESIGN.md §4.5 C24",
}
SPEC = "specs/Follower"
PKG = "pkg/tbtc"


def run(ctx):
    import random
    for cfg in ctx.pick(["MC_Follower", "MC_FollowerB"], ["MC_Follower_T", "MC_FollowerB"]):
        r = ctx.tlc(SPEC, "MC_Follower", cfg=cfg, coverage=True, label=cfg, timeout=2400)
        ctx.require_coverage(r, ["Process", "Timeout"], cfg)
    gcfg = ctx.pick("Gen_Follower", "Gen_Follower_T")
    g = ctx.tlc(SPEC, "Gen_Follower", cfg=gcfg, workers=1, label=gcfg, dump_trace=False, timeout=2400)
    hs = ctx.read_emitted(g, "histories.ndjson")
    if len(hs) < 1000:
        ctx.broken("generation too small: %d histories" % len(hs))
    n_acc = sum(1 for h in hs if h["accepted"] > 0)
    n_imp = sum(1 for h in hs if any(f["type"] == "Impersonation" for f in h["faults"]))
    ctx.note("%d histories: %d end with an accepted proposal, %d contain an impersonation fault" % (len(hs), n_acc, n_imp))
    if n_acc == 0 or n_imp == 0:
        ctx.broken("generated histories are degenerate")
    go = ctx.gotest(PKG, "^TestVerif_C24_", ["c24_test.go"], inputs={"histories.ndjson": hs},
                    label="follower", timeout=ctx.pick(900, 3300))
    ctx.absorb(go, require_evals=int(1.8 * len(hs)) if not ctx.violations else 1)
    return ctx.finish(
        level="model_checking",
        rule="every message history of length <= 2 (thorough: <= 3) over 34 message kinds (13 sender/seat classes; the 3 classes that "
             "reach the window/wallet/action filters in all 8 combinations) followed by acceptance or the end of the active phase, "
             "each replayed twice (message by message, burst) on rotating seat layouts, windows and allowed-action lists; "
             "non-trivial = histories with a fault or an accepted proposal",
        assumptions=["SenderPublicKey is authenticated by the network layer (set by the fake channel)",
                     "the end of the active phase is delivered after the inbox was drained; the select race at the deadline is not driven",
                     "goroutine wait states from runtime.Stack are used as fences"],
        exhaustive=True)
