"""Shared driver of C01 (GJKR agreement) and C02 (GJKR share consistency).

Both properties are decided on the same specification (specs/Gjkr) and the
same harness (harness/pkg/beacon/gjkr); they differ in the invariants that are
bound to the real code and in the hazard model that is shown to violate them.
"""
import concurrent.futures
import json
import random
import threading

SPEC = "specs/Gjkr"
PKG = "pkg/beacon/gjkr"
HARNESS = ["gjkr_harness_test.go", "gjkr_trace_test.go", "c01_test.go", "c02_test.go"]

INITIATES = ["P%d_Initiate" % i for i in range(1, 13)]

_lock = threading.Lock()


def gen_cfg(n, t, corrupt, classes, fixsets, plans="NoPlan"):
    return ("SPECIFICATION GSpec\nCONSTANTS\n  N = %d\n  T = %d\n  CorruptSets <- %s\n  Classes <- %s\n"
            "  FixSets <- %s\n  Plans <- %s\nINVARIANTS Emit\n" % (n, t, corrupt, classes, fixsets, plans))


def _deviation(st, m):
    """None if message m of adversary step st is the default (honest looking) one."""
    k, p = m["k"], m["p"]
    junk = ""
    if m["claim"] != m["from"]:
        junk += "as%d" % m["claim"]
    if not m["sess"]:
        junk += "session"
    if k == "eph":
        d = None if p == "ok" else p
    elif k == "shares":
        dev = {j + 1: x for j, x in enumerate(p) if j + 1 != st["m"] and x != "ok"}
        d = json.dumps(dev, sort_keys=True) if dev else None
    elif k == "commits":
        d = None if p[0] == "ok" else p[0]
    elif k in ("acc4", "acc8"):
        d = json.dumps(sorted((e["id"], e["ok"]) for e in p)) if p else None
    elif k == "pts":
        d = None if (p["all"] and p["cnt"] == "ok") else "%s%s" % (p["cnt"], sorted(p["okFor"]))
    elif k == "rev":
        ids = {e["id"] for e in p}
        base = set(st.get("base") or [])
        delta = (sorted(ids - base), sorted(base - ids), sorted(e["id"] for e in p if not e["ok"]))
        d = json.dumps(delta) if any(delta) else None
    else:
        d = "?"
    if d is None and not junk:
        return None
    return "%s%s:%s" % (k, junk, d)


def script_key(b):
    """The adversary of a behaviour up to default messages: class, corrupt set, every
    deviating adversary message (reveals relative to what an honest member reveals),
    missing/additional messages, and the delivery orders of the order sensitive states."""
    parts = [b["class"], str(b["n"]), json.dumps(b["corrupt"])]
    for st in b["steps"]:
        if st["a"].startswith("A"):
            if st.get("dead"):
                continue
            want = 2 if st["a"] == "A3" else 1
            devs = [_deviation(st, m) for m in st["msgs"]]
            if len(st["msgs"]) != want or any(d is not None for d in devs):
                parts.append("%s.%d[%s]" % (st["a"], st["m"], ";".join(str(d) for d in devs)))
        elif st["a"] in ("R3", "R10") and st["ord"] and st["ord"] != sorted(st["ord"]):
            parts.append(st["a"] + str(st["m"]) + json.dumps(st["ord"]))
    return "|".join(parts)


def model_violates(b):
    return not all(b["spec"].values())


MAX_TLC = 5          # TLC JVMs of one check run alive at the same time (shared 16-core machine)


def run_parallel(ctx, jobs):
    """jobs: {name: callable} in priority order; at most MAX_TLC run at a time (each starts
    its own TLC JVM with a small heap and at most 4 workers)."""
    orig_subdir = ctx.subdir

    def locked_subdir(name):
        with _lock:
            return orig_subdir(name)
    ctx.subdir = locked_subdir
    out = {}
    with concurrent.futures.ThreadPoolExecutor(max_workers=MAX_TLC) as ex:
        futs = {name: ex.submit(fn) for name, fn in jobs.items()}
        err = None
        for name, f in futs.items():
            try:
                out[name] = f.result()
            except Exception as e:  # re-raised after all jobs finished
                err = err or e
    ctx.subdir = orig_subdir
    if err:
        raise err
    return out


def generate(ctx, prop):
    """Runs the model checking and the behaviour generation; returns the
    behaviours to replay (expected values of the repaired design) and notes."""
    thorough = ctx.thorough
    jobs = {}

    # ---- 1. the repaired design satisfies every invariant (exhaustive, bounded)
    def mc(cfg, workers=4, timeout=ctx.pick(1800, 7200)):
        def f():
            r = ctx.tlc(SPEC, "MC_Gjkr", cfg=cfg, coverage=True, label=cfg, workers=workers,
                        timeout=timeout, dump_trace=False, heap="3g")
            ctx.require_coverage(r, INITIATES + ["Receive", "Adversary"], cfg)
            return r
        return f
    if thorough:        # the long jobs first
        jobs["mc5"] = mc("MC_Fixed_5", workers=4, timeout=9000)
        jobs["mc4"] = mc("MC_Fixed_4", workers=4, timeout=9000)
    jobs["mc3"] = mc("MC_Fixed_3" if thorough else "MC_Fixed_3q")

    # ---- 2. the pinned design (no repairs) violates them: hazard model
    hz_cfg = "MC_AsIs_3" if prop == "C01" else "MC_AsIs_5_C02"
    jobs["hazard"] = lambda: ctx.tlc(SPEC, "MC_Gjkr", cfg=hz_cfg, label=hz_cfg, workers=2, heap="1g",
                                     expect=("violation",), dump_trace=False, timeout=ctx.pick(1500, 5400))

    # ---- 3. directed behaviour classes, with and without the repairs
    def gen(label, cfg_text, **kw):
        def f():
            r = ctx.tlc(SPEC, "Gen_Gjkr", cfg_text=cfg_text, workers=1, label=label, dump_trace=False,
                        heap=kw.pop("heap", "1g"), timeout=kw.pop("timeout", ctx.pick(1500, 5400)), **kw)
            return ctx.read_emitted(r, "behaviours.ndjson")
        return f
    # scripted counterexamples (the adversaries TLC found against the pinned design)
    jobs["scr3"] = gen("Gen_Scripted3", gen_cfg(3, 1, "Corrupt3", "S3", "Both"))
    jobs["scr5"] = gen("Gen_Scripted5", gen_cfg(5, 2, "Corrupt5", "S5", "Both"))
    # one scenario per decision branch of the resolution / reveal functions (n=5, two
    # corrupt) and every single deviation (n=3): expected values of the repaired design
    jobs["br3"] = gen("Gen_Branch3", gen_cfg(3, 1, "Corrupt3any", "Branch3", "OnlyFixed"))
    jobs["br5"] = gen("Gen_Branch5", gen_cfg(5, 2, "Corrupt5", "B5", "OnlyFixed"))
    if thorough:
        # every behaviour of the deviation classes the defects of the pinned code belong to
        jobs["dir3"] = gen("Gen_Directed3", gen_cfg(3, 1, "Corrupt3", "Directed3", "Both"), timeout=7200)
        jobs["dir5"] = gen("Gen_Directed5", gen_cfg(5, 2, "Corrupt5", "Directed5", "Both"), timeout=9000, heap="2g")

    # ---- 4. random composite adversaries (simulation), all corrupt sets, all orders
    nsim = ctx.pick({3: 60, 4: 60, 5: 150}, {3: 800, 4: 800, 5: 2400})
    parts = ctx.pick(1, 3)      # simulation jobs per group size (separate JVMs, separate seeds)
    for n, t in ((3, 1), (4, 1), (5, 2)):
        for i in range(parts):
            jobs["sim%d.%d" % (n, i)] = gen("Gen_Sim%d_%d" % (n, i),
                                            gen_cfg(n, t, "UpToT", "All4full", "OnlyFixed", "AllPlans"),
                                            mode="simulate", num=nsim[n] // parts, depth=130,
                                            simulate_seed=ctx.seed * 31 + n + 1000 * i,
                                            timeout=ctx.pick(1500, 9000))
    # longest jobs first; at most MAX_TLC of them run at a time
    first = [k for k in ("mc5", "dir5", "mc4", "mc3", "dir3") if k in jobs]
    jobs = {k: jobs[k] for k in first + [k for k in jobs if k not in first]}
    res = run_parallel(ctx, jobs)

    rnd = random.Random(ctx.seed)
    sel = []
    notes = []
    # directed: behaviours whose adversary breaks the pinned design are always replayed
    for name in ("scr3", "scr5", "dir3", "dir5"):
        if name not in res:
            continue
        beh = res[name]
        asis = [b for b in beh if not b["fixed"]]
        fixed = {script_key(b): b for b in beh if b["fixed"]}
        bad_keys = {script_key(b) for b in asis if model_violates(b)}
        hit = [fixed[k] for k in sorted(bad_keys) if k in fixed]
        rest = [fixed[k] for k in sorted(fixed) if k not in bad_keys]
        if name.startswith("scr"):
            if len(hit) != len(fixed) or len(hit) < 8:
                ctx.broken("scripted counterexamples %s: %d scripts, only %d break the unrepaired model" % (
                    name, len(fixed), len(hit)))
            sel += hit
            notes.append("%s: %d scripted counterexamples, each breaks the unrepaired model" % (name, len(hit)))
        else:
            if len(fixed) < 20 or len(hit) < 3:
                ctx.broken("directed generation %s: %d behaviours, %d of them critical" % (name, len(fixed), len(hit)))
            by_class = {}
            for b in hit:
                by_class.setdefault(b["class"], []).append(b)
            for c, l in sorted(by_class.items()):
                take = l if len(l) <= 400 else rnd.sample(l, 400)
                sel += take
                notes.append("class %s: %d adversaries break the unrepaired model, %d replayed" % (c, len(l), len(take)))
            sel += rest if len(rest) <= 1500 else rnd.sample(rest, 1500)
        if any(model_violates(b) for b in fixed.values()):
            ctx.broken("the repaired design violates an invariant on a directed behaviour")
    for name in ("br3", "br5"):
        beh = res[name]
        if len(beh) < 40:
            ctx.broken("branch coverage generation %s produced only %d behaviours" % (name, len(beh)))
        if any(model_violates(b) for b in beh):
            ctx.broken("the repaired design violates an invariant on a branch coverage behaviour")
        sel += beh
    for n in (3, 4, 5):
        beh = [b for i in range(parts) for b in res["sim%d.%d" % (n, i)]]
        if len(beh) < nsim[n] * 0.5:
            ctx.broken("simulation n=%d produced only %d behaviours" % (n, len(beh)))
        if any(model_violates(b) for b in beh):
            ctx.broken("the repaired design violates an invariant on a simulated behaviour (n=%d)" % n)
        sel += beh
    for n in notes:
        ctx.note(n)
    ctx.extra["behaviours"] = {"replayed": len(sel),
                               "with_deviation": sum(1 for b in sel if b["k"] > 0),
                               "two_corrupt": sum(1 for b in sel if len(b["corrupt"]) == 2)}
    return sel, res


PROPERTY_LEVEL = ("agreement", "punished", "abort", "shares", "crash", "panic")


def replay(ctx, prop, sel, traces=True):
    tests = "Replay|Trace" if traces else "Replay"
    go = ctx.gotest(PKG, "^TestVerif_%s_(%s)$" % (prop, tests), HARNESS, inputs={"behaviours.ndjson": sel},
                    label="replay", timeout=ctx.pick(1500, 9000),
                    env={"VERIF_RUNS": ctx.pick(10, 120)})
    for rep in go.reports.values():
        # violations of the property itself first, conformance differences after them
        dv = rep.get("divergences") or []
        dv.sort(key=lambda d: 0 if (d.get("key") or "").split(":")[0] in PROPERTY_LEVEL else 1)
        rep["divergences"] = dv
    if "replay" in go.reports and int(go.reports["replay"].get("evaluations", 0)) < max(1, len(sel) // 2):
        ctx.broken("replay harness evaluated only %s of %d behaviours" % (go.reports["replay"].get("evaluations"), len(sel)))
    ctx.absorb(go)
    if traces:
        validate_traces(ctx, prop, go)
    return go


def validate_traces(ctx, prop, go):
    """code -> spec: runs against a harness-chosen adversary must be behaviours of the
    specification (views equal after every step) and satisfy its invariants."""
    def one(n):
        def f():
            tp = ctx.trace_path(go, "trace_n%d" % n)
            ok, tr = ctx.validate_trace(SPEC, "Trace_Gjkr", tp, cfg="Trace_Gjkr_%d" % n, label="Trace_Gjkr_%d" % n, heap="1g",
                                        timeout=ctx.pick(1500, 7200))
            return tp, ok, tr
        return f
    res = run_parallel(ctx, {n: one(n) for n in (3, 4, 5)})
    for n, (tp, ok, tr) in sorted(res.items()):
        lines = open(tp).read().splitlines()
        nruns = sum(1 for x in lines if '"Reset"' in x)
        if ok:
            ctx.traces_validated += nruns
            continue
        if tr.violated and tr.violated != "Postcondition":
            # an invariant of the specification is false in a state of a real run
            ctx.violation("trace:n%d:%s" % (n, tr.violated),
                          "a recorded run of the real GJKR states (harness-chosen adversary, n=%d) violates %s" % (n, tr.violated),
                          {"tlc": tr.out[-3000:]})
            continue
        hw = ctx.longest_prefix(tr)
        if not hw:
            ctx.broken("trace validation n=%d failed without a high-water mark:\n%s" % (n, tr.out[-1500:]))
        line = lines[hw - 1] if hw <= len(lines) else "?"
        ev = {}
        try:
            ev = json.loads(line)
        except Exception:
            pass
        ctx.violation("trace:n%d:%s:%s" % (n, ev.get("event"), ev.get("a")),
                      "a recorded run of the real GJKR states (harness-chosen adversary, n=%d) is not a behaviour of the "
                      "specification: rejected at line %d (%s of member %s in %s)" % (n, hw, ev.get("event"), ev.get("m"), ev.get("a")),
                      {"rejected_event": line[:3000], "trace_tail": [x[:600] for x in lines[max(0, hw - 8):hw]]})


def replay_one(ctx, prop):
    """./vcheck <ID> --replay <file>: re-run the behaviour stored in a counterexample file."""
    with open(ctx.replay) as f:
        cex = json.load(f)
    b = (((cex.get("detail") or {}).get("case")) or {}).get("behaviour")
    if not b:
        ctx.broken("replay file %s does not contain a behaviour (only the first divergences of a run store it)" % ctx.replay)
    replay(ctx, prop, [b], traces=False)
    return ctx.finish(level="model_checking", rule="replay of one stored behaviour on the real code",
                      assumptions=["see the full check"], exhaustive=False)
