"""C39 — the pre-parameter pool never serves a parameter twice or an invalid one."""
META = {
    "level": "model_checking",
    "text": "TLC exhaustively checks a model of generator.ParameterPool, its worker loop under Scheduler stop/resume, GetNow and the "
            "persistence (every interleaving of generation, retrieval by up to 2 callers, failing Save/Delete/ReadAll, crashes before "
            "and after each storage effect, restarts) against: no parameter handed out twice, never a nil/unsaved one, |pool| <= size, "
            "removed from storage before use. TLC then generates behaviours of that model which are replayed step by step on the real "
            "ParameterPool+Scheduler (pkg/generator) and on the real pool over preParamsStorage with tss-lib fixture parameters "
            "(pkg/tecdsa/dkg); after every step storage, channel length, every returned value, scheduler state and the position of every "
            "worker goroutine are compared with the model. Model checking is the right level: the property quantifies over fault "
            "sequences and crash points that tests cannot enumerate.",
    "note": "Trusted: the harness persistence (faults are injected at call granularity: a call fails without effect, or takes effect "
            "and the process dies); goroutine positions are read from runtime.Stack dumps; Go's random select choice between "
            "delivering and dropping for a cancelled worker is observed, not forced. Torn files are represented as unreadable entries "
            "(what the encrypted persistence handle of production reports).",
    "technique": "TLA+ spec of pool+worker+persistence, TLC exhaustive; TLC-generated behaviours replayed on real code with gated generateFn/persistence and crash injection",
    "design_ref": "DESIGN.md §4.6 C39",
}
SPEC = "specs/Pool"
OVERLAY = {"internal/verifc39/engine.go": "pkg/generator/c39engine/engine.go"}
ALL_ACTIONS = ["WTop", "WGenerate", "WGenerateNil", "WSaveOk", "WSaveFail", "WPush", "WDrop", "Stop", "Resume",
               "GPop", "GPopEmpty", "GDeleteOk", "GDeleteFail", "Restart", "WSaveCrash", "GDeleteCrash"]


def require_actions(ctx, res, label):
    """Vacuity guard. TLC names a disjunct `\\E x \\in S : A(x)` after A when S is a singleton (one getter),
    after the enclosing definition otherwise: accept DoA, A and AAny."""
    missing = [a for a in ALL_ACTIONS
               if not any(res.coverage.get(n, (0, 0))[1] > 0 for n in ("Do" + a, a, a + "Any"))]
    if missing:
        ctx.broken("vacuous model run %s: actions never taken: %s" % (label, missing))


def check_replay(ctx, go, name, needed, min_completed):
    rep = go.reports.get(name)
    if rep is None:
        if ctx.violations:
            return      # the code under test panicked; the engine recorded that as a violation
        ctx.broken("harness report %s missing" % name)
    cnt = rep.get("counters") or {}
    if rep.get("divergences"):
        return      # a violation is reported anyway; coverage of an aborted run means nothing
    missing = [a for a in needed if cnt.get("step_" + a, 0) == 0]
    if missing:
        ctx.broken("replay %s never exercised: %s" % (name, missing))
    if cnt.get("behaviours_completed", 0) < min_completed:
        ctx.broken("replay %s completed only %d behaviours" % (name, cnt.get("behaviours_completed", 0)))


def run(ctx):
    # 1. the contract model satisfies the property (exhaustive, bounded)
    cfg = ctx.pick("MC_Contract", "MC_Thorough")
    r = ctx.tlc(SPEC, "Pool", cfg=cfg, coverage=True, label=cfg, timeout=ctx.pick(600, 2400))
    require_actions(ctx, r, cfg)
    # 2. the variant that delivers whatever a failed Save returned violates it (documents the defect fixed in keep-core)
    hz = ctx.tlc(SPEC, "Pool", cfg="MC_Hazard", label="MC_Hazard", expect=("violation",))
    ctx.extra["hazard_violates"] = hz.violated
    # 3. behaviours of the model replayed on the real pool + scheduler
    g = ctx.tlc(SPEC, "Gen_Pool", cfg="Gen_Sim", mode="simulate", num=ctx.pick(300, 6000), depth=300,
                label="Gen_Sim", dump_trace=False, timeout=1500)
    beh = ctx.read_emitted(g, "behaviours.ndjson")
    if len(beh) < ctx.pick(200, 4000):
        ctx.broken("behaviour generation produced only %d behaviours" % len(beh))
    go = ctx.gotest("pkg/generator", "^TestVerif_C39_Replay$", ["c39_test.go"], inputs={"behaviours.ndjson": beh},
                    extra_overlay=OVERLAY, label="replay_generator", timeout=ctx.pick(600, 3000))
    ctx.absorb(go)
    check_replay(ctx, go, "replay_generator",
                 ["WGenerate", "WGenerateNil", "WSaveOk", "WSaveFail", "WSaveCrash", "WPush", "WDrop", "Stop", "Resume",
                  "GPop", "GPopEmpty", "GDeleteOk", "GDeleteFail", "GDeleteCrash", "Restart"], ctx.pick(50, 1000))
    # 4. the same on the real pool over the real preParamsStorage (no scheduler access from that package)
    g2 = ctx.tlc(SPEC, "Gen_Pool", cfg="Gen_SimNoStop", mode="simulate", num=ctx.pick(150, 2500), depth=300,
                 label="Gen_SimNoStop", dump_trace=False, timeout=1500)
    beh2 = ctx.read_emitted(g2, "behaviours.ndjson")
    if len(beh2) < ctx.pick(100, 1700):
        ctx.broken("behaviour generation (storage) produced only %d behaviours" % len(beh2))
    go2 = ctx.gotest("pkg/tecdsa/dkg", "^TestVerif_C39_ReplayStorage$", ["c39_test.go"], inputs={"behaviours.ndjson": beh2},
                     extra_overlay=OVERLAY, label="replay_dkg", timeout=ctx.pick(900, 3000))
    ctx.absorb(go2)
    check_replay(ctx, go2, "replay_dkg",
                 ["WGenerate", "WSaveOk", "WSaveFail", "WSaveCrash", "WPush", "GPop", "GPopEmpty", "GDeleteOk",
                  "GDeleteFail", "Restart"], ctx.pick(30, 500))
    return ctx.finish(
        level="model_checking",
        rule="TLC explores every interleaving of the pool model within the bounds of %s (pool size 2, %s). Conformance: "
             "seeded random behaviours of the same model (30 steps + drain through GetNow), with priority for the steps the worker "
             "goroutine takes on its own, are forced on the real code through gates in generateFn and the persistence; the full "
             "observable state is compared after every step; non-trivial = behaviours containing a storage fault, crash, restart or "
             "scheduler stop." % (cfg, ctx.pick("3 values, 1 getter, 1 fault of each kind", "4 values, 2 getters, 2 restarts, 2 stops")),
        assumptions=["storage faults happen at call granularity (fail without effect / effect then crash)",
                     "a cancelled worker's random select branch is observed, not forced (both outcomes accepted as the model allows)",
                     "values generated by generateFn are distinct (as tss-lib pre-parameters are)",
                     "the pkg/tecdsa/dkg replay cannot stop the scheduler (unexported), so Stop/Resume is only replayed in pkg/generator"],
        exhaustive=False)
