"""C39 — the pre-parameter pool never serves a parameter twice or an invalid one."""
META = {
    "disabled": True,
    "level": "model_checking",
    "text": "TODO",
    "note": "TODO",
    "technique": "TLA+ spec of pool+persistence+worker, TLC exhaustive; behaviours replayed step by step on the real ParameterPool/Scheduler and preParamsStorage",
    "design_ref": "DESIGN.md §4.6 C39",
}
SPEC = "specs/Pool"
OVERLAY = {"internal/verifc39/engine.go": "pkg/generator/c39engine/engine.go"}


def run(ctx):
    g = ctx.tlc(SPEC, "Gen_Pool", cfg="Gen_Sim", mode="simulate", num=ctx.pick(300, 3000), depth=200,
                label="Gen_Sim", dump_trace=False, timeout=900)
    beh = ctx.read_emitted(g, "behaviours.ndjson")
    ctx.note("generated %d behaviours" % len(beh))
    go = ctx.gotest("pkg/generator", "^TestVerif_C39_Replay$", ["c39_test.go"], inputs={"behaviours.ndjson": beh},
                    extra_overlay=OVERLAY, label="replay_generator", timeout=ctx.pick(600, 3000))
    ctx.absorb(go)
    return ctx.finish(level="model_checking", rule="TODO", assumptions=["TODO"], exhaustive=False)
