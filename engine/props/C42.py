"""C42 — sortition pool status changes are only requested when permitted."""
META = {
    "level": "model_checking",
    "text": "checkOperatorStatus / checkRewardsEligibility / MonitorPool and the join policies (ConjunctionPolicy, BetaOperatorPolicy) "
            "are specified query by query over a chain whose eight answers (in pool, up to date, locked, eligible, can restore, "
            "chaosnet, beta, second policy) change between and during checks, with failing queries and transactions. TLC checks "
            "exhaustively (all 256 chain states x registration, sequences of 3 checks) that join / update / restore are requested "
            "only on the answers the property names, never both join and update, and that an undisturbed check issues exactly the "
            "declaratively owed requests. Every single-check behaviour (each chain state x each failing step x each answer changed "
            "at each position) and simulated 3-check sequences are replayed on the real functions and policies against a scripted "
            "recording chain, directly and through the real MonitorPool ticker.",
    "note": "Trusted: the scripted chain's reactions to successful transactions (join => in pool and up to date; update => up to date; "
            "restore => eligible). The order of queries inside a check is part of the step-by-step comparison; the property oracle "
            "on recorded requests is independent of it.",
    "technique": "TLA+ spec shaped like the check, TLC exhaustive; exhaustive single-check and simulated multi-check behaviours replayed on the real code",
    "design_ref": "DESIGN.md §4.7 C42",
}
SPEC = "specs/Sortition"
PKG = "pkg/sortition"
ACTIONS = ["QRegistered", "StartCheck", "QInPool", "QUpToDate", "QEligible", "QCanRestore", "Restore", "QLocked", "Update",
           "QChaosnet", "QBeta", "QOther", "Join", "Flip"]


def run(ctx):
    mc = ctx.pick("MC_Quick", "MC_Full")
    r = ctx.tlc(SPEC, "Sortition", cfg=mc, coverage=True, label=mc, timeout=ctx.pick(900, 3000))
    ctx.require_coverage(r, ACTIONS, mc)
    beh = []
    g = ctx.tlc(SPEC, "Gen_Sortition", cfg="Gen_One", workers=1, label="Gen_One", dump_trace=False, timeout=900)
    one = ctx.read_emitted(g, "behaviours.ndjson")
    if len(one) < 1900:
        ctx.broken("Gen_One produced only %d behaviours" % len(one))
    g = ctx.tlc(SPEC, "Gen_Sortition", cfg="Gen_OneFlip", workers=1, label="Gen_OneFlip", dump_trace=False, timeout=1800)
    flip = ctx.read_emitted(g, "behaviours.ndjson")
    if len(flip) < 10000:
        ctx.broken("Gen_OneFlip produced only %d behaviours" % len(flip))
    if not ctx.thorough:
        import random
        flip = random.Random(ctx.seed).sample(flip, 3000)
    num = ctx.pick(600, 6000)
    g = ctx.tlc(SPEC, "Gen_Sortition", cfg="Gen_Sim", mode="simulate", num=num, depth=80, workers=1, label="Gen_Sim",
                dump_trace=False, timeout=ctx.pick(600, 2400))
    sim = ctx.read_emitted(g, "behaviours.ndjson")
    if len(sim) < num // 2:
        ctx.broken("Gen_Sim produced only %d behaviours" % len(sim))
    beh = one + flip + sim
    acts = {}
    for b in beh:
        for s in b["steps"]:
            acts[s["a"]] = acts.get(s["a"], 0) + 1
    missing = [a for a in ACTIONS if acts.get(a, 0) == 0]
    if missing:
        ctx.broken("generated behaviours never take: %s" % missing)
    ctx.extra["replay_actions"] = acts
    ctx.note("replay set: %d single-check behaviours with a failing step, %d with a changed answer, %d simulated sequences" % (
        len(one), len(flip), len(sim)))
    go = ctx.gotest(PKG, "^TestVerif_C42_", ["c42_test.go"], inputs={"behaviours.ndjson": beh}, label="replay",
                    env={"VERIF_MONITOR_RUNS": ctx.pick(400, 4000)}, timeout=ctx.pick(900, 3000))
    ctx.absorb(go, require_evals=300)
    return ctx.finish(
        level="model_checking",
        rule="TLC: all interleavings within MC_*.cfg (3 checks, failing steps, answers changing between and during checks). Replay: "
             "all 1980 single-check behaviours with at most one failing step, single-check behaviours with one answer changed at any "
             "position (all 10400 thorough, 3000 sampled quick), simulated 3-check sequences; each stepped on the real "
             "checkOperatorStatus and (a seeded subset) through the real MonitorPool; non-trivial = a request, a failure or a change",
        assumptions=["a successful join makes the operator in pool and up to date, a successful update makes it up to date, a "
                     "successful restore makes it eligible", "the second policy of the conjunction is a scripted answer"],
        exhaustive=ctx.thorough)
