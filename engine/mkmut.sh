#!/bin/sh
# usage: mkmut.sh <ID> <k>  -> creates worktree /tmp/mut-<ID>-<k> with TASK.md (the independent mutation brief)
set -e
ID=$1; K=$2; AVOID="$3"; WT=/tmp/mut-$ID-$K
[ -d "$WT" ] || git -C /repo worktree add --detach "$WT" HEAD -q
python3 - "$ID" "$WT" "$AVOID" <<'PY'
import json,sys
pid,wt,avoid=sys.argv[1],sys.argv[2],(sys.argv[3] if len(sys.argv)>3 else '')
tpl=open('/verif/engine/MUTATOR_PROMPT.md').read().split('\n',2)[2]
for l in open('/verif/properties.jsonl'):
    p=json.loads(l)
    if p['id']==pid:
        t=(tpl.replace('__WT__',wt).replace('__TITLE__',p['title']).replace('__STATEMENT__',p['statement'])
           .replace('__QUANT__',p['quantifier']['text']).replace('__FILES__',', '.join(p['anchors']['files'])))
        if avoid: t+='\nDIVERSITY: another engineer already produced this change for the same property — produce something in a DIFFERENT function/mechanism/clause: '+avoid+'\n'
        open(wt+'/TASK.md','w').write(t)
        print(wt+'/TASK.md')
PY
