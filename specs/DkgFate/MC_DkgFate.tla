---------------------------- MODULE MC_DkgFate ----------------------------
(* Constant definitions for the exhaustive / generation configurations.    *)
EXTENDS DkgFate

Others == Members \ {Me}
\* every local outcome in which the member itself is operating
AllViews == {[dq |-> d, ia |-> i] : d \in SUBSET Others, i \in SUBSET Others} 
DisjointViews == {v \in AllViews : v.dq \cap v.ia = {}}

OpSeq == <<"A", "B", "C", "D", "E", "F">>
\* every assignment of three operators to the seats, plus malformed lengths
AllSelections == [1..N -> {"A", "B", "C"}]
                   \cup {[i \in 1..(N - 1) |-> OpSeq[i]], [i \in 1..(N + 1) |-> OpSeq[i]]}
TwoOpSelections == [1..N -> {"A", "B"}]
                   \cup {[i \in 1..(N - 1) |-> OpSeq[i]], [i \in 1..(N + 1) |-> OpSeq[i]]}
\* a few representative selections (generation)
SomeSelections == {[i \in 1..N |-> OpSeq[i]],                          \* all distinct
                   [i \in 1..N |-> OpSeq[N + 1 - i]],                  \* distinct, reversed
                   [i \in 1..N |-> IF i % 2 = 1 THEN "A" ELSE "B"],    \* operators holding several seats
                   [i \in 1..(N - 1) |-> OpSeq[i]],                    \* too short
                   [i \in 1..(N + 1) |-> OpSeq[i]]}                    \* too long

\* every subset of the members, and lists naming an index outside the group
AllMisbehaved == (SUBSET Members) \cup {{N + 1}, {1, N + 1}}
=============================================================================
