SPECIFICATION GSpec
CONSTANTS
  N = 3
  H = 2
  Me = 1
  Keys = {"k1", "k2"}
  LocalKey = "k1"
  Operators = {"A", "B", "C", "D", "E", "F"}
  LocalViews <- AllViews
  Selections <- SomeSelections
  Misbehaved <- AllMisbehaved
INVARIANTS Emit TypeOK KeepsOnlyAsChainDecided OperatorsExact NeverBelowThreshold TimeoutMeansOut FailedHasNoOperators DoneHasNoError
