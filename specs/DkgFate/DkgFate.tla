------------------------------ MODULE DkgFate ------------------------------
(***************************************************************************)
(* What a beacon member does after GJKR finished (pkg/beacon/dkg/dkg.go,   *)
(* ExecuteDKG from dkgResult.Publish onwards):                             *)
(*                                                                         *)
(*   operating := gjkrResult.Group.OperatingMemberIndexes()                *)
(*   err := dkgResult.Publish(...)                 PublishOk / PublishFails*)
(*   if err != nil {                                                       *)
(*     operating, err = decideMemberFate(...)                              *)
(*        waitForDkgResultEvent:  select {                                 *)
(*            event on dkgResultChannel            EventArrives            *)
(*            timeout block reached                TimeoutBlock }          *)
(*        group public key differs  -> error       DecideKeyMismatch       *)
(*        member listed misbehaved  -> error       DecideMisbehaved        *)
(*        operating = all members \ event.Misbehaved      DecideStay       *)
(*   }                                                                     *)
(*   groupOperators, err := resolveGroupOperators(selected, operating, cfg)*)
(*        wrong length / too few operating -> error       ResolveInvalid   *)
(*        sort operating; groupOperators[i] = selected[operating[i]-1]     *)
(*                                                        Resolve          *)
(*                                                                         *)
(* Inputs are chosen in Init: the local view (disqualified / inactive      *)
(* members), the selected operator list, and -- through the actions -- the *)
(* on-chain event and its order relative to the timeout block.  A signal   *)
(* that becomes ready after the select has fired is never consumed.        *)
(***************************************************************************)
EXTENDS Integers, Sequences, FiniteSets

CONSTANTS N,           \* group size
          H,           \* honest threshold
          Me,          \* the member executing the DKG
          Keys,        \* group public keys an on-chain result may carry
          LocalKey,    \* the key this member computed
          Operators,   \* operator addresses
          LocalViews,  \* set of [dq, ia] records: the local GJKR outcome
          Selections,  \* set of selected-operator sequences
          Misbehaved   \* set of misbehaved-lists an event may carry (sets of indices)

Members == 1..N

\* ascending sequence of the elements of a set of naturals
RECURSIVE SortedSeq(_)
SortedSeq(S) == IF S = {} THEN <<>>
                ELSE LET m == CHOOSE x \in S : \A y \in S : x <= y
                     IN <<m>> \o SortedSeq(S \ {m})

NoEvent == [key |-> "", misbehaved |-> {}]

VARIABLES view,        \* local GJKR outcome [dq, ia]
          selected,    \* selectedOperators
          phase,       \* "publishing" | "waiting" | "decide" | "resolve" | "done" | "failed"
          published,   \* dkgResult.Publish succeeded
          ev,          \* the event taken from dkgResultChannel (NoEvent if none)
          timedOut,    \* the timeout block was reached while waiting
          operating,   \* operatingMemberIndexes handed to resolveGroupOperators (a set)
          groupOps,    \* ThresholdSigner.groupOperators
          err          \* "" | "timeout" | "key" | "misbehaved" | "invalid"

vars == <<view, selected, phase, published, ev, timedOut, operating, groupOps, err>>

LocalOperating(v) == Members \ (v.dq \cup v.ia)

Init ==
    /\ view \in LocalViews
    /\ selected \in Selections
    /\ phase = "publishing" /\ published = FALSE /\ ev = NoEvent /\ timedOut = FALSE
    /\ operating = LocalOperating(view)
    /\ groupOps = <<>> /\ err = ""

PublishOk ==
    /\ phase = "publishing"
    /\ published' = TRUE /\ phase' = "resolve"
    /\ UNCHANGED <<view, selected, ev, timedOut, operating, groupOps, err>>

PublishFails ==
    /\ phase = "publishing"
    /\ phase' = "waiting"
    /\ UNCHANGED <<view, selected, published, ev, timedOut, operating, groupOps, err>>

EventArrives(k, mis) ==
    /\ phase = "waiting"
    /\ ev' = [key |-> k, misbehaved |-> mis]
    /\ phase' = "decide"
    /\ UNCHANGED <<view, selected, published, timedOut, operating, groupOps, err>>

TimeoutBlock ==
    /\ phase = "waiting"
    /\ timedOut' = TRUE /\ phase' = "failed" /\ err' = "timeout"
    /\ UNCHANGED <<view, selected, published, ev, operating, groupOps>>

DecideKeyMismatch ==
    /\ phase = "decide" /\ ev.key # LocalKey
    /\ phase' = "failed" /\ err' = "key"
    /\ UNCHANGED <<view, selected, published, ev, timedOut, operating, groupOps>>

DecideMisbehaved ==
    /\ phase = "decide" /\ ev.key = LocalKey /\ Me \in ev.misbehaved
    /\ phase' = "failed" /\ err' = "misbehaved"
    /\ UNCHANGED <<view, selected, published, ev, timedOut, operating, groupOps>>

\* the operating set is rebuilt from ALL members according to the accepted
\* result, not from the local view
DecideStay ==
    /\ phase = "decide" /\ ev.key = LocalKey /\ Me \notin ev.misbehaved
    /\ operating' = Members \ ev.misbehaved
    /\ phase' = "resolve"
    /\ UNCHANGED <<view, selected, published, ev, timedOut, groupOps, err>>

ResolveInvalid ==
    /\ phase = "resolve"
    /\ (Len(selected) # N \/ Cardinality(operating) < H)
    /\ phase' = "failed" /\ err' = "invalid"
    /\ UNCHANGED <<view, selected, published, ev, timedOut, operating, groupOps>>

GroupOperators(sel, ops) == LET s == SortedSeq(ops) IN [i \in 1..Len(s) |-> sel[s[i]]]

Resolve ==
    /\ phase = "resolve"
    /\ Len(selected) = N /\ Cardinality(operating) >= H
    /\ groupOps' = GroupOperators(selected, operating)
    /\ phase' = "done"
    /\ UNCHANGED <<view, selected, published, ev, timedOut, operating, err>>

DoEvent == \E k \in Keys, mis \in Misbehaved : EventArrives(k, mis)

Next == PublishOk \/ PublishFails \/ DoEvent \/ TimeoutBlock \/ DecideKeyMismatch
          \/ DecideMisbehaved \/ DecideStay \/ ResolveInvalid \/ Resolve

Spec == Init /\ [][Next]_vars

---------------------------------------------------------------------------
TypeOK ==
    /\ phase \in {"publishing", "waiting", "decide", "resolve", "done", "failed"}
    /\ err \in {"", "timeout", "key", "misbehaved", "invalid"}
    /\ operating \subseteq Members
    /\ published \in BOOLEAN /\ timedOut \in BOOLEAN

\* C05: a member whose own publication failed keeps its membership only if
\* the accepted result carries the same key and does not list it
KeepsOnlyAsChainDecided ==
    (phase = "done" /\ ~published) =>
        /\ ev # NoEvent /\ ev.key = LocalKey /\ Me \notin ev.misbehaved
        /\ ~timedOut

\* C05: the operator list is exactly the selected operators of the
\* non-misbehaving members in member-index order
NonMisbehaving == IF published THEN LocalOperating(view) ELSE Members \ ev.misbehaved
OperatorsExact ==
    phase = "done" =>
        LET s == SortedSeq(NonMisbehaving) IN
          /\ Len(groupOps) = Len(s)
          /\ \A i \in 1..Len(s) : groupOps[i] = selected[s[i]]
          /\ \A i \in 1..(Len(s) - 1) : s[i] < s[i + 1]

\* a group is never formed below the honest threshold or from a malformed selection
NeverBelowThreshold == phase = "done" => (Len(groupOps) >= H /\ Len(selected) = N)

\* timeout before any event: the member leaves
TimeoutMeansOut == timedOut => (phase = "failed" /\ err = "timeout" /\ groupOps = <<>>)

\* failure never yields a signer; success never carries an error
FailedHasNoOperators == phase = "failed" => (groupOps = <<>> /\ err # "")
DoneHasNoError == phase = "done" => err = ""
=============================================================================
