SPECIFICATION Spec
CONSTANTS
  N = 5
  H = 3
  Me = 1
  Keys = {"k1", "k2"}
  LocalKey = "k1"
  Operators = {"A", "B", "C", "D", "E", "F"}
  LocalViews <- DisjointViews
  Selections <- TwoOpSelections
  Misbehaved <- AllMisbehaved
INVARIANTS  TypeOK KeepsOnlyAsChainDecided OperatorsExact NeverBelowThreshold TimeoutMeansOut FailedHasNoOperators DoneHasNoError
