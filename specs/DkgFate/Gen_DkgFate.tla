---------------------------- MODULE Gen_DkgFate ----------------------------
(* Behaviour generation: every behaviour with a history variable, emitted  *)
(* when ExecuteDKG would return (done / failed).                           *)
EXTENDS MC_DkgFate, TLC, Json, CSV, IOUtils

VARIABLE hist
gvars == <<vars, hist>>

Step(a) == hist' = Append(hist, [a |-> a, key |-> ev'.key, misbehaved |-> SortedSeq(ev'.misbehaved)])

GInit == Init /\ hist = <<>>
GPublishOk    == PublishOk /\ Step("PublishOk")
GPublishFails == PublishFails /\ Step("PublishFails")
GEvent        == DoEvent /\ Step("EventArrives")
GTimeout      == TimeoutBlock /\ Step("TimeoutBlock")
GKeyMismatch  == DecideKeyMismatch /\ Step("DecideKeyMismatch")
GMisbehaved   == DecideMisbehaved /\ Step("DecideMisbehaved")
GStay         == DecideStay /\ Step("DecideStay")
GInvalid      == ResolveInvalid /\ Step("ResolveInvalid")
GResolve      == Resolve /\ Step("Resolve")
GNext == GPublishOk \/ GPublishFails \/ GEvent \/ GTimeout \/ GKeyMismatch \/ GMisbehaved
           \/ GStay \/ GInvalid \/ GResolve
GSpec == GInit /\ [][GNext]_gvars

Terminal == phase \in {"done", "failed"}
Emit == Terminal =>
    CSVWrite("%1$s", <<ToJson([n |-> N, h |-> H, me |-> Me, localKey |-> LocalKey,
                               dq |-> SortedSeq(view.dq), ia |-> SortedSeq(view.ia),
                               selected |-> selected, steps |-> hist,
                               phase |-> phase, err |-> err, published |-> published,
                               operating |-> SortedSeq(operating), groupOps |-> groupOps])>>,
             "behaviours.ndjson")
=============================================================================
