SPECIFICATION Spec
CONSTANTS
  N = 4
  H = 3
  Me = 2
  Keys = {"k1", "k2"}
  LocalKey = "k1"
  Operators = {"A", "B", "C", "D", "E", "F"}
  LocalViews <- DisjointViews
  Selections <- TwoOpSelections
  Misbehaved <- AllMisbehaved
INVARIANTS  TypeOK KeepsOnlyAsChainDecided OperatorsExact NeverBelowThreshold TimeoutMeansOut FailedHasNoOperators DoneHasNoError
