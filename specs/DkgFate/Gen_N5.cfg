SPECIFICATION GSpec
CONSTANTS
  N = 5
  H = 3
  Me = 5
  Keys = {"k1", "k2"}
  LocalKey = "k1"
  Operators = {"A", "B", "C", "D", "E", "F"}
  LocalViews <- DisjointViews
  Selections <- SomeSelections
  Misbehaved <- AllMisbehaved
INVARIANTS Emit TypeOK KeepsOnlyAsChainDecided OperatorsExact NeverBelowThreshold TimeoutMeansOut FailedHasNoOperators DoneHasNoError
