--------------------------- MODULE Gen_TecdsaDkg ---------------------------
(* Behaviour generation for TecdsaDkg (TLC -simulate): the behaviour is    *)
(* logged step by step together with the acting member's abstract state    *)
(* after the step; the log is written when the last operating member       *)
(* completes.  The harness replays the log on the real state objects       *)
(* (every step compared) and, for a few behaviours, on real                *)
(* Executor.Execute runs (delivery order and injected traffic forced,      *)
(* final results compared).                                                *)
EXTENDS MC_TecdsaDkg, TLC, Json, CSV, IOUtils

VARIABLE log
gvars == <<vars, log>>

RECURSIVE SetToSeq(_)
SetToSeq(S) == IF S = {} THEN <<>> ELSE LET x == CHOOSE y \in S : TRUE IN <<x>> \o SetToSeq(S \ {x})

Wire(m) == [t |-> m.t, s |-> m.s, k |-> m.k, ses |-> m.ses, ctx |-> SetToSeq(m.ctx)]
NoMsg == [t |-> 0, s |-> 0, k |-> 0, ses |-> "", ctx |-> <<>>]

\* abstract state of member i after the step
After(i) == [status |-> status'[i], cur |-> cur'[i], inited |-> inited'[i],
             hist |-> SetToSeq({Wire(m) : m \in hist'[i]}), nadm |-> nadm'[i],
             can |-> (cur'[i] = 2 \/ Cardinality({m.s : m \in {x \in hist'[i] : x.t = cur'[i]}}) = Cardinality(View(i)) - 1),
             mis |-> SetToSeq(mis'[i])]

Log(a, i, m, kind) == log' = Append(log, [a |-> a, i |-> i, m |-> m, kind |-> kind, after |-> After(i)])

GInit == Init /\ log = <<>>
GStart    == \E i \in Members : Start(i) /\ Log("Start", i, NoMsg, "")
GInitiate == \E i \in Members : Initiate(i) /\ Log("Initiate", i, NoMsg, "")
GTransition == \E i \in Members : Transition(i) /\ Log("Transition", i, NoMsg, "")
GFinish   == \E i \in Members : Finish(i) /\ Log("Finish", i, NoMsg, "")
\* deliveries: also those that leave the state unchanged (echo, rejected) are logged
GDeliver  == \E i \in Members : \E m \in net :
                 /\ status[i] = "running" /\ m \notin hist[i]
                 /\ (Admit(i, m) \/ Len(log) < MaxLog)
                 /\ Receive(i, m)
                 /\ UNCHANGED <<status, cur, inited, consumed, net, key, mis, nForged, nDup>>
                 /\ Log("Deliver", i, Wire(m), IF m.s = i THEN "echo" ELSE IF m.s \in Excluded THEN "intruder" ELSE "genuine")
GDeliverDup == \E i \in Members : \E m \in net : DeliverDup(i, m) /\ Log("Deliver", i, Wire(m), "dup")
\* one random forged message per receiver and step (keeps the simulation from spending the whole budget at once)
GDeliverForged == \E i \in Operating : \E m \in {RandomElement(Forged(i))} : RandomElement(1..4) = 1 /\ DeliverForged(i, m) /\ Log("Deliver", i, Wire(m), "forged")

GNext == GStart \/ GInitiate \/ GTransition \/ GFinish \/ GDeliver \/ GDeliverDup \/ GDeliverForged
GSpec == GInit /\ [][GNext]_gvars

Terminal == /\ \A i \in Operating : status[i] = "done"
            /\ Len(log) > 0 /\ log[Len(log)].a = "Finish" /\ log[Len(log)].i \in Operating

Emit == Terminal =>
    CSVWrite("%1$s", <<ToJson([n |-> N, excluded |-> SetToSeq(Excluded), intruders |-> SetToSeq(Intruders),
                               operating |-> SetToSeq(Operating),
                               steps |-> log,
                               forged |-> nForged, dups |-> nDup,
                               status |-> status,
                               mis |-> [i \in Members |-> SetToSeq(mis[i])],
                               keyOk |-> [i \in Members |-> key[i] = Expected]])>>,
             "behaviours.ndjson")

\* the whole injected alphabet with the specification's admission decision,
\* written once (the harness probes every real state of every member with it)
EmitProbes == (log = <<>>) =>
    CSVWrite("%1$s", <<ToJson([n |-> N, excluded |-> SetToSeq(Excluded),
                               probes |-> UNION {{[i |-> i, m |-> Wire(m), admit |-> Admit(i, m)] :
                                                    m \in Forged(i) \cup {Genuine(t, i) : t \in MsgTypes}} : i \in Operating}])>>,
             "probes.ndjson")

\* stop a simulated behaviour once it was emitted / bound its length
StopAfterEmit == ~Terminal /\ Len(log) < 70 * N
=============================================================================
