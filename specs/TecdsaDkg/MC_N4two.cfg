SPECIFICATION Spec
CONSTANTS
  N = 4
  Excluded = {1, 4}
  Intruders = {}
  Checks <- AllChecks
  ForgedKinds <- AllKinds
  MaxForged = 2
  MaxDup = 1
INVARIANTS TypeOK HistoryClean TransitionSound ConsumedClean EqualKeys KeyFromOperating MisbehavedIsExcluded OperatingNeverFail IntrudersNeverJoin IntruderFailsAtRoundThree
