SPECIFICATION Spec
CONSTANTS
  N = 3
  Excluded = {3}
  Intruders = {3}
  Checks <- AllChecks
  ForgedKinds <- AllKinds
  MaxForged = 0
  MaxDup = 0
INVARIANTS TypeOK HistoryClean TransitionSound ConsumedClean EqualKeys KeyFromOperating MisbehavedIsExcluded OperatingNeverFail IntrudersNeverJoin IntruderFailsAtRoundThree
