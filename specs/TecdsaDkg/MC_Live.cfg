SPECIFICATION FairSpec
CONSTANTS
  N = 3
  Excluded = {3}
  Intruders = {}
  Checks <- AllChecks
  ForgedKinds <- AllKinds
  MaxForged = 1
  MaxDup = 1
INVARIANTS TypeOK
PROPERTIES Completes
