SPECIFICATION GSpec
CONSTANTS
  N = 4
  Excluded = {1, 4}
  Intruders = {4}
  Checks <- AllChecks
  ForgedKinds <- AllKinds
  MaxForged = 4
  MaxDup = 2
INVARIANTS Emit TypeOK HistoryClean TransitionSound ConsumedClean EqualKeys KeyFromOperating MisbehavedIsExcluded OperatingNeverFail IntrudersNeverJoin IntruderFailsAtRoundThree
CONSTRAINT StopAfterEmit
