SPECIFICATION Spec
CONSTANTS
  N = 3
  Excluded = {3}
  Intruders = {3}
  Checks <- NoOperatingCheck
  ForgedKinds <- AllKinds
  MaxForged = 0
  MaxDup = 0
INVARIANTS TypeOK OperatingNeverFail
