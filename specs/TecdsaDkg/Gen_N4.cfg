SPECIFICATION GSpec
CONSTANTS
  N = 4
  Excluded = {2}
  Intruders = {2}
  Checks <- AllChecks
  ForgedKinds <- AllKinds
  MaxForged = 6
  MaxDup = 2
INVARIANTS Emit EmitProbes TypeOK HistoryClean TransitionSound ConsumedClean EqualKeys KeyFromOperating MisbehavedIsExcluded OperatingNeverFail IntrudersNeverJoin IntruderFailsAtRoundThree
CONSTRAINT StopAfterEmit
