SPECIFICATION Spec
CONSTANTS
  N = 3
  Excluded = {3}
  Intruders = {}
  Checks <- NoOperatingCheck
  ForgedKinds <- AllKinds
  MaxForged = 1
  MaxDup = 0
INVARIANTS TypeOK HistoryClean
