SPECIFICATION Spec
CONSTANTS
  N = 3
  Excluded = {}
  Intruders = {}
  Checks <- AllChecks
  ForgedKinds <- AllKinds
  MaxForged = 1
  MaxDup = 0
INVARIANTS TypeOK HistoryClean TransitionSound ConsumedClean EqualKeys KeyFromOperating MisbehavedIsExcluded OperatingNeverFail IntrudersNeverJoin IntruderFailsAtRoundThree
