SPECIFICATION Spec
CONSTANTS
  N = 3
  Excluded = {1}
  Intruders = {}
  Checks <- AllChecks
  ForgedKinds <- AllKinds
  MaxForged = 2
  MaxDup = 1
INVARIANTS TypeOK HistoryClean TransitionSound ConsumedClean EqualKeys KeyFromOperating MisbehavedIsExcluded OperatingNeverFail IntrudersNeverJoin IntruderFailsAtRoundThree
