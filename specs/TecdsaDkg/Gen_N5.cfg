SPECIFICATION GSpec
CONSTANTS
  N = 5
  Excluded = {2, 5}
  Intruders = {5}
  Checks <- AllChecks
  ForgedKinds <- AllKinds
  MaxForged = 4
  MaxDup = 2
INVARIANTS Emit TypeOK HistoryClean TransitionSound ConsumedClean EqualKeys KeyFromOperating MisbehavedIsExcluded OperatingNeverFail IntrudersNeverJoin IntruderFailsAtRoundThree
CONSTRAINT StopAfterEmit
