SPECIFICATION GSpec
CONSTANTS
  N = 5
  Excluded = {2, 5}
  Intruders = {5}
  Checks <- AllChecks
  ForgedKinds <- AllKinds
  MaxForged = 6
  MaxDup = 2
INVARIANTS Emit EmitProbes TypeOK HistoryClean TransitionSound ConsumedClean EqualKeys KeyFromOperating MisbehavedIsExcluded OperatingNeverFail IntrudersNeverJoin IntruderFailsAtRoundThree
CONSTRAINT StopAfterEmit
