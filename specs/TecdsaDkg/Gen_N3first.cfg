SPECIFICATION GSpec
CONSTANTS
  N = 3
  Excluded = {1}
  Intruders = {1}
  Checks <- AllChecks
  ForgedKinds <- AllKinds
  MaxForged = 6
  MaxDup = 2
INVARIANTS Emit EmitProbes TypeOK HistoryClean TransitionSound ConsumedClean EqualKeys KeyFromOperating MisbehavedIsExcluded OperatingNeverFail IntrudersNeverJoin IntruderFailsAtRoundThree
CONSTRAINT StopAfterEmit
