SPECIFICATION GSpec
CONSTANTS
  N = 4
  Excluded = {}
  Intruders = {}
  Checks <- AllChecks
  ForgedKinds <- AllKinds
  MaxForged = 3
  MaxDup = 2
INVARIANTS Emit EmitProbes TypeOK HistoryClean TransitionSound ConsumedClean EqualKeys KeyFromOperating MisbehavedIsExcluded OperatingNeverFail IntrudersNeverJoin IntruderFailsAtRoundThree
CONSTRAINT StopAfterEmit
