----------------------------- MODULE TecdsaDkg -----------------------------
(***************************************************************************)
(* C07 -- tECDSA distributed key generation (pkg/tecdsa/dkg) as run by     *)
(* Executor.Execute: one message-driven machine (pkg/protocol/state        *)
(* AsyncMachine, see specs/AsyncMachine) per running member, over a        *)
(* broadcast channel that may delay, reorder, duplicate and inject.        *)
(*                                                                         *)
(* Protocol states of a member (pkg/tecdsa/dkg/states.go):                 *)
(*   1 ephemeralKeyPairGenerationState  sends type 1  waits for type 1     *)
(*   2 symmetricKeyGenerationState      silent        consumes type 1      *)
(*   3 tssRoundOneState                 sends type 3  waits for type 3     *)
(*   4 tssRoundTwoState                 sends type 4  consumes 3, waits 4  *)
(*   5 tssRoundThreeState               sends type 5  consumes 4, waits 5  *)
(*   6 finalizationState                sends type 6  consumes 5, waits 6  *)
(* Every state has the same Receive: a payload implementing `message` is   *)
(* appended to the shared BaseAsyncState history iff                       *)
(*     sender # self  /\  valid membership(sender, network key)            *)
(*     /\  group.IsOperating(sender)  /\  session = own session            *)
(* whatever its type is (messages for later states are retained).          *)
(* CanTransition of a waiting state k is a COUNT:                          *)
(*     |{senders of type-k messages in the history}| = |operating| - 1     *)
(* Initiate of a consuming state feeds the (first per sender) type-(k-1)   *)
(* messages to the TSS party; that fails unless they come from exactly the *)
(* party's peers in the same session and (round two) address the member.   *)
(*                                                                         *)
(* Executor.Execute marks the attempt's excluded members as disqualified   *)
(* (never the member itself), so an excluded member that runs nevertheless *)
(* (Intruders) considers itself operating: its messages carry a valid      *)
(* network key and the current session.                                    *)
(*                                                                         *)
(* CONSTANT Checks = the conjuncts of the admission predicate in force.    *)
(* The code has all four; the hazard configurations drop one each and TLC  *)
(* must refute the invariants (negative controls).                         *)
(***************************************************************************)
EXTENDS Integers, Sequences, FiniteSets

CONSTANTS
    N,           \* group size
    Excluded,    \* members excluded from this attempt
    Intruders,   \* excluded members that run the protocol nevertheless
    Checks,      \* subset of {"self", "member", "operating", "session"}
    ForgedKinds, \* subset of {"excluded", "session", "key", "outsider"}
    MaxForged,   \* injected messages per behaviour
    MaxDup       \* duplicate deliveries per behaviour

ASSUME /\ N \in Nat /\ Excluded \subseteq 1..N /\ Intruders \subseteq Excluded
       /\ Checks \subseteq {"self", "member", "operating", "session"}
       /\ Cardinality((1..N) \ Excluded) >= 2

Members   == 1..N
Operating == Members \ Excluded
Runners   == Operating \cup Intruders
States    == 1..6
MsgTypes  == {1, 3, 4, 5, 6}         \* the states that send / wait
Consumes(k) == CASE k = 2 -> 1 [] k = 4 -> 3 [] k = 5 -> 4 [] k = 6 -> 5 [] OTHER -> 0

\* group view of a running member after Execute's marking loop
View(i) == Members \ (Excluded \ {i})

(* A message: t type, s claimed sender index, k seat whose operator key     *)
(* signed the envelope (0 = an operator outside the group), ses session,   *)
(* ctx the party context (operating view) of the member that built it.     *)
Msg(t, s, k, ses, ctx) == [t |-> t, s |-> s, k |-> k, ses |-> ses, ctx |-> ctx]
Genuine(t, i) == Msg(t, i, i, "cur", View(i))

\* injected traffic that receiver i may see
Forged(i) ==
    UNION {
      IF "excluded" \in ForgedKinds     \* an excluded member's own protocol message
         THEN {Msg(t, e, e, "cur", View(e)) : t \in MsgTypes, e \in Excluded} ELSE {},
      IF "session" \in ForgedKinds      \* an operating peer's message of another attempt
         THEN {Msg(t, p, p, "old", Operating) : t \in MsgTypes, p \in Operating \ {i}} ELSE {},
      IF "key" \in ForgedKinds          \* an excluded operator claiming an operating seat
         THEN {Msg(t, p, e, "cur", Operating) : t \in MsgTypes, p \in Operating \ {i}, e \in Excluded} ELSE {},
      IF "outsider" \in ForgedKinds     \* an operator outside the group claiming an operating seat
         THEN {Msg(t, p, 0, "cur", Operating) : t \in MsgTypes, p \in Operating \ {i}} ELSE {} }

VARIABLES
    status,     \* i -> "idle" | "running" | "done" | "failed"
    cur,        \* i -> current state
    inited,     \* i -> Initiate of the current state returned nil
    hist,       \* i -> set of admitted messages (BaseAsyncState, as a set)
    nadm,       \* i -> number of ReceiveToHistory calls (duplicates are appended too)
    consumed,   \* i -> messages fed to the TSS party so far
    net,        \* protocol messages sent so far
    key,        \* i -> what the member's key share was derived from (done members)
    mis,        \* i -> misbehaved members of the result
    nForged, nDup

vars == <<status, cur, inited, hist, nadm, consumed, net, key, mis, nForged, nDup>>

Init ==
    /\ status = [i \in Members |-> "idle"]
    /\ cur = [i \in Members |-> 1]
    /\ inited = [i \in Members |-> FALSE]
    /\ hist = [i \in Members |-> {}]
    /\ nadm = [i \in Members |-> 0]
    /\ consumed = [i \in Members |-> {}]
    /\ net = {}
    /\ key = [i \in Members |-> {}] /\ mis = [i \in Members |-> {}]
    /\ nForged = 0 /\ nDup = 0

---------------------------------------------------------------------------
\* member.shouldAcceptMessage /\ sessionID check (states.go Receive)
Admit(i, m) ==
    /\ ("self" \in Checks) => m.s # i
    /\ ("member" \in Checks) => (m.k = m.s /\ m.s \in Members)
    /\ ("operating" \in Checks) => m.s \in View(i)
    /\ ("session" \in Checks) => m.ses = "cur"

OfType(i, t) == {m \in hist[i] : m.t = t}
SendersOf(i, t) == {m.s : m \in OfType(i, t)}        \* receivedMessages[T]: de-duplicated by SenderID

CanTransition(i) ==
    \/ cur[i] = 2
    \/ Cardinality(SendersOf(i, cur[i])) = Cardinality(View(i)) - 1

\* the TSS party of i accepts exactly one message per peer, built for the
\* same party context in the same session, under the peer's own key
\* (only the round-two messages -- type 4 -- carry point-to-point parts, one
\* per member of the SENDER's party context: protocol.go tssRoundThree fails
\* with "no P2P part" for a receiver outside that context; ephemeral public
\* key messages carry a key for every seat of the group)
Consumable(i, M) ==
    /\ {m.s : m \in M} = View(i) \ {i}
    /\ Cardinality(M) = Cardinality(View(i)) - 1
    /\ \A m \in M : /\ m.ses = "cur" /\ m.k = m.s
                     /\ m.t = 4 => i \in m.ctx

---------------------------------------------------------------------------
\* Executor.Execute: newMember, marking loop, machine started
Start(i) ==
    /\ i \in Runners /\ status[i] = "idle"
    /\ status' = [status EXCEPT ![i] = "running"]
    /\ UNCHANGED <<cur, inited, hist, nadm, consumed, net, key, mis, nForged, nDup>>
DoStart == \E i \in Members : Start(i)

\* asyncStateTransition: Initiate(ctx) of the current state
Initiate(i) ==
    /\ status[i] = "running" /\ ~inited[i]
    /\ LET k == cur[i]  c == Consumes(cur[i]) IN
         IF c # 0 /\ ~Consumable(i, OfType(i, c))
            THEN \* Initiate returned an error: Execute returns it
                 /\ status' = [status EXCEPT ![i] = "failed"]
                 /\ UNCHANGED <<inited, consumed, net>>
            ELSE /\ inited' = [inited EXCEPT ![i] = TRUE]
                 /\ consumed' = [consumed EXCEPT ![i] = IF c # 0 THEN @ \cup OfType(i, c) ELSE @]
                 /\ net' = IF k \in MsgTypes THEN net \cup {Genuine(k, i)} ELSE net
                 /\ UNCHANGED status
    /\ UNCHANGED <<cur, hist, nadm, key, mis, nForged, nDup>>
DoInitiate == \E i \in Members : Initiate(i)

\* ticker: CanTransition() true -> Next()
Transition(i) ==
    /\ status[i] = "running" /\ inited[i] /\ CanTransition(i) /\ cur[i] < 6
    /\ cur' = [cur EXCEPT ![i] = @ + 1]
    /\ inited' = [inited EXCEPT ![i] = FALSE]
    /\ UNCHANGED <<status, hist, nadm, consumed, net, key, mis, nForged, nDup>>
DoTransition == \E i \in Members : Transition(i)

\* the final state's Next() is nil: Execute returns finalizationState.result()
Finish(i) ==
    /\ status[i] = "running" /\ inited[i] /\ CanTransition(i) /\ cur[i] = 6
    /\ status' = [status EXCEPT ![i] = "done"]
    /\ key' = [key EXCEPT ![i] = consumed[i] \cup {Genuine(t, i) : t \in {1, 3, 4, 5}}]
    /\ mis' = [mis EXCEPT ![i] = Members \ View(i)]       \* Result.MisbehavedMembersIndexes
    /\ UNCHANGED <<cur, inited, hist, nadm, consumed, net, nForged, nDup>>
DoFinish == \E i \in Members : Finish(i)

\* the machine hands a message to the current state's Receive
Receive(i, m) ==
    /\ hist' = [hist EXCEPT ![i] = IF Admit(i, m) THEN @ \cup {m} ELSE @]
    /\ nadm' = [nadm EXCEPT ![i] = IF Admit(i, m) THEN @ + 1 ELSE @]

\* delivery of a sent message; the channel echoes a member's own messages to
\* it as well, and a running excluded member's messages reach everybody
\* (deliveries of messages the receiver rejects leave the state unchanged)
Deliver(i, m) ==
    /\ status[i] = "running" /\ m \in net \ hist[i]
    /\ Receive(i, m)
    /\ UNCHANGED <<status, cur, inited, consumed, net, key, mis, nForged, nDup>>
DoDeliver == \E i \in Members : \E m \in net : Deliver(i, m)

\* retransmission / duplicate of a message that is already in the history
DeliverDup(i, m) ==
    /\ status[i] = "running" /\ m \in hist[i] /\ nDup < MaxDup
    /\ Receive(i, m)
    /\ nDup' = nDup + 1
    /\ UNCHANGED <<status, cur, inited, consumed, net, key, mis, nForged>>
DoDeliverDup == \E i \in Members : \E m \in net : DeliverDup(i, m)

\* injected message
DeliverForged(i, m) ==
    /\ status[i] = "running" /\ i \in Operating /\ nForged < MaxForged
    /\ m \in Forged(i)
    /\ Receive(i, m)
    /\ nForged' = nForged + 1
    /\ UNCHANGED <<status, cur, inited, consumed, net, key, mis, nDup>>
DoDeliverForged == \E i \in Members : \E m \in Forged(i) : DeliverForged(i, m)

Next == DoStart \/ DoInitiate \/ DoTransition \/ DoFinish \/ DoDeliver \/ DoDeliverDup \/ DoDeliverForged

Spec == Init /\ [][Next]_vars

\* liveness assumptions: machines keep running, sent messages are delivered
FairSpec ==
    /\ Spec
    /\ \A i \in Members : WF_vars(Start(i)) /\ WF_vars(Initiate(i)) /\ WF_vars(Transition(i)) /\ WF_vars(Finish(i))
    /\ \A i \in Members : WF_vars(\E m \in net : Deliver(i, m))

---------------------------------------------------------------------------
TypeOK ==
    /\ \A i \in Members : /\ status[i] \in {"idle", "running", "done", "failed"}
                          /\ cur[i] \in States /\ inited[i] \in BOOLEAN
    /\ nForged \in 0..MaxForged /\ nDup \in 0..MaxDup

\* C07: no message from an excluded member, from another session, under a
\* foreign key or from the member itself is ever admitted into a history
HistoryClean ==
    \A i \in Operating : \A m \in hist[i] :
        /\ m.s \in Operating \ {i}
        /\ m.ses = "cur" /\ m.k = m.s
        /\ m \in net

\* leaving a waiting state means every operating peer's message is there
\* (the COUNT of CanTransition coincides with the SET because of HistoryClean)
TransitionSound ==
    \A i \in Operating : status[i] # "idle" =>
        \A t \in MsgTypes : (t < cur[i] \/ status[i] = "done") => SendersOf(i, t) = Operating \ {i}

\* what a member feeds to its TSS party comes from the operating members only
ConsumedClean ==
    \A i \in Operating : \A m \in consumed[i] : m.s \in Operating /\ m.ses = "cur" /\ m.ctx = Operating /\ m \in net

\* an excluded member that runs gets as far as round three and fails there
IntruderFailsAtRoundThree ==
    \A e \in Intruders : /\ status[e] = "failed" => cur[e] = 5
                          /\ cur[e] <= 5

\* C07: operating members that complete agree on the key and on the
\* misbehaved list, and the excluded members are listed
Expected == {Genuine(t, j) : t \in {1, 3, 4, 5}, j \in Operating}
EqualKeys ==
    \A i, j \in Operating : (status[i] = "done" /\ status[j] = "done") => key[i] = key[j] /\ mis[i] = mis[j]
KeyFromOperating ==
    \A i \in Operating : status[i] = "done" => key[i] = Expected
MisbehavedIsExcluded ==
    \A i \in Operating : status[i] = "done" => mis[i] = Excluded

\* operating members never fail; excluded members that run never complete
OperatingNeverFail == \A i \in Operating : status[i] # "failed"
IntrudersNeverJoin == \A e \in Intruders : status[e] # "done"

AllDone == \A i \in Operating : status[i] = "done"
\* liveness under fairness: every operating member completes
Completes == <>AllDone
=============================================================================
