--------------------------- MODULE MC_TecdsaDkg ---------------------------
EXTENDS TecdsaDkg
AllChecks == {"self", "member", "operating", "session"}
AllKinds  == {"excluded", "session", "key", "outsider"}
NoOperatingCheck == AllChecks \ {"operating"}
NoSessionCheck   == AllChecks \ {"session"}
NoMemberCheck    == AllChecks \ {"member"}
NoSelfCheck      == AllChecks \ {"self"}
MaxLog == 90    \* rejected / echoed deliveries are only logged in the first MaxLog steps
=============================================================================
