SPECIFICATION Spec
CONSTANTS
  MaxChecks = 3
  MaxFaults = 2
  MaxFlips = 3
INVARIANTS TypeOK JoinOnlyWhenPermitted UpdateOnlyWhenPermitted RestoreOnlyWhenPermitted PermittedOnChain OneOfJoinUpdate StableCheckIsExact NeverMoreThanOwed NoCheckWhenUnknown ErrorMeansNoPoolRequest
