---------------------------- MODULE Gen_Sortition ----------------------------
(* Behaviour generation for replay on the real checkOperatorStatus /         *)
(* MonitorPool: the model with a history variable.  A behaviour is written   *)
(* when the last check has returned (or monitoring was refused).  Used       *)
(* exhaustively for single checks (every chain state x every failing step x  *)
(* every answer changed at every position) and with -simulate for sequences. *)
EXTENDS Sortition, TLC, Json, CSV, IOUtils

CONSTANT StartRegistered   \* skip the refused-monitoring behaviours (simulation)
VARIABLES hist, init
gvars == <<vars, hist, init>>

GInit == Init /\ (StartRegistered => registered) /\ hist = <<>> /\ init = [chain |-> chain, registered |-> registered]

Finished == pc = "stopped" \/ (pc = "idle" /\ checks = MaxChecks)

Log(a, f) == hist' = Append(hist, [a |-> a, f |-> f, fault |-> (faults' > faults), pc |-> pc',
                                   chain |-> chain', issued |-> issued', outcome |-> outcome'])

GNext ==
    /\ ~Finished
    /\ UNCHANGED init
    /\ \/ QRegistered /\ Log("QRegistered", "") /\ (StartRegistered => pc' = "idle")
       \/ StartCheck /\ Log("StartCheck", "")
       \/ QInPool /\ Log("QInPool", "inPool")
       \/ QUpToDate /\ Log("QUpToDate", "upToDate")
       \/ QEligible /\ Log("QEligible", "eligible")
       \/ QCanRestore /\ Log("QCanRestore", "canRestore")
       \/ Restore /\ Log("Restore", "")
       \/ QLocked /\ Log("QLocked", "locked")
       \/ Update /\ Log("Update", "")
       \/ QChaosnet /\ Log("QChaosnet", "chaosnet")
       \/ QBeta /\ Log("QBeta", "beta")
       \/ QOther /\ Log("QOther", "other")
       \/ Join /\ Log("Join", "")
       \/ \E f \in Facts : Flip(f) /\ Log("Flip", f)

GSpec == GInit /\ [][GNext]_gvars

Emit == Finished => CSVWrite("%1$s", <<ToJson([init |-> init, steps |-> hist])>>, "behaviours.ndjson")
=============================================================================
