SPECIFICATION Spec
CONSTANTS
  MaxChecks = 3
  MaxFaults = 1
  MaxFlips = 1
INVARIANTS TypeOK JoinOnlyWhenPermitted UpdateOnlyWhenPermitted RestoreOnlyWhenPermitted PermittedOnChain OneOfJoinUpdate StableCheckIsExact NeverMoreThanOwed NoCheckWhenUnknown ErrorMeansNoPoolRequest
