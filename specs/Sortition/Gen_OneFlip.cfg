SPECIFICATION GSpec
CONSTANTS
  MaxChecks = 1
  MaxFaults = 0
  MaxFlips = 1
  StartRegistered = FALSE
INVARIANTS Emit
