------------------------------ MODULE Sortition ------------------------------
(***************************************************************************)
(* Sortition pool monitoring: pkg/sortition/sortition.go, policy.go.       *)
(*                                                                         *)
(* Code structure mirrored here (one action per chain query / request):    *)
(*   MonitorPool             -> QRegistered, then StartCheck immediately    *)
(*                              and on every tick                          *)
(*   checkOperatorStatus     -> QInPool, QUpToDate, (rewards), QLocked,     *)
(*                              Update | (policy) Join                     *)
(*   checkRewardsEligibility -> QEligible, QCanRestore, Restore             *)
(*   ConjunctionPolicy       -> the policies in order, first refusal wins   *)
(*   BetaOperatorPolicy      -> QChaosnet, QBeta                            *)
(*   second policy (tbtc: enough pre-parameters) -> QOther                  *)
(* Every query / transaction can fail (budget MaxFaults).  The chain state  *)
(* changes between and during checks (Flip, budget MaxFlips), and through   *)
(* the client's own successful transactions.                                *)
(***************************************************************************)
EXTENDS Integers, Sequences, FiniteSets

CONSTANTS MaxChecks,     \* status checks per behaviour
          MaxFaults,     \* failing queries / transactions
          MaxFlips       \* changes of chain answers by the environment

Facts == {"inPool", "upToDate", "locked", "eligible", "canRestore", "chaosnet", "beta", "other"}

VARIABLES
    chain,        \* Facts -> BOOLEAN: what the chain would answer now
    registered,   \* the operator has a staking provider
    pc,           \* next step of the client
    rd,           \* Facts -> BOOLEAN: the answers read in this check (FALSE until read)
    checks,       \* checks started so far
    snap,         \* chain at the start of the current check
    stable,       \* no environment change and no failure since the check started
    issued,       \* set of request kinds issued in the current check
    last,         \* the last request with the answers it was based on
    outcome,      \* what the current / last check returned: "ok" | "error" | "none"
    faults, flips

vars == <<chain, registered, pc, rd, checks, snap, stable, issued, last, outcome, faults, flips>>

Pcs == {"register", "idle", "inPool", "upToDate", "eligible", "canRestore", "restore", "locked",
        "update", "chaosnet", "beta", "other", "join", "stopped"}

AllFalse == [f \in Facts |-> FALSE]
NoReq == [kind |-> "none", rd |-> AllFalse, chain |-> AllFalse]

Init ==
    /\ chain \in [Facts -> BOOLEAN]
    /\ registered \in BOOLEAN
    /\ pc = "register" /\ rd = AllFalse /\ checks = 0 /\ snap = AllFalse /\ stable = TRUE
    /\ issued = {} /\ last = NoReq /\ outcome = "none"
    /\ faults = 0 /\ flips = 0

---------------------------------------------------------------------------
(* The declarative decision: what a check owes for a chain that does not   *)
(* change while it runs and answers every query.                           *)

PolicyAllows(c) == (~c["chaosnet"] \/ c["beta"]) /\ c["other"]

MayJoin(c)    == ~c["inPool"] /\ ~c["upToDate"] /\ ~c["locked"] /\ PolicyAllows(c)
MayUpdate(c)  == c["inPool"] /\ ~c["upToDate"] /\ ~c["locked"]
MayRestore(c) == c["inPool"] /\ ~c["eligible"] /\ c["canRestore"]

Owed(c) == (IF MayJoin(c) THEN {"join"} ELSE {})
           \cup (IF MayUpdate(c) THEN {"update"} ELSE {})
           \cup (IF MayRestore(c) THEN {"restore"} ELSE {})

---------------------------------------------------------------------------
Fails == /\ faults < MaxFaults /\ faults' = faults + 1 /\ stable' = FALSE
NoFault == UNCHANGED <<faults, stable>>

Read(f) == rd' = [rd EXCEPT ![f] = chain[f]]

\* the check returns
EndCheck(o) == /\ pc' = "idle" /\ outcome' = o

\* after the rewards part: `if isOperatorUpToDate { return nil }`, else IsPoolLocked
AfterRewards == IF rd["upToDate"] THEN EndCheck("ok") ELSE (pc' = "locked" /\ UNCHANGED outcome)

\* MonitorPool: _, isRegistered, err := chain.OperatorToStakingProvider()
QRegistered ==
    /\ pc = "register"
    /\ \/ Fails /\ pc' = "stopped" /\ outcome' = "error"
       \/ NoFault /\ ~registered /\ pc' = "stopped" /\ outcome' = "unknown"     \* errOperatorUnknown
       \/ NoFault /\ registered /\ pc' = "idle" /\ UNCHANGED outcome
    /\ UNCHANGED <<chain, registered, rd, checks, snap, issued, last, flips>>

\* the first check right away, later ones on the ticker
StartCheck ==
    /\ pc = "idle" /\ checks < MaxChecks
    /\ pc' = "inPool" /\ checks' = checks + 1
    /\ rd' = AllFalse /\ snap' = chain /\ stable' = TRUE /\ issued' = {} /\ outcome' = "running"
    /\ UNCHANGED <<chain, registered, last, faults, flips>>

\* isOperatorInPool, err := chain.IsOperatorInPool()
QInPool ==
    /\ pc = "inPool"
    /\ \/ Fails /\ EndCheck("error") /\ UNCHANGED rd
       \/ NoFault /\ Read("inPool") /\ pc' = "upToDate" /\ UNCHANGED outcome
    /\ UNCHANGED <<chain, registered, checks, snap, issued, last, flips>>

\* isOperatorUpToDate, err := chain.IsOperatorUpToDate()
QUpToDate ==
    /\ pc = "upToDate"
    /\ \/ Fails /\ EndCheck("error") /\ UNCHANGED rd
       \/ /\ NoFault /\ Read("upToDate")
          /\ IF rd["inPool"] THEN pc' = "eligible" /\ UNCHANGED outcome
             ELSE IF chain["upToDate"] THEN EndCheck("ok")
             ELSE pc' = "locked" /\ UNCHANGED outcome
    /\ UNCHANGED <<chain, registered, checks, snap, issued, last, flips>>

\* checkRewardsEligibility: isEligibleForRewards, err := chain.IsEligibleForRewards()
\* (its errors are logged by checkOperatorStatus, the check goes on)
QEligible ==
    /\ pc = "eligible"
    /\ \/ Fails /\ AfterRewards /\ UNCHANGED rd
       \/ /\ NoFault /\ Read("eligible")
          /\ IF chain["eligible"] THEN AfterRewards ELSE pc' = "canRestore" /\ UNCHANGED outcome
    /\ UNCHANGED <<chain, registered, checks, snap, issued, last, flips>>

\* canRestoreRewardEligibility, err := chain.CanRestoreRewardEligibility()
QCanRestore ==
    /\ pc = "canRestore"
    /\ \/ Fails /\ AfterRewards /\ UNCHANGED rd
       \/ /\ NoFault /\ Read("canRestore")
          /\ IF chain["canRestore"] THEN pc' = "restore" /\ UNCHANGED outcome ELSE AfterRewards
    /\ UNCHANGED <<chain, registered, checks, snap, issued, last, flips>>

Request(k) == /\ last' = [kind |-> k, rd |-> rd, chain |-> chain]
              /\ issued' = issued \cup {k}

\* err = chain.RestoreRewardEligibility()
Restore ==
    /\ pc = "restore" /\ Request("restore")
    /\ \/ Fails /\ UNCHANGED chain
       \/ NoFault /\ chain' = [chain EXCEPT !["eligible"] = TRUE]
    /\ AfterRewards
    /\ UNCHANGED <<registered, rd, checks, snap, flips>>

\* isLocked, err := chain.IsPoolLocked()
QLocked ==
    /\ pc = "locked"
    /\ \/ Fails /\ EndCheck("error") /\ UNCHANGED rd
       \/ /\ NoFault /\ Read("locked")
          /\ IF chain["locked"] THEN EndCheck("ok")
             ELSE IF rd["inPool"] THEN pc' = "update" /\ UNCHANGED outcome
             ELSE pc' = "chaosnet" /\ UNCHANGED outcome
    /\ UNCHANGED <<chain, registered, checks, snap, issued, last, flips>>

\* err := chain.UpdateOperatorStatus() (a failure is logged, the check returns nil)
Update ==
    /\ pc = "update" /\ Request("update")
    /\ \/ Fails /\ UNCHANGED chain
       \/ NoFault /\ chain' = [chain EXCEPT !["upToDate"] = TRUE]
    /\ EndCheck("ok")
    /\ UNCHANGED <<registered, rd, checks, snap, flips>>

\* BetaOperatorPolicy.ShouldJoin: isChaosnetActive, err := chain.IsChaosnetActive()
QChaosnet ==
    /\ pc = "chaosnet"
    /\ \/ Fails /\ EndCheck("ok") /\ UNCHANGED rd              \* error -> false -> holding off
       \/ /\ NoFault /\ Read("chaosnet")
          /\ IF chain["chaosnet"] THEN pc' = "beta" /\ UNCHANGED outcome
             ELSE pc' = "other" /\ UNCHANGED outcome
    /\ UNCHANGED <<chain, registered, checks, snap, issued, last, flips>>

\* isBetaOperator, err := chain.IsBetaOperator()
QBeta ==
    /\ pc = "beta"
    /\ \/ Fails /\ EndCheck("ok") /\ UNCHANGED rd
       \/ /\ NoFault /\ Read("beta")
          /\ IF chain["beta"] THEN pc' = "other" /\ UNCHANGED outcome ELSE EndCheck("ok")
    /\ UNCHANGED <<chain, registered, checks, snap, issued, last, flips>>

\* the next policy of the conjunction (cannot fail)
QOther ==
    /\ pc = "other" /\ Read("other")
    /\ IF chain["other"] THEN pc' = "join" /\ UNCHANGED outcome ELSE EndCheck("ok")
    /\ UNCHANGED <<chain, registered, checks, snap, stable, issued, last, faults, flips>>

\* err := chain.JoinSortitionPool() (a failure is logged, the check returns nil)
Join ==
    /\ pc = "join" /\ Request("join")
    /\ \/ Fails /\ UNCHANGED chain
       \/ NoFault /\ chain' = [chain EXCEPT !["inPool"] = TRUE, !["upToDate"] = TRUE]
    /\ EndCheck("ok")
    /\ UNCHANGED <<registered, rd, checks, snap, flips>>

\* the environment changes one answer (between checks or in the middle of one)
Flip(f) ==
    /\ flips < MaxFlips /\ flips' = flips + 1
    /\ pc # "register" /\ pc # "stopped"
    /\ chain' = [chain EXCEPT ![f] = ~chain[f]]
    /\ stable' = IF pc = "idle" THEN stable ELSE FALSE
    /\ UNCHANGED <<registered, pc, rd, checks, snap, issued, last, outcome, faults>>
DoFlip == \E f \in Facts : Flip(f)

Next == QRegistered \/ StartCheck \/ QInPool \/ QUpToDate \/ QEligible \/ QCanRestore \/ Restore
        \/ QLocked \/ Update \/ QChaosnet \/ QBeta \/ QOther \/ Join \/ DoFlip

Spec == Init /\ [][Next]_vars

---------------------------------------------------------------------------
TypeOK == pc \in Pcs /\ issued \subseteq {"join", "update", "restore"} /\ checks \in 0..MaxChecks

PolicyRead(r) == (~r["chaosnet"] \/ r["beta"]) /\ r["other"]

\* C42: joining is requested only when the operator is not in the pool, not up to date,
\* the pool is unlocked and the join policy allows it (per the answers the check received)
JoinOnlyWhenPermitted ==
    last.kind = "join" =>
        ~last.rd["inPool"] /\ ~last.rd["upToDate"] /\ ~last.rd["locked"] /\ PolicyRead(last.rd)

\* C42: a status update is requested only for an operator in an unlocked pool that is out of date
UpdateOnlyWhenPermitted ==
    last.kind = "update" => last.rd["inPool"] /\ ~last.rd["upToDate"] /\ ~last.rd["locked"]

\* C42: restoring reward eligibility is requested only when the chain says it can be restored
\* (for an operator in the pool that is marked ineligible)
RestoreOnlyWhenPermitted ==
    last.kind = "restore" => last.rd["inPool"] /\ ~last.rd["eligible"] /\ last.rd["canRestore"]

\* while the chain did not change during the check, the answers are the chain's state:
\* the request was permitted by the chain itself at the moment it was made
PermittedOnChain ==
    (stable /\ pc # "idle" /\ last.kind # "none" /\ last.kind \in issued) =>
        LET c == last.chain IN
        CASE last.kind = "join" -> ~c["inPool"] /\ ~c["upToDate"] /\ ~c["locked"] /\ PolicyAllows(c)
          [] last.kind = "update" -> c["inPool"] /\ ~c["upToDate"] /\ ~c["locked"]
          [] last.kind = "restore" -> c["inPool"] /\ ~c["eligible"] /\ c["canRestore"]

\* join and update exclude each other; nothing is requested twice in a check
OneOfJoinUpdate == ~({"join", "update"} \subseteq issued)

\* a check that ran undisturbed issued exactly what the declarative decision owes
StableCheckIsExact ==
    (pc = "idle" /\ checks > 0 /\ stable) => (issued = Owed(snap) /\ outcome = "ok")

\* a check never requests more than what its start state or a changed answer could justify:
\* without any environment change during the check nothing beyond Owed(snap) is requested
NeverMoreThanOwed ==
    (checks > 0 /\ (stable \/ flips = 0)) => issued \subseteq Owed(snap)

\* an unregistered operator is never monitored
NoCheckWhenUnknown == (~registered) => (checks = 0 /\ last.kind = "none")

\* a failing IsOperatorInPool / IsOperatorUpToDate / IsPoolLocked query aborts the check with an error
ErrorMeansNoPoolRequest ==
    (pc = "idle" /\ outcome = "error") => issued \cap {"join", "update"} = {}
=============================================================================
