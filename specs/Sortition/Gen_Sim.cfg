SPECIFICATION GSpec
CONSTANTS
  MaxChecks = 3
  MaxFaults = 2
  MaxFlips = 4
  StartRegistered = TRUE
INVARIANTS Emit
