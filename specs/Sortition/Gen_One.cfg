SPECIFICATION GSpec
CONSTANTS
  MaxChecks = 1
  MaxFaults = 1
  MaxFlips = 0
  StartRegistered = FALSE
INVARIANTS Emit
