SPECIFICATION GSpec
CONSTANTS
  NumWallets = 3
  NumIndexes = 3
  Flavor = "beacon"
  MaxSaveFail = 2
  MaxArchFail = 2
  MaxRestarts = 4
  MaxReadSkip = 1
  MaxChainErr = 2
  MaxSteps = 14
INVARIANTS Emit GenInvariants
