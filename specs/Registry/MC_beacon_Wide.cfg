SPECIFICATION Spec
CONSTANTS
  NumWallets = 3
  NumIndexes = 1
  Flavor = "beacon"
  MaxSaveFail = 1
  MaxArchFail = 1
  MaxRestarts = 2
  MaxReadSkip = 1
  MaxChainErr = 1
INVARIANTS TypeOK CacheIsStorage ExactAfterCleanRestart NoDuplicates
PROPERTIES NothingLost WriteAhead
