---------------------------- MODULE Gen_Registry ----------------------------
(* Behaviour generation for conformance replay of Registry.  Every step is  *)
(* an operation the harness performs on the real registry (with the outcome *)
(* of the storage call scripted in the fault-injecting persistence handle). *)
(*   hist[i] = [a, w, i, K, latest, S, E, F, A, EL, st]                     *)
(* K = unreadable entries at the (re)start the step ends with, S / E / F =  *)
(* stale groups / chain errors / failing Archive calls of an Unregister,    *)
(* A = groups archived, EL = groups eligible for archiving, st = state      *)
(* after the step.                                                          *)
EXTENDS Registry, TLC, Json, CSV, IOUtils

CONSTANT MaxSteps

VARIABLE hist
gvars == <<vars, hist>>

ViewP == [cur |-> [w \in Wallets |-> SortedSeq(cur'[w])],
          arch |-> [w \in Wallets |-> SortedSeq(arch'[w])],
          cache |-> cache']

E(a, w, i, K, latest, S, EE, F, A, EL) ==
    hist' = Append(hist, [a |-> a, w |-> w, i |-> i, K |-> K, latest |-> latest, S |-> S, E |-> EE,
                          F |-> F, A |-> A, EL |-> EL, st |-> ViewP])

E1(a, w, i, K) == E(a, w, i, K, 0, {}, {}, {}, {}, {})

GInit == Init /\ hist = <<>>

GNext ==
    /\ Len(hist) < MaxSteps
    /\ \/ \E w \in Wallets, i \in Indexes :
             \/ RegisterOk(w, i)   /\ E1("RegisterOk", w, i, {})
             \/ RegisterFail(w, i) /\ E1("RegisterFail", w, i, {})
             \/ \E K \in Skips([cur EXCEPT ![w] = @ \cup {i}]) :
                   RegisterCrash(w, i, K) /\ E1("RegisterCrash", w, i, K)
       \/ \E w \in Wallets :
             \/ ArchiveOk(w)      /\ E1("ArchiveOk", w, 0, {})
             \/ ArchiveFail(w)    /\ E1("ArchiveFail", w, 0, {})
             \/ ArchiveMissing(w) /\ E1("ArchiveMissing", w, 0, {})
             \/ \E K \in Skips(Archived(cur, arch, {w})[1]) :
                   ArchiveCrash(w, K) /\ E1("ArchiveCrash", w, 0, K)
       \* canonical parameters only: staleness and chain errors of groups the
       \* registry does not ask about make no difference
       \* (the chain may well report the latest group as stale: it must not be asked)
       \/ \E latest \in Wallets \cup {0} : \E S \in SUBSET KnownSet :
             \E EE \in SUBSET (KnownSet \ (S \cup {latest})), F \in SUBSET (S \ {latest}) :
                Unregister(latest, S, EE, F)
                /\ E("Unregister", 0, 0, {}, latest, S, EE, F, Eligible(latest, S, EE) \ F, Eligible(latest, S, EE))
       \/ \E latest \in Wallets \cup {0} : \E S \in SUBSET KnownSet : \E A \in (SUBSET (S \ {latest})) \ {{}} :
             \E K \in Skips(Archived(cur, arch, A)[1]) :
                UnregisterCrash(latest, S, A, K)
                /\ E("UnregisterCrash", 0, 0, K, latest, S, {}, {}, A, Eligible(latest, S, {}))
       \/ \E K \in Skips(cur) : Restart(K) /\ E1("Restart", 0, 0, K)

GSpec == GInit /\ [][GNext]_gvars

Done == Len(hist) >= MaxSteps

Emit == Done => CSVWrite("%1$s", <<ToJson([steps |-> hist, wallets |-> NumWallets])>>, "behaviours.ndjson")

GenInvariants == CacheIsStorage /\ ExactAfterCleanRestart /\ NoDuplicates
=============================================================================
