SPECIFICATION Spec
CONSTANTS
  NumWallets = 3
  NumIndexes = 2
  Flavor = "tbtc"
  MaxSaveFail = 1
  MaxArchFail = 1
  MaxRestarts = 2
  MaxReadSkip = 1
  MaxChainErr = 1
INVARIANTS TypeOK CacheIsStorage ExactAfterCleanRestart NoDuplicates
PROPERTIES NothingLost WriteAhead
