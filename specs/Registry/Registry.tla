------------------------------ MODULE Registry ------------------------------
(***************************************************************************)
(* The two registries that keep key material across restarts:              *)
(*                                                                         *)
(*   pkg/tbtc/registry.go            walletRegistry + walletStorage        *)
(*   pkg/beacon/registry/groups.go   Groups + storage.go persistentStorage *)
(*                                                                         *)
(* Both write to a persistence.ProtectedHandle first and update an         *)
(* in-memory map afterwards, and rebuild the map from the handle when the  *)
(* node starts.  "Wallet" below stands for a tBTC wallet or a beacon       *)
(* group, "index" for the member index of a signer / membership.           *)
(*                                                                         *)
(*   registerSigner / RegisterGroup    RegisterOk, RegisterFail (Save      *)
(*                                     returned an error: nothing          *)
(*                                     changes), RegisterCrash (Save took  *)
(*                                     effect, the process died before the *)
(*                                     map was updated)                    *)
(*   archiveWallet (Flavor "tbtc")     ArchiveOk, ArchiveFail,             *)
(*                                     ArchiveMissing (wallet unknown:     *)
(*                                     error), ArchiveCrash                *)
(*   UnregisterStaleGroups ("beacon")  Unregister(latest, S, E, F): every  *)
(*                                     cached group other than `latest`    *)
(*                                     that the chain reports stale (S)    *)
(*                                     without an error (E) is archived    *)
(*                                     and, unless Archive failed (F),     *)
(*                                     dropped from the map;               *)
(*                                     UnregisterCrash: the process died   *)
(*                                     right after some Archive calls took *)
(*                                     effect (Go's map iteration order    *)
(*                                     decides which)                      *)
(*   newWalletRegistry / NewGroupRegistry + LoadExistingGroups             *)
(*                                     Restart(K): the map is rebuilt from *)
(*                                     the current (non archived) storage; *)
(*                                     K = entries whose content could not *)
(*                                     be read (logged and skipped)        *)
(***************************************************************************)
EXTENDS Integers, Sequences, FiniteSets

CONSTANTS NumWallets, NumIndexes,
          Flavor,           \* "tbtc" | "beacon"
          MaxSaveFail, MaxArchFail, MaxRestarts, MaxReadSkip, MaxChainErr

Wallets == 1..NumWallets
Indexes == 1..NumIndexes
Entries == Wallets \X Indexes

VARIABLES cur,      \* wallet -> set of indexes persisted in the current storage
          arch,     \* wallet -> set of indexes in the archive
          cache,    \* wallet -> sequence of indexes in memory (<<>> = wallet unknown)
          skipped,  \* history: entries of cur that the last restart could not read
          used      \* budgets spent

vars == <<cur, arch, cache, skipped, used>>

Range(s) == {s[i] : i \in DOMAIN s}
Known(w) == cache[w] # <<>>

RECURSIVE SortedSeq(_)
SortedSeq(S) == IF S = {} THEN <<>>
                ELSE LET m == CHOOSE x \in S : \A y \in S : x <= y
                     IN <<m>> \o SortedSeq(S \ {m})

Init ==
    /\ cur = [w \in Wallets |-> {}]
    /\ arch = [w \in Wallets |-> {}]
    /\ cache = [w \in Wallets |-> <<>>]
    /\ skipped = {}
    /\ used = [saveFail |-> 0, archFail |-> 0, restarts |-> 0, chainErr |-> 0]

\* the map as rebuilt from storage d when the entries K cannot be read
Loaded(d, K) == [w \in Wallets |-> SortedSeq({i \in d[w] : <<w, i>> \notin K})]

RestartFrom(d, a, K) ==
    /\ used.restarts < MaxRestarts
    /\ K \subseteq {e \in Entries : e[2] \in d[e[1]]}
    /\ Cardinality(K) <= MaxReadSkip
    /\ cur' = d /\ arch' = a
    /\ cache' = Loaded(d, K)
    /\ skipped' = K

---------------------------------------------------------------------------
\* registration (a signer is registered once per process lifetime)

CanRegister(w, i) == i \notin Range(cache[w])

RegisterOk(w, i) ==
    /\ CanRegister(w, i)
    /\ cur' = [cur EXCEPT ![w] = @ \cup {i}]
    /\ cache' = [cache EXCEPT ![w] = Append(@, i)]
    /\ skipped' = skipped \ {<<w, i>>}          \* rewritten, readable again
    /\ UNCHANGED <<arch, used>>

RegisterFail(w, i) ==
    /\ CanRegister(w, i)
    /\ used.saveFail < MaxSaveFail
    /\ used' = [used EXCEPT !.saveFail = @ + 1]
    /\ UNCHANGED <<cur, arch, cache, skipped>>

RegisterCrash(w, i, K) ==
    /\ CanRegister(w, i)
    /\ <<w, i>> \notin K
    /\ RestartFrom([cur EXCEPT ![w] = @ \cup {i}], arch, K)
    /\ used' = [used EXCEPT !.restarts = @ + 1]

---------------------------------------------------------------------------
\* tbtc: archiveWallet(publicKeyHash)

Archived(d, a, W) == <<[w \in Wallets |-> IF w \in W THEN {} ELSE d[w]],
                       [w \in Wallets |-> IF w \in W THEN a[w] \cup d[w] ELSE a[w]]>>

ArchiveOk(w) ==
    /\ Flavor = "tbtc" /\ Known(w)
    /\ cur' = Archived(cur, arch, {w})[1]
    /\ arch' = Archived(cur, arch, {w})[2]
    /\ cache' = [cache EXCEPT ![w] = <<>>]
    /\ skipped' = {e \in skipped : e[1] # w}
    /\ UNCHANGED used

ArchiveFail(w) ==
    /\ Flavor = "tbtc" /\ Known(w)
    /\ used.archFail < MaxArchFail
    /\ used' = [used EXCEPT !.archFail = @ + 1]
    /\ UNCHANGED <<cur, arch, cache, skipped>>

\* "wallet not found in the wallet cache"
ArchiveMissing(w) ==
    /\ Flavor = "tbtc" /\ ~Known(w)
    /\ UNCHANGED vars

ArchiveCrash(w, K) ==
    /\ Flavor = "tbtc" /\ Known(w)
    /\ RestartFrom(Archived(cur, arch, {w})[1], Archived(cur, arch, {w})[2], K)
    /\ used' = [used EXCEPT !.restarts = @ + 1]

---------------------------------------------------------------------------
\* beacon: UnregisterStaleGroups(latest)

\* groups for which Archive is called: cached, not the latest one, stale
\* according to the chain, and the chain call did not fail
Eligible(latest, S, E) == {w \in Wallets : Known(w) /\ w # latest /\ w \in S /\ w \notin E}

Unregister(latest, S, E, F) ==
    /\ Flavor = "beacon"
    /\ E \subseteq {w \in Wallets : Known(w) /\ w # latest}     \* IsStaleGroup is only asked for those
    /\ F \subseteq Eligible(latest, S, E)
    /\ used.chainErr + Cardinality(E) <= MaxChainErr
    /\ used.archFail + Cardinality(F) <= MaxArchFail
    /\ used' = [used EXCEPT !.chainErr = @ + Cardinality(E), !.archFail = @ + Cardinality(F)]
    /\ LET A == Eligible(latest, S, E) \ F
       IN /\ cur' = Archived(cur, arch, A)[1]
          /\ arch' = Archived(cur, arch, A)[2]
          /\ cache' = [w \in Wallets |-> IF w \in A THEN <<>> ELSE cache[w]]
          /\ skipped' = {e \in skipped : e[1] \notin A}

\* the process dies right after the Archive call of the n-th eligible group
\* took effect; A is the set archived up to then
UnregisterCrash(latest, S, A, K) ==
    /\ Flavor = "beacon"
    /\ A # {} /\ A \subseteq Eligible(latest, S, {})
    /\ RestartFrom(Archived(cur, arch, A)[1], Archived(cur, arch, A)[2], K)
    /\ used' = [used EXCEPT !.restarts = @ + 1]

---------------------------------------------------------------------------
Restart(K) ==
    /\ RestartFrom(cur, arch, K)
    /\ used' = [used EXCEPT !.restarts = @ + 1]

CurEntries(d) == {e \in Entries : e[2] \in d[e[1]]}
Skips(d) == {K \in SUBSET CurEntries(d) : Cardinality(K) <= MaxReadSkip}

DoRegisterOk      == \E w \in Wallets, i \in Indexes : RegisterOk(w, i)
DoRegisterFail    == \E w \in Wallets, i \in Indexes : RegisterFail(w, i)
RegisterCrashAny(w, i) == \E K \in Skips([cur EXCEPT ![w] = @ \cup {i}]) : RegisterCrash(w, i, K)
DoRegisterCrash   == \E w \in Wallets, i \in Indexes : RegisterCrashAny(w, i)
DoArchiveOk       == \E w \in Wallets : ArchiveOk(w)
DoArchiveFail     == \E w \in Wallets : ArchiveFail(w)
DoArchiveMissing  == \E w \in Wallets : ArchiveMissing(w)
ArchiveCrashAny(w) == \E K \in Skips(Archived(cur, arch, {w})[1]) : ArchiveCrash(w, K)
DoArchiveCrash    == \E w \in Wallets : ArchiveCrashAny(w)
\* parameters that cannot make a difference are not enumerated: staleness /
\* chain errors of groups the registry does not ask about
KnownSet == {w \in Wallets : Known(w)}
UnregisterAny(latest) == \E S \in SUBSET (KnownSet \ {latest}) :
                            \E E \in SUBSET (KnownSet \ (S \cup {latest})) : \E F \in SUBSET S :
                               Unregister(latest, S, E, F)
DoUnregister      == \E latest \in Wallets \cup {0} : UnregisterAny(latest)
UnregisterCrashAny(latest) == \E S \in SUBSET (KnownSet \ {latest}) : \E A \in (SUBSET S) \ {{}} :
                                 \E K \in Skips(Archived(cur, arch, A)[1]) : UnregisterCrash(latest, S, A, K)
DoUnregisterCrash == \E latest \in Wallets \cup {0} : UnregisterCrashAny(latest)
DoRestart         == \E K \in Skips(cur) : Restart(K)

Next == DoRegisterOk \/ DoRegisterFail \/ DoRegisterCrash
        \/ DoArchiveOk \/ DoArchiveFail \/ DoArchiveMissing \/ DoArchiveCrash
        \/ DoUnregister \/ DoUnregisterCrash \/ DoRestart

Spec == Init /\ [][Next]_vars

---------------------------------------------------------------------------
\* C38

\* the node knows exactly what is persisted and not archived - except for
\* entries the last restart could not read
CacheIsStorage ==
    \A w \in Wallets : /\ Range(cache[w]) \subseteq cur[w]
                       /\ cur[w] \ Range(cache[w]) \subseteq {e[2] : e \in {x \in skipped : x[1] = w}}

\* in particular, with a storage that can be read completely
ExactAfterCleanRestart == (skipped = {}) => \A w \in Wallets : Range(cache[w]) = cur[w]

\* a signer is known once
NoDuplicates == \A w \in Wallets : \A a, b \in DOMAIN cache[w] : a # b => cache[w][a] # cache[w][b]

\* archived material is not lost
NothingLost ==
    [][\A w \in Wallets : (cur[w] \cup arch[w]) \subseteq (cur'[w] \cup arch'[w])]_vars

\* the map only ever shows what reached storage first
WriteAhead ==
    [][\A w \in Wallets : Range(cache'[w]) \subseteq cur'[w]]_vars

TypeOK ==
    /\ \A w \in Wallets : cur[w] \subseteq Indexes /\ arch[w] \subseteq Indexes
    /\ \A w \in Wallets : \A k \in DOMAIN cache[w] : cache[w][k] \in Indexes
    /\ skipped \subseteq Entries
=============================================================================
