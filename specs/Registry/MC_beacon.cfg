SPECIFICATION Spec
CONSTANTS
  NumWallets = 2
  NumIndexes = 2
  Flavor = "beacon"
  MaxSaveFail = 1
  MaxArchFail = 1
  MaxRestarts = 1
  MaxReadSkip = 1
  MaxChainErr = 1
INVARIANTS TypeOK CacheIsStorage ExactAfterCleanRestart NoDuplicates
PROPERTIES NothingLost WriteAhead
