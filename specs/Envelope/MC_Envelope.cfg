SPECIFICATION Spec
CONSTANTS
  SecpPeers = {"a", "b"}
  OtherPeers = {"e"}
  BatchLen = 2
INVARIANTS TypeOK Attributed Independent
