SPECIFICATION Spec
CONSTANTS
  SecpPeers = {"a", "b", "sx", "sy"}
  OtherPeers = {"e"}
  BatchLen = 2
INVARIANTS TypeOK Attributed Independent
