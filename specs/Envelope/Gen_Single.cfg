SPECIFICATION Spec
CONSTANTS
  SecpPeers = {"a", "b"}
  OtherPeers = {"e"}
  BatchLen = 1
INVARIANTS Emit Attributed Independent
