SPECIFICATION Spec
CONSTANTS
  SecpPeers = {"a", "b", "sx", "sy"}
  OtherPeers = {"e"}
  BatchLen = 1
INVARIANTS Emit Attributed Independent
