---------------------------- MODULE Gen_Envelope ----------------------------
(* Cases for the replay on the real channel: every batch with its verdicts   *)
(* and deliveries, written when the batch has been processed.                *)
EXTENDS Envelope, TLC, Json, CSV, IOUtils

Emit == (i > Len(batch)) =>
    CSVWrite("%1$s", <<ToJson([batch |-> batch, verdicts |-> verdicts, delivered |-> delivered])>>, "cases.ndjson")
=============================================================================
