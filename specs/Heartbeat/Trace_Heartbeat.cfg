SPECIFICATION TSpec
CONSTANTS
  Wallets <- W3
  Scripts <- RichScripts
  FailureThreshold = 3
  MinActive = 70
  SigningWindow = 300
  ClaimMargin = 25
  MaxSteps = 1000000
CONSTRAINT Hwm
INVARIANTS CounterIsRun ClaimOnlyAfterRun SuccessResets NoClaimUnlessSigned NoClaimOnSigningError DeadlinesOrdered
POSTCONDITION Accepted
