SPECIFICATION GSpec
CONSTANTS
  Wallets <- W2
  Scripts <- AllScripts
  FailureThreshold = 3
  MinActive = 70
  SigningWindow = 300
  ClaimMargin = 25
  MaxSteps = 1
  PresetMax = 3
INVARIANTS Emit
