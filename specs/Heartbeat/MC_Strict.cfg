SPECIFICATION Spec
CONSTANTS
  Wallets <- W2
  Scripts <- CoreScripts
  FailureThreshold = 3
  MinActive = 70
  SigningWindow = 300
  ClaimMargin = 25
  MaxSteps = 6
INVARIANTS StrictRun
