---------------------------- MODULE Gen_Heartbeat ----------------------------
(* Behaviour generation for the conformance replay of Heartbeat.            *)
(* Every sequence of executions over Scripts of length 1..MaxSteps, started  *)
(* from every preset counter state failures \in [Wallets -> 0..PresetMax],   *)
(* is emitted exactly once, grouped by its prefix:                           *)
(*   [init |-> preset counters, prefix |-> <<step...>>,                      *)
(*    next |-> {step for every s in Scripts}]                                *)
(* where step = the script, everything the execution must be observed to do  *)
(* (Result) and the counters of all wallets afterwards.                      *)
EXTENDS MC_Heartbeat, Json, CSV, IOUtils

CONSTANT PresetMax
VARIABLES hist, init0
gvars == <<vars, hist, init0>>

ScriptJson(s) == [w |-> s.w, staking |-> s.staking, valid |-> s.valid, expiryOK |-> s.expiryOK,
                  signErr |-> s.signErr, active |-> s.active, inactive |-> s.inactive,
                  claimErr |-> s.claimErr]

StepOf(f, s) ==
    LET r == Result(f[s.w], s) IN
    [s |-> ScriptJson(s), kind |-> r.kind, err |-> r.err, signed |-> r.signed,
     claimed |-> r.claimed, members |-> r.members, hbFailed |-> r.hbFailed,
     armed |-> r.armed,
     fail |-> [w \in Wallets |-> IF w = s.w THEN r.f2 ELSE f[w]]]

GInit ==
    /\ failures \in [Wallets -> 0..PresetMax]
    /\ decided = [w \in Wallets |-> [i \in 1..failures[w] |-> "L"]]
    /\ strict = failures
    /\ last = None
    /\ steps = 0
    /\ hist = <<>>
    /\ init0 = failures

GExec(s) ==
    /\ steps < MaxSteps - 1
    /\ Exec(s, Result(failures[s.w], s).kind)
    /\ hist' = Append(hist, StepOf(failures, s))
    /\ UNCHANGED init0

GNext == \E s \in Scripts : GExec(s)

GSpec == GInit /\ [][GNext]_gvars

Emit ==
    CSVWrite("%1$s", <<ToJson([init |-> init0, prefix |-> hist,
                               next |-> { StepOf(failures, s) : s \in Scripts }])>>,
             "behaviours.ndjson")
=============================================================================
