---------------------------- MODULE MC_Heartbeat ----------------------------
(* Script alphabets for the exhaustive configurations of Heartbeat.         *)
EXTENDS Heartbeat

W2 == {1, 2}

(* The fields a path does not look at are set to the values that would lead *)
(* to an inactivity claim, so that an execution that skips one of the early *)
(* tests shows.                                                             *)
Dflt(w) == [w |-> w, staking |-> "ok", valid |-> TRUE, expiryOK |-> TRUE, signErr |-> FALSE,
            active |-> 0, inactive |-> {1}, claimErr |-> FALSE]

RichFor(w) ==
    { [Dflt(w) EXCEPT !.staking = k] : k \in {"unstaking", "provider-error", "not-registered", "stake-error"} }
    \cup { [Dflt(w) EXCEPT !.valid = FALSE], [Dflt(w) EXCEPT !.expiryOK = FALSE],
           [Dflt(w) EXCEPT !.signErr = TRUE] }
    \cup { [Dflt(w) EXCEPT !.active = a] : a \in {MinActive, 100} }
    \cup { [Dflt(w) EXCEPT !.active = a, !.inactive = i, !.claimErr = c] :
              a \in {0, MinActive - 1}, i \in {{}, {1}, {2, 3}}, c \in BOOLEAN }
RichScripts == UNION { RichFor(w) : w \in W2 }

CoreFor(w) ==
    { [Dflt(w) EXCEPT !.staking = "unstaking"], [Dflt(w) EXCEPT !.valid = FALSE],
      [Dflt(w) EXCEPT !.signErr = TRUE], [Dflt(w) EXCEPT !.active = MinActive],
      [Dflt(w) EXCEPT !.active = MinActive - 1], [Dflt(w) EXCEPT !.inactive = {2, 3}] }
CoreScripts == UNION { CoreFor(w) : w \in W2 }

SmallFor(w) ==
    { [Dflt(w) EXCEPT !.staking = "unstaking"], [Dflt(w) EXCEPT !.signErr = TRUE],
      [Dflt(w) EXCEPT !.active = MinActive], [Dflt(w) EXCEPT !.active = MinActive - 1, !.inactive = {2, 3}] }
SmallScripts == UNION { SmallFor(w) : w \in W2 }

(* every combination of every field (used with few steps) *)
AllScripts ==
    [w : W2, staking : {"ok", "unstaking", "provider-error", "not-registered", "stake-error"},
     valid : BOOLEAN, expiryOK : BOOLEAN, signErr : BOOLEAN, active : {0, MinActive - 1, MinActive, 100},
     inactive : {{}, {1}, {2, 3}}, claimErr : BOOLEAN]
=============================================================================
