SPECIFICATION Spec
CONSTANTS
  Wallets <- W2
  Scripts <- RichScripts
  FailureThreshold = 3
  MinActive = 70
  SigningWindow = 300
  ClaimMargin = 25
  MaxSteps = 4
INVARIANTS TypeOK CounterIsRun ClaimOnlyAfterRun SuccessResets NoClaimUnlessSigned NoClaimOnSigningError DeadlinesOrdered
PROPERTIES OtherWalletsUntouched
