--------------------------- MODULE Trace_Heartbeat ---------------------------
(* Trace validation of long random runs of the real heartbeatAction.execute  *)
(* (one shared heartbeatFailureCounter, three wallets) against Heartbeat.    *)
(* Events (harness /verif/harness/pkg/tbtc/c36_test.go):                     *)
(*   Reset   a new node (fresh counter) starts                               *)
(*   Exec    one execution: the scripted environment answers (w, staking,    *)
(*           valid, expiryOK, signErr, active, inactive, claimErr) and what  *)
(*           was observed (err class, signed, claimed, members, hbFailed,    *)
(*           armed deadline offsets, the counters of all wallets afterwards) *)
(* Every invariant of Heartbeat is evaluated on every state of the trace.    *)
EXTENDS MC_Heartbeat, TraceKit

VARIABLE l
tvars == <<vars, l>>

W3 == {1, 2, 3}

TInit == Init /\ l = 1 /\ HwmInit

IsEvent(e) == l <= Len(Trace) /\ Trace[l].event = e /\ l' = l + 1

SetOfSeq(q) == { q[i] : i \in 1..Len(q) }

ScriptOf(e) == [w |-> e.w, staking |-> e.staking, valid |-> e.valid, expiryOK |-> e.expiryOK,
                signErr |-> e.signErr, active |-> e.active, inactive |-> SetOfSeq(e.inactive),
                claimErr |-> e.claimErr]

TReset ==
    /\ IsEvent("Reset")
    /\ failures' = [w \in Wallets |-> 0]
    /\ decided' = [w \in Wallets |-> <<>>]
    /\ strict' = [w \in Wallets |-> 0]
    /\ last' = None
    /\ steps' = 0

TExec ==
    /\ IsEvent("Exec")
    /\ LET e == Trace[l]
           s == ScriptOf(e)
           r == Result(failures[s.w], s)
       IN /\ Exec(s, r.kind)
          /\ r.err = e.obsErr
          /\ r.signed = e.obsSigned
          /\ r.claimed = e.obsClaimed
          /\ r.members = SetOfSeq(e.obsMembers)
          /\ r.hbFailed = e.obsHbFailed
          /\ r.armed = e.obsArmed
          /\ \A w \in Wallets : failures'[w] = e.obsFail[w]

TNext == TReset \/ TExec
TSpec == TInit /\ [][TNext]_tvars

Hwm == HwmConstraint(l)
Accepted == HwmAccepted
=============================================================================
