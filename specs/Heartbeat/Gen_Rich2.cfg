SPECIFICATION GSpec
CONSTANTS
  Wallets <- W2
  Scripts <- RichScripts
  FailureThreshold = 3
  MinActive = 70
  SigningWindow = 300
  ClaimMargin = 25
  MaxSteps = 2
  PresetMax = 2
INVARIANTS Emit
