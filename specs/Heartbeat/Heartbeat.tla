----------------------------- MODULE Heartbeat -----------------------------
(***************************************************************************)
(* Heartbeat escalation of pkg/tbtc/heartbeat.go.                          *)
(*                                                                         *)
(* The node keeps one heartbeatFailureCounter (a counter per wallet,       *)
(* shared by all heartbeat actions, node.go) and creates one               *)
(* heartbeatAction per heartbeat proposal.  One execution of               *)
(* heartbeatAction.execute is one step of this specification; which path   *)
(* it takes is decided by the answers of its environment (the `script`):   *)
(*                                                                         *)
(*   isOperatorUnstaking  -> StakingFailed (chain errors / not registered) *)
(*                           Unstaking     (eligible stake = 0)            *)
(*   ValidateHeartbeatProposal             -> InvalidProposal              *)
(*   expiryBlock < claim validity          -> BadExpiry                    *)
(*   signingExecutor.sign returns an error -> SigningError                 *)
(*   active members >= MinActive           -> Success   (counter reset)    *)
(*   active members <  MinActive           -> counter incremented, then    *)
(*        counter < FailureThreshold       -> LowNotYet                    *)
(*        inactive set empty               -> LowUndetermined              *)
(*        otherwise                        -> LowClaim  (claimInactivity)  *)
(*                                                                         *)
(* Counter semantics exactly as coded: incremented by every low-activity   *)
(* heartbeat, reset only by a successful one; executions that end before   *)
(* a signature exists (unstaking, invalid proposal, signing error, ...)    *)
(* neither count nor reset ("Do not count this error as heartbeat          *)
(* inactivity failure", heartbeat.go).                                     *)
(***************************************************************************)
EXTENDS Integers, Sequences, FiniteSets, TLC

CONSTANTS Wallets,           \* wallets handled by the node
          Scripts,           \* environment answers that may occur for one execution
          FailureThreshold,  \* heartbeatConsecutiveFailureThreshold (the property says 3)
          MinActive,         \* heartbeatSigningMinimumActiveMembers (70)
          SigningWindow,     \* heartbeatInactivityClaimValidityBlocks: signing ctx ends at expiry - 300
          ClaimMargin,       \* heartbeatTimeoutSafetyMarginBlocks: claim ctx ends at expiry - 25
          MaxSteps

(* A script:                                                               *)
(*   w        wallet the proposal is for                                   *)
(*   staking  "ok" | "unstaking" | "provider-error" | "not-registered" |   *)
(*            "stake-error"      (OperatorToStakingProvider/EligibleStake) *)
(*   valid    ValidateHeartbeatProposal succeeds                           *)
(*   expiryOK expiryBlock >= SigningWindow                                 *)
(*   signErr  the signing executor returns an error                        *)
(*   active   len(activityReport.activeMembers)                            *)
(*   inactive activityReport.inactiveMembers (members that did not         *)
(*            announce readiness)                                          *)
(*   claimErr claimInactivity returns an error                             *)

VARIABLES failures,   \* heartbeatFailureCounter.counters: wallet -> Nat
          decided,    \* ghost: per wallet, the outcomes of the heartbeats that produced a
                      \* signature so far: "S" (enough active members) / "L" (too few)
          strict,     \* ghost: per wallet, low-activity outcomes since ANY other outcome
          last,       \* what the last execution did (observable behaviour)
          steps

vars == <<failures, decided, strict, last, steps>>

None == [w |-> "none", kind |-> "none"]

Init ==
    /\ failures = [w \in Wallets |-> 0]
    /\ decided = [w \in Wallets |-> <<>>]
    /\ strict = [w \in Wallets |-> 0]
    /\ last = None
    /\ steps = 0

---------------------------------------------------------------------------
(* heartbeatAction.execute as a function of the counter value f of the     *)
(* script's wallet: the path taken, the observable effects and the new     *)
(* counter value.                                                          *)
(*   err     class of the returned error ("nil" = no error)                *)
(*   signed  the signing executor was invoked                              *)
(*   claimed claimInactivity was invoked; members / hbFailed its arguments *)
(*   armed   offsets before the expiry block of the deadlines armed with   *)
(*           withCancelOnBlock, in order                                   *)
Result(f, s) ==
    LET base == [w |-> s.w, script |-> s, signed |-> FALSE, claimed |-> FALSE,
                 members |-> {}, hbFailed |-> FALSE, armed |-> <<>>, f2 |-> f]
    IN
    IF s.staking \in {"provider-error", "not-registered", "stake-error"}
       THEN base @@ [kind |-> "staking-failed", err |-> "unstaking-check"]
    ELSE IF s.staking = "unstaking"
       THEN base @@ [kind |-> "unstaking", err |-> "nil"]
    ELSE IF ~s.valid
       THEN base @@ [kind |-> "invalid", err |-> "invalid-proposal"]
    ELSE IF ~s.expiryOK
       THEN base @@ [kind |-> "bad-expiry", err |-> "invalid-expiry"]
    ELSE IF s.signErr
       THEN [base EXCEPT !.signed = TRUE, !.armed = <<SigningWindow>>]
            @@ [kind |-> "signing-error", err |-> "signing"]
    ELSE IF s.active >= MinActive
       THEN [base EXCEPT !.signed = TRUE, !.armed = <<SigningWindow>>, !.f2 = 0]
            @@ [kind |-> "success", err |-> "nil"]
    ELSE IF f + 1 < FailureThreshold
       THEN [base EXCEPT !.signed = TRUE, !.armed = <<SigningWindow>>, !.f2 = f + 1]
            @@ [kind |-> "low-not-yet", err |-> "nil"]
    ELSE IF s.inactive = {}
       THEN [base EXCEPT !.signed = TRUE, !.armed = <<SigningWindow>>, !.f2 = f + 1]
            @@ [kind |-> "low-undetermined", err |-> "undetermined"]
    ELSE [base EXCEPT !.signed = TRUE, !.armed = <<SigningWindow, ClaimMargin>>, !.f2 = f + 1,
                      !.claimed = TRUE, !.members = s.inactive, !.hbFailed = TRUE]
         @@ [kind |-> "low-claim", err |-> IF s.claimErr THEN "claim" ELSE "nil"]

IsLow(k) == k \in {"low-not-yet", "low-undetermined", "low-claim"}

(* one execution of heartbeatAction.execute with environment s, taking path k *)
Exec(s, k) ==
    LET r == Result(failures[s.w], s) IN
    /\ steps < MaxSteps
    /\ r.kind = k
    /\ steps' = steps + 1
    /\ last' = r
    /\ failures' = [failures EXCEPT ![s.w] = r.f2]
    /\ decided' = [decided EXCEPT ![s.w] =
                      IF k = "success" THEN Append(@, "S")
                      ELSE IF IsLow(k) THEN Append(@, "L") ELSE @]
    /\ strict' = [strict EXCEPT ![s.w] = IF IsLow(k) THEN @ + 1 ELSE 0]

(* one named action per path of execute *)
StakingFailed   == \E s \in Scripts : s.staking \notin {"ok", "unstaking"} /\ Exec(s, "staking-failed")
Unstaking       == \E s \in Scripts : s.staking = "unstaking" /\ Exec(s, "unstaking")
InvalidProposal == \E s \in Scripts : ~s.valid /\ Exec(s, "invalid")
BadExpiry       == \E s \in Scripts : ~s.expiryOK /\ Exec(s, "bad-expiry")
SigningError    == \E s \in Scripts : s.signErr /\ Exec(s, "signing-error")
Success         == \E s \in Scripts : s.active >= MinActive /\ Exec(s, "success")
LowNotYet       == \E s \in Scripts : s.active < MinActive /\ Exec(s, "low-not-yet")
LowUndetermined == \E s \in Scripts : s.inactive = {} /\ Exec(s, "low-undetermined")
LowClaim        == \E s \in Scripts : s.inactive # {} /\ Exec(s, "low-claim")

Next == StakingFailed \/ Unstaking \/ InvalidProposal \/ BadExpiry \/ SigningError
        \/ Success \/ LowNotYet \/ LowUndetermined \/ LowClaim

Spec == Init /\ [][Next]_vars

---------------------------------------------------------------------------
(* Property C36.                                                           *)

(* length of the run of low-activity heartbeats at the end of a wallet's   *)
(* heartbeat outcomes                                                      *)
RECURSIVE LowRun(_)
LowRun(q) == IF q = <<>> \/ q[Len(q)] # "L" THEN 0 ELSE 1 + LowRun(SubSeq(q, 1, Len(q) - 1))

TypeOK ==
    /\ failures \in [Wallets -> 0..MaxSteps]
    /\ steps \in 0..MaxSteps

(* the code's counter is the run of consecutive low-activity heartbeats *)
CounterIsRun == \A w \in Wallets : failures[w] = LowRun(decided[w])

(* a claim is made only on a heartbeat that was signed with too few active *)
(* members and completes a run of at least three such heartbeats of that   *)
(* wallet; it names exactly the members that did not announce readiness    *)
(* and is marked as a heartbeat failure                                    *)
ClaimOnlyAfterRun ==
    (last # None /\ last.claimed) =>
        /\ last.kind = "low-claim"
        /\ last.signed
        /\ last.script.active < MinActive
        /\ LowRun(decided[last.w]) >= 3
        /\ last.members = last.script.inactive
        /\ last.members # {}
        /\ last.hbFailed

(* a successful heartbeat resets the run *)
SuccessResets ==
    (last # None /\ last.kind = "success") => failures[last.w] = 0

(* no claim -- and no signing -- while unstaking or when the proposal is invalid *)
NoClaimUnlessSigned ==
    (last # None /\ last.kind \in {"staking-failed", "unstaking", "invalid", "bad-expiry"}) =>
        (~last.claimed /\ ~last.signed)
NoClaimOnSigningError ==
    (last # None /\ last.kind = "signing-error") => ~last.claimed

(* the claim's deadline is armed after, and later than, the signing deadline *)
DeadlinesOrdered ==
    (last # None /\ last.claimed) => (last.armed = <<SigningWindow, ClaimMargin>> /\ ClaimMargin < SigningWindow)

(* an execution touches only its own wallet's counter *)
OtherWalletsUntouchedStep ==
    \A w \in Wallets : (last' # None /\ w # last'.w) => failures'[w] = failures[w]
OtherWalletsUntouched == [][OtherWalletsUntouchedStep]_vars

(* NOT a property of the code (kept to document the reading of            *)
(* "consecutive"): a claim completes three low-activity outcomes with no   *)
(* other outcome of that wallet in between.  low, low, signing error, low  *)
(* claims.                                                                 *)
StrictRun == (last # None /\ last.claimed) => strict[last.w] >= 3
=============================================================================
