SPECIFICATION GSpec
CONSTANTS
  Wallets <- W2
  Scripts <- SmallScripts
  FailureThreshold = 3
  MinActive = 70
  SigningWindow = 300
  ClaimMargin = 25
  MaxSteps = 6
  PresetMax = 0
INVARIANTS Emit
