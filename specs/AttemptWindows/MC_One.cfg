SPECIFICATION Spec
CONSTANTS
  SDelay = 1
  SActive = 5
  SProtocol = 30
  SMax = 41
  DDelay = 1
  DActive = 10
  DProtocol = 200
  DMax = 216
  Procs = {1}
  Kinds = {"signing", "dkg"}
  GroupSize = 3
  Need = 2
  Start0 = 100
  Limits = {0, 1, 2}
  MaxAttempts = 3
INVARIANTS TypeOK WindowClosedForm SameOnEveryMember NumberedConsecutively NonOverlapping OnlyCurrentWindow
  ParamsExact SpawnedAreBoundaries LimitRespected ResultWindow ConstantsSane
CONSTRAINT FewPendingWaiters
