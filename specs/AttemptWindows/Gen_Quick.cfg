SPECIFICATION GSpec
CONSTANTS
  SDelay = 1
  SActive = 2
  SProtocol = 3
  SMax = 7
  DDelay = 1
  DActive = 2
  DProtocol = 3
  DMax = 7
  Procs = {1}
  Kinds = {"signing", "dkg"}
  GroupSize = 5
  Need = 3
  Start0 = 100
  Limits = {0, 2}
  MaxAttempts = 3
  OffsetNames = {"end-1", "end", "end+max"}
INVARIANTS Emit
