------------------------ MODULE Trace_AttemptWindows ------------------------
(* Trace validation of real signingRetryLoop.start / dkgRetryLoop.start    *)
(* runs against AttemptWindows, with the window constants read from the    *)
(* built code.  One loop per run (Procs = {1}); events are what the loop   *)
(* asked of its (fake) environment, recorded by                            *)
(* /verif/harness/pkg/tbtc/c11_test.go:                                    *)
(*   Reset(kind, start, member, gsize, need, limit)                        *)
(*   CurrentBlock(block, err)        getCurrentBlockFn                     *)
(*   WaitMain(block, err, late)      waitForBlockFn on the loop's goroutine*)
(*   Waiter(block)                   waitForBlockFn on a spawned goroutine *)
(*   Cancel                          the harness cancelled the context     *)
(*   Announce(attempt, member, err, ready, live, ctxDone)                  *)
(*   Listen(attempt, timeout, included, live)      doneCheck.listen        *)
(*   Attempt(number, startBlock, timeoutBlock, excluded, err)              *)
(*   SignalDone(attempt, err) / WaitAllDone(err)                           *)
(*   Return(kind, attempt, timeoutBlock, active, inactive)                 *)
(*   End                             the run is over                       *)
(* Not logged (silent steps TLC infers): the top of the loop body          *)
(* (BeginAttempt) and, for key generation, the member selection.           *)
EXTENDS AttemptWindows, TraceKit

VARIABLE l
tvars == <<vars, l>>

P == CHOOSE p \in Procs : TRUE
Rng(s) == {s[i] : i \in DOMAIN s}

TInit == Init /\ l = 1 /\ HwmInit

IsEvent(e) == l <= Len(Trace) /\ Trace[l].event = e /\ l' = l + 1
Ev == Trace[l]

TReset ==
    /\ IsEvent("Reset")
    /\ kind' = Ev.kind /\ gsize' = Ev.gsize /\ need' = Ev.need /\ start0' = Ev.start /\ limit' = Ev.limit
    /\ self' = [p \in Procs |-> Ev.member]
    /\ pc' = [p \in Procs |-> "top"] /\ attempt' = [p \in Procs |-> 0]
    /\ startBlk' = [p \in Procs |-> Ev.start] /\ cur' = [p \in Procs |-> 0]
    /\ late' = [p \in Procs |-> FALSE] /\ cancelled' = [p \in Procs |-> FALSE]
    /\ waiters' = [p \in Procs |-> {}] /\ ready' = [p \in Procs |-> {}] /\ inc' = [p \in Procs |-> {}]
    /\ entry' = [p \in Procs |-> NoEntry] /\ prevTimeout' = [p \in Procs |-> -1]
    /\ ret' = [p \in Procs |-> NoRet]

\* silent: attemptCounter++, context / limit check, next start block
TBegin == BeginAttempt(P) /\ UNCHANGED l

TCurrentBlock ==
    /\ IsEvent("CurrentBlock")
    /\ IF Ev.err THEN ObserveErr(P) ELSE Observe(P, Ev.block)

TWaitMain ==
    /\ IsEvent("WaitMain")
    /\ pc[P] = "waitStart" /\ Ev.block = W(P).annStart
    /\ IF Ev.err THEN WaitStartErr(P) ELSE WaitStart(P, Ev.late)

TWaiter == IsEvent("Waiter") /\ WaiterAsks(P, Ev.block)

TCancel == IsEvent("Cancel") /\ Cancel(P)

TAnnounce ==
    /\ IsEvent("Announce")
    /\ pc[P] = "announce"
    /\ Ev.attempt = attempt[P] /\ Ev.member = self[P]
    \* the announcement context is alive while the window is open, and is
    \* cancelled once the wake-up at the announcement end block returned
    /\ (~late[P] /\ ~cancelled[P]) => Ev.live
    /\ late[P] => Ev.ctxDone
    /\ IF Ev.err THEN AnnounceErr(P) ELSE Announce(P, Rng(Ev.ready))

\* signing: doneCheck.listen(attempt number, timeout block, included members)
TListen ==
    /\ IsEvent("Listen")
    /\ kind = "signing"
    /\ Ev.attempt = attempt[P] /\ Ev.timeout = W(P).timeout
    /\ Select(P, Rng(Ev.included))

\* key generation: the selection is not visible until the attempt function
\* is (or is not) called
TSelectSilent == kind = "dkg" /\ (\E I \in SUBSET Group : Select(P, I)) /\ UNCHANGED l
TSelectErrSilent == SelectErr(P) /\ UNCHANGED l

TAttempt ==
    /\ IsEvent("Attempt")
    /\ pc[P] = "attempt"
    /\ Ev.number = Params(P).number /\ Ev.startBlock = Params(P).startBlock
    /\ Ev.timeoutBlock = Params(P).timeoutBlock /\ Rng(Ev.excluded) = Params(P).excluded
    /\ IF Ev.err THEN AttemptErr(P) ELSE AttemptOk(P)

TSignalDone ==
    /\ IsEvent("SignalDone")
    /\ Ev.attempt = attempt[P]
    /\ IF Ev.err THEN SignalErr(P) ELSE SignalOk(P)

TWaitAllDone ==
    /\ IsEvent("WaitAllDone")
    /\ IF Ev.err THEN DoneWaitErr(P) ELSE DoneWaitOk(P)

TReturn ==
    /\ IsEvent("Return")
    /\ pc[P] = "done" /\ ret[P].kind = Ev.kind
    /\ (Ev.kind = "result" /\ kind = "signing") =>
          /\ Ev.timeoutBlock = ret[P].timeoutBlock
          /\ Rng(Ev.active) = ret[P].active /\ Rng(Ev.inactive) = ret[P].inactive
    /\ UNCHANGED vars

\* every goroutine the loop spawned has asked for its wake-up
TEnd == IsEvent("End") /\ pc[P] = "done" /\ waiters[P] = {} /\ UNCHANGED vars

TNext == \/ TReset \/ TBegin \/ TCurrentBlock \/ TWaitMain \/ TWaiter \/ TCancel \/ TAnnounce
         \/ TListen \/ TSelectSilent \/ TSelectErrSilent \/ TAttempt \/ TSignalDone
         \/ TWaitAllDone \/ TReturn \/ TEnd
TSpec == TInit /\ [][TNext]_tvars

Hwm == HwmConstraint(l)
Accepted == HwmAccepted
=============================================================================
