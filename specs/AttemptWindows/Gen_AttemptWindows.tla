------------------------ MODULE Gen_AttemptWindows ------------------------
(* Script generation for the C11 harness: every failure history of ONE     *)
(* loop (up to MaxAttempts attempts) as the sequence of the environment's  *)
(* answers.  The harness plays the script against the real                 *)
(* signingRetryLoop.start / dkgRetryLoop.start; what the loop does is      *)
(* recorded and validated by Trace_AttemptWindows with the window          *)
(* constants read from the built code (the constants used here only shape  *)
(* the scripts: observations are emitted symbolically, relative to the     *)
(* attempt's window).                                                      *)
(*                                                                         *)
(* Answers are restricted to those a harness can realize with the real     *)
(* member selection (C10):                                                 *)
(*   ready list "all" (everyone), "others" (all but the member), "exact"   *)
(*   (the member plus need-1 others), "few" (one short), "self" (dkg, the  *)
(*   window was over: an announcer honouring its context sees only the     *)
(*   member);  whether the member is included ("in") is steered by the     *)
(*   harness through the message / seed where the selection leaves a       *)
(*   choice, and forced where it does not (dkg first attempt takes every   *)
(*   ready member; "exact" leaves no retry exclusion for a dkg attempt > 1 *)
(*   = selection error).                                                   *)
(* Spawned goroutines' wake-up requests are not environment answers and    *)
(* do not appear in scripts.  The context is cancelled while an            *)
(* announcement is running, or when MaxAttempts attempts were started.     *)
EXTENDS AttemptWindows, TLC, Json, CSV, IOUtils

VARIABLE hist
gvars == <<vars, hist>>

P == CHOOSE p \in Procs : TRUE
Me == self[P]
Step(r) == hist' = Append(hist, r)

RECURSIVE Lowest(_, _)
Lowest(S, k) == IF k <= 0 \/ S = {} THEN {}
                ELSE LET m == CHOOSE x \in S : \A y \in S : x <= y IN {m} \cup Lowest(S \ {m}, k - 1)

Others == Group \ {Me}
ReadyNamed(nm) ==
    CASE nm = "all"    -> Group
      [] nm = "others" -> Others
      [] nm = "exact"  -> {Me} \cup Lowest(Others, need - 1)
      [] nm = "few"    -> {Me} \cup Lowest(Others, need - 2)
      [] nm = "self"   -> {Me}

OffsetNamed(nm) ==
    CASE nm = "start"        -> 0 - (C.delay + C.active)
      [] nm = "end-1"        -> -1
      [] nm = "end"          -> 0
      [] nm = "end+1"        -> 1
      [] nm = "end+max"      -> C.max
      [] nm = "end+2max+1"   -> 2 * C.max + 1
CONSTANT OffsetNames   \* subset of {"start", "end-1", "end", "end+1", "end+max", "end+2max+1"}

\* (scripts name members relative to the loop's own member; the harness
\* chooses the member index)
GInit == Init /\ self[P] = 1 /\ hist = <<>>

\* which inclusion outcomes the real selection can produce for the ready list
CanBeIn(nm)  == /\ Me \in ReadyNamed(nm)
CanBeOut(nm) == \/ Me \notin ReadyNamed(nm)
                \/ (nm = "all" /\ ~(kind = "dkg" /\ attempt[P] = 1) /\ gsize > need)
IncludedSet(nm, in) ==
    IF in THEN (IF kind = "dkg" /\ attempt[P] = 1 THEN ReadyNamed(nm)
                ELSE {Me} \cup Lowest(ReadyNamed(nm) \ {Me}, need - 1))
    ELSE Lowest(ReadyNamed(nm) \ {Me}, need)

GNext ==
    \/ BeginAttempt(P) /\ UNCHANGED hist
    \/ ObserveErr(P) /\ Step([a |-> "ObserveErr"])
    \/ \E nm \in OffsetNames : Observe(P, W(P).annEnd + OffsetNamed(nm)) /\ Step([a |-> "Observe", at |-> nm])
    \/ WaitStartErr(P) /\ Step([a |-> "WaitStartErr"])
    \/ \E l \in BOOLEAN : WaitStart(P, l) /\ Step([a |-> "WaitStart", late |-> l])
    \/ AnnounceErr(P) /\ Step([a |-> "AnnounceErr"])
    \/ \E nm \in {"all", "others", "exact", "few", "self"} :
          /\ (nm = "self") <=> late[P]
          /\ Announce(P, ReadyNamed(nm))
          /\ Step([a |-> "Announce", ready |-> nm])
    \/ /\ pc[P] = "selected" /\ hist[Len(hist)].ready = "exact" /\ attempt[P] >= 2
       /\ SelectErr(P) /\ Step([a |-> "SelectErr"])
    \/ \E in \in BOOLEAN :
          LET nm == hist[Len(hist)].ready IN
          /\ pc[P] = "selected"
          /\ ~(kind = "dkg" /\ nm = "exact" /\ attempt[P] >= 2)
          /\ IF in THEN CanBeIn(nm) ELSE CanBeOut(nm)
          /\ Select(P, IncludedSet(nm, in))
          /\ Step([a |-> "Select", in |-> in])
    \/ AttemptErr(P) /\ Step([a |-> "AttemptErr"])
    \/ AttemptOk(P) /\ Step([a |-> "AttemptOk"])
    \/ SignalErr(P) /\ Step([a |-> "SignalErr"])
    \/ SignalOk(P) /\ Step([a |-> "SignalOk"])
    \/ DoneWaitErr(P) /\ Step([a |-> "DoneWaitErr"])
    \/ DoneWaitOk(P) /\ Step([a |-> "DoneWaitOk"])
    \/ /\ pc[P] = "announce" \/ (pc[P] = "top" /\ attempt[P] = MaxAttempts)
       /\ Cancel(P) /\ Step([a |-> "Cancel"])

GSpec == GInit /\ [][GNext]_gvars

\* the script is complete: the loop returned, or (dkg) it was cancelled at
\* the top of the loop after the last modelled attempt
Complete == pc[P] = "done" \/ (pc[P] = "top" /\ attempt[P] = MaxAttempts /\ cancelled[P])

Emit ==
    Complete => CSVWrite("%1$s", <<ToJson([kind |-> kind, limit |-> limit, member |-> Me, gsize |-> gsize,
                                           need |-> need, steps |-> hist])>>, "scripts.ndjson")
=============================================================================
