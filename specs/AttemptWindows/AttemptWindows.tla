---------------------------- MODULE AttemptWindows ----------------------------
(***************************************************************************)
(* Block windows of the attempts of the signing and key-generation retry   *)
(* loops:  pkg/tbtc/signing_loop.go signingRetryLoop.start                 *)
(*         pkg/tbtc/dkg_loop.go     dkgRetryLoop.start                     *)
(*                                                                         *)
(* Every member of a wallet runs its own loop from the same start block.   *)
(* A loop is a sequential process; the environment (chain, announcer,      *)
(* attempt function, done check, context) answers its calls.  One action   *)
(* per call / decision of the Go code; the environment's answers are the   *)
(* nondeterministic parameters, so a behaviour is a failure history.       *)
(*                                                                         *)
(*   attempt n:  start(n)     = start0 + (n-1) * MaxBlocks                 *)
(*               annStart(n)  = start(n) + Delay                           *)
(*               annEnd(n)    = annStart(n) + Active                       *)
(*               timeout(n)   = annEnd(n) + Protocol                       *)
(* (the code keeps a running start block and adds MaxBlocks per attempt;   *)
(* the closed form is the invariant WindowClosedForm).                     *)
(*                                                                         *)
(* The window constants are CONSTANTS: the engine reads them from the      *)
(* built code and passes them in, for both loop kinds.                     *)
(*                                                                         *)
(* Processes p \in Procs stand for loops of different members with         *)
(* independent failure histories.  Member selection itself is C10: here    *)
(* the included set of an attempt is an environment choice.                *)
(***************************************************************************)
EXTENDS Integers, Sequences, FiniteSets

CONSTANTS SDelay, SActive, SProtocol, SMax,    \* signing: announcement delay / active, protocol, attempt maximum blocks
          DDelay, DActive, DProtocol, DMax,    \* key generation
          Procs,          \* loop processes
          Kinds,          \* subset of {"signing", "dkg"} explored from Init
          GroupSize, Need,\* group size, honest threshold / quorum (Init)
          Start0,         \* initial start block (Init)
          Limits,         \* dkg attempt limits explored from Init (0 = none)
          MaxAttempts     \* the context is cancelled at the latest when this many attempts were started

VARIABLES kind, gsize, need, start0, limit,   \* inputs (same for every process)
          self,       \* p -> member index of the loop
          pc,         \* p -> control point
          attempt,    \* p -> attemptCounter
          startBlk,   \* p -> attemptStartBlock
          cur,        \* p -> last observed current block (signing)
          late,       \* p -> dkg: the announcement window was already over when the member got there
          cancelled,  \* p -> the loop's context is done
          waiters,    \* p -> blocks for which a cancel-on-block goroutine was spawned and has not yet asked
          ready,      \* p -> ready members reported by the last announcement
          inc,        \* p -> members included in the current attempt
          entry,      \* p -> record of the current attempt (for the invariants; history is not kept:
                      \*      every invariant is about the current attempt or two consecutive ones)
          prevTimeout,\* p -> timeout block of the previous attempt (-1: none)
          ret         \* p -> value returned by start

vars == <<kind, gsize, need, start0, limit, self, pc, attempt, startBlk, cur, late, cancelled, waiters, ready, inc, entry, prevTimeout, ret>>
inputs == <<kind, gsize, need, start0, limit, self>>

C == IF kind = "signing"
        THEN [delay |-> SDelay, active |-> SActive, protocol |-> SProtocol, max |-> SMax]
        ELSE [delay |-> DDelay, active |-> DActive, protocol |-> DProtocol, max |-> DMax]

Group == 1..gsize

\* closed form of the windows
StartOf(n)  == start0 + (n - 1) * C.max
AnnStart(n) == StartOf(n) + C.delay
AnnEnd(n)   == AnnStart(n) + C.active
Timeout(n)  == AnnEnd(n) + C.protocol

\* the windows as the code computes them from its running start block
W(p) == [annStart |-> startBlk[p] + C.delay,
         annEnd   |-> startBlk[p] + C.delay + C.active,
         timeout  |-> startBlk[p] + C.delay + C.active + C.protocol]

NoRet == [kind |-> "none"]
Entry(p, n, sb) ==
    [n |-> n, annStart |-> sb + C.delay, annEnd |-> sb + C.delay + C.active,
     timeout |-> sb + C.delay + C.active + C.protocol,
     observed |-> -1, announced |-> FALSE, late |-> FALSE, attempted |-> FALSE, params |-> <<>>]

NoEntry == [n |-> 0]

Init ==
    /\ kind \in Kinds /\ gsize = GroupSize /\ need = Need /\ start0 = Start0
    /\ limit \in (IF kind = "dkg" THEN Limits ELSE {0})
    /\ self \in {f \in [Procs -> 1..GroupSize] : \A p, q \in Procs : p # q => f[p] # f[q]}
    /\ pc = [p \in Procs |-> "top"]
    /\ attempt = [p \in Procs |-> 0]
    /\ startBlk = [p \in Procs |-> Start0]
    /\ cur = [p \in Procs |-> 0]
    /\ late = [p \in Procs |-> FALSE]
    /\ cancelled = [p \in Procs |-> FALSE]
    /\ waiters = [p \in Procs |-> {}]
    /\ ready = [p \in Procs |-> {}]
    /\ inc = [p \in Procs |-> {}]
    /\ entry = [p \in Procs |-> NoEntry]
    /\ prevTimeout = [p \in Procs |-> -1]
    /\ ret = [p \in Procs |-> NoRet]

Goto(p, l) == pc' = [pc EXCEPT ![p] = l]
Return(p, v) == ret' = [ret EXCEPT ![p] = v] /\ Goto(p, "done")

---------------------------------------------------------------------------
(* Top of the loop body.                                                   *)

\* attemptCounter++ ; (signing) ctx check ; (dkg) limit check ; advance the start block
NextStart(p) == IF attempt[p] + 1 > 1 THEN startBlk[p] + C.max ELSE startBlk[p]

BeginAttempt(p) ==
    /\ pc[p] = "top"
    \* (bound of the model; a cancelled signing loop returns right here, a key
    \* generation loop does not look at its context at this point)
    /\ attempt[p] < MaxAttempts \/ (cancelled[p] /\ kind = "signing")
    /\ attempt' = [attempt EXCEPT ![p] = @ + 1]
    /\ IF kind = "signing" /\ cancelled[p]
          THEN /\ Return(p, [kind |-> "ctx"])
               /\ UNCHANGED <<startBlk, entry, prevTimeout>>
       ELSE IF kind = "dkg" /\ limit # 0 /\ attempt[p] + 1 > limit
          THEN /\ Return(p, [kind |-> "limit"])
               /\ UNCHANGED <<startBlk, entry, prevTimeout>>
       ELSE /\ startBlk' = [startBlk EXCEPT ![p] = NextStart(p)]
            /\ entry' = [entry EXCEPT ![p] = Entry(p, attempt[p] + 1, NextStart(p))]
            /\ prevTimeout' = [prevTimeout EXCEPT ![p] = IF entry[p].n = 0 THEN -1 ELSE entry[p].timeout]
            /\ Goto(p, IF kind = "signing" THEN "observe" ELSE "waitStart")
            /\ UNCHANGED ret
    \* (ready, included and late are locals of the loop body)
    /\ ready' = [ready EXCEPT ![p] = {}] /\ inc' = [inc EXCEPT ![p] = {}] /\ late' = [late EXCEPT ![p] = FALSE]
    /\ UNCHANGED <<inputs, cur, cancelled, waiters>>

---------------------------------------------------------------------------
(* Signing only: getCurrentBlockFn and the "announcement phase is in the   *)
(* past" check.                                                            *)

ObserveErr(p) ==
    /\ kind = "signing" /\ pc[p] = "observe"
    /\ Goto(p, "top")
    /\ UNCHANGED <<inputs, attempt, startBlk, cur, late, cancelled, waiters, ready, inc, entry, prevTimeout, ret>>

Observe(p, b) ==
    /\ kind = "signing" /\ pc[p] = "observe"
    /\ b >= cur[p]                                  \* the chain does not go back
    /\ cur' = [cur EXCEPT ![p] = b]
    /\ entry' = [entry EXCEPT ![p].observed = b]
    /\ UNCHANGED prevTimeout
    /\ Goto(p, IF W(p).annEnd <= b THEN "top" ELSE "waitStart")   \* skipped: window passed
    /\ UNCHANGED <<inputs, attempt, startBlk, late, cancelled, waiters, ready, inc, ret>>

---------------------------------------------------------------------------
(* waitForBlockFn(ctx, announcementStartBlock) on the loop's own goroutine.*)

WaitStartErr(p) ==
    /\ pc[p] = "waitStart"
    /\ IF kind = "signing" THEN Goto(p, "top") /\ UNCHANGED ret
       ELSE Return(p, [kind |-> "waiterr"])
    /\ UNCHANGED <<inputs, attempt, startBlk, cur, late, cancelled, waiters, ready, inc, entry, prevTimeout>>

\* the wait returned; a goroutine that cancels the announcement context at
\* announcementEndBlock is spawned.  l (dkg): the window is already over.
WaitStart(p, l) ==
    /\ pc[p] = "waitStart"
    /\ kind = "signing" => l = FALSE              \* (signing checked the current block itself)
    /\ late' = [late EXCEPT ![p] = l]
    /\ waiters' = [waiters EXCEPT ![p] = @ \cup {W(p).annEnd}]
    /\ Goto(p, "announce")
    /\ UNCHANGED <<inputs, attempt, startBlk, cur, cancelled, ready, inc, entry, prevTimeout, ret>>

\* a spawned goroutine calls waitForBlockFn(ctx, b)
WaiterAsks(p, b) ==
    /\ b \in waiters[p]
    /\ waiters' = [waiters EXCEPT ![p] = @ \ {b}]
    /\ UNCHANGED <<inputs, pc, attempt, startBlk, cur, late, cancelled, ready, inc, entry, prevTimeout, ret>>

---------------------------------------------------------------------------
(* Announcement.                                                           *)

AnnounceErr(p) ==
    /\ pc[p] = "announce"
    /\ entry' = [entry EXCEPT ![p].announced = TRUE]
    /\ UNCHANGED prevTimeout
    /\ Goto(p, "top")
    /\ UNCHANGED <<inputs, attempt, startBlk, cur, late, cancelled, waiters, ready, inc, ret>>

\* the announcer returned the ready members R.  An announcer that honours
\* its context reports only the member itself when the window was over.
Announce(p, R) ==
    /\ pc[p] = "announce"
    /\ R \subseteq Group
    /\ late[p] => R = {self[p]}
    /\ ready' = [ready EXCEPT ![p] = R]
    /\ entry' = [entry EXCEPT ![p] = [@ EXCEPT !.announced = TRUE, !.late = late[p]]]
    /\ UNCHANGED prevTimeout
    /\ IF cancelled[p] THEN Return(p, [kind |-> "ctx"])
       ELSE IF Cardinality(R) < need THEN Goto(p, "top") /\ UNCHANGED ret
       ELSE Goto(p, "selected") /\ UNCHANGED ret
    /\ UNCHANGED <<inputs, attempt, startBlk, cur, late, cancelled, waiters, inc>>

---------------------------------------------------------------------------
(* Member selection (C10) and what follows from it.                        *)

\* key generation only: the retry selection ran out of exclusions
SelectErr(p) ==
    /\ kind = "dkg" /\ pc[p] = "selected"
    /\ Return(p, [kind |-> "selecterr"])
    /\ UNCHANGED <<inputs, attempt, startBlk, cur, late, cancelled, waiters, ready, inc, entry, prevTimeout>>

\* included members I (ready ones).  Signing: a goroutine cancelling the
\* done-check context at the timeout block is spawned and doneCheck.listen
\* is told attempt number, timeout block and I.  A member that is not
\* included skips the attempt.
Select(p, I) ==
    /\ pc[p] = "selected"
    /\ I \subseteq ready[p] /\ Cardinality(I) >= need
    /\ kind = "signing" => Cardinality(I) = need
    /\ inc' = [inc EXCEPT ![p] = I]
    /\ IF kind = "signing"
          THEN /\ waiters' = [waiters EXCEPT ![p] = @ \cup {W(p).timeout}]
               /\ Goto(p, IF self[p] \in I THEN "attempt" ELSE "doneWait")
          ELSE /\ UNCHANGED waiters
               /\ Goto(p, IF self[p] \in I THEN "attempt" ELSE "top")
    /\ UNCHANGED <<inputs, attempt, startBlk, cur, late, cancelled, ready, entry, prevTimeout, ret>>

Params(p) == [number |-> attempt[p], startBlock |-> W(p).annEnd, timeoutBlock |-> W(p).timeout,
              excluded |-> Group \ inc[p]]

\* the attempt function is called with the attempt's parameters and fails
AttemptErr(p) ==
    /\ pc[p] = "attempt"
    /\ entry' = [entry EXCEPT ![p] = [@ EXCEPT !.attempted = TRUE, !.params = Params(p)]]
    /\ UNCHANGED prevTimeout
    /\ Goto(p, "top")
    /\ UNCHANGED <<inputs, attempt, startBlk, cur, late, cancelled, waiters, ready, inc, ret>>

\* ... and succeeds: key generation returns the result, signing goes on to
\* the done check
AttemptOk(p) ==
    /\ pc[p] = "attempt"
    /\ entry' = [entry EXCEPT ![p] = [@ EXCEPT !.attempted = TRUE, !.params = Params(p)]]
    /\ UNCHANGED prevTimeout
    /\ IF kind = "dkg" THEN Return(p, [kind |-> "result", attempt |-> attempt[p]])
       ELSE Goto(p, "signal") /\ UNCHANGED ret
    /\ UNCHANGED <<inputs, attempt, startBlk, cur, late, cancelled, waiters, ready, inc>>

SignalErr(p) ==
    /\ kind = "signing" /\ pc[p] = "signal"
    /\ Goto(p, "top")
    /\ UNCHANGED <<inputs, attempt, startBlk, cur, late, cancelled, waiters, ready, inc, entry, prevTimeout, ret>>

SignalOk(p) ==
    /\ kind = "signing" /\ pc[p] = "signal"
    /\ Goto(p, "doneWait")
    /\ UNCHANGED <<inputs, attempt, startBlk, cur, late, cancelled, waiters, ready, inc, entry, prevTimeout, ret>>

DoneWaitErr(p) ==
    /\ kind = "signing" /\ pc[p] = "doneWait"
    /\ Goto(p, "top")
    /\ UNCHANGED <<inputs, attempt, startBlk, cur, late, cancelled, waiters, ready, inc, entry, prevTimeout, ret>>

\* every included member confirmed: the loop returns the result, the
\* attempt's timeout block and the activity report
DoneWaitOk(p) ==
    /\ kind = "signing" /\ pc[p] = "doneWait"
    /\ Return(p, [kind |-> "result", attempt |-> attempt[p], timeoutBlock |-> W(p).timeout,
                  active |-> ready[p], inactive |-> Group \ ready[p]])
    /\ UNCHANGED <<inputs, attempt, startBlk, cur, late, cancelled, waiters, ready, inc, entry, prevTimeout>>

\* the loop's context is cancelled (timeout of the whole loop, shutdown)
Cancel(p) ==
    /\ pc[p] # "done" /\ ~cancelled[p]
    /\ cancelled' = [cancelled EXCEPT ![p] = TRUE]
    /\ UNCHANGED <<inputs, pc, attempt, startBlk, cur, late, waiters, ready, inc, entry, prevTimeout, ret>>

---------------------------------------------------------------------------
\* signing: the current-block observations explored, relative to the end of
\* the attempt's announcement window: the attempt's start block, just before
\* the end, the end, just after, one and two attempts later (late start)
CurOffsets == {0 - (C.delay + C.active), -1, 0, 1, C.max, 2 * C.max + 1}
ObservationsOf(p) == {W(p).annEnd + d : d \in CurOffsets}
ReadySets == SUBSET Group

DoBeginAttempt == \E p \in Procs : BeginAttempt(p)
DoObserveErr   == \E p \in Procs : ObserveErr(p)
DoObserve      == \E p \in Procs : \E b \in ObservationsOf(p) : Observe(p, b)
DoWaitStartErr == \E p \in Procs : WaitStartErr(p)
DoWaitStart    == \E p \in Procs : \E l \in BOOLEAN : WaitStart(p, l)
DoWaiterAsks   == \E p \in Procs : \E b \in waiters[p] : WaiterAsks(p, b)
DoAnnounceErr  == \E p \in Procs : AnnounceErr(p)
DoAnnounce     == \E p \in Procs : \E R \in ReadySets : Announce(p, R)
DoSelectErr    == \E p \in Procs : SelectErr(p)
DoSelect       == \E p \in Procs : \E I \in ReadySets : Select(p, I)
DoAttemptErr   == \E p \in Procs : AttemptErr(p)
DoAttemptOk    == \E p \in Procs : AttemptOk(p)
DoSignalErr    == \E p \in Procs : SignalErr(p)
DoSignalOk     == \E p \in Procs : SignalOk(p)
DoDoneWaitErr  == \E p \in Procs : DoneWaitErr(p)
DoDoneWaitOk   == \E p \in Procs : DoneWaitOk(p)
DoCancel       == \E p \in Procs : Cancel(p)

Next == \/ DoBeginAttempt \/ DoObserveErr \/ DoObserve \/ DoWaitStartErr \/ DoWaitStart
        \/ DoWaiterAsks \/ DoAnnounceErr \/ DoAnnounce \/ DoSelectErr \/ DoSelect
        \/ DoAttemptErr \/ DoAttemptOk \/ DoSignalErr \/ DoSignalOk \/ DoDoneWaitErr
        \/ DoDoneWaitOk \/ DoCancel

Spec == Init /\ [][Next]_vars

---------------------------------------------------------------------------
(* C11.                                                                    *)

Started == {p \in Procs : entry[p].n > 0}

\* attempt n has the closed-form windows, whatever happened before ...
WindowClosedForm ==
    \A p \in Started :
        LET e == entry[p] IN
        e.annStart = AnnStart(e.n) /\ e.annEnd = AnnEnd(e.n) /\ e.timeout = Timeout(e.n)

\* ... hence the same on every member
SameOnEveryMember ==
    \A p, q \in Started :
        entry[p].n = entry[q].n =>
            /\ entry[p].annStart = entry[q].annStart /\ entry[p].annEnd = entry[q].annEnd
            /\ entry[p].timeout = entry[q].timeout

\* attempts are numbered 1, 2, 3, ... without gaps (a skipped or failed
\* attempt still consumes its number and its window)
NumberedConsecutively ==
    \A p \in Procs : pc[p] # "done" => entry[p].n = attempt[p]

\* attempt n+1 begins only after attempt n has timed out
NonOverlapping ==
    \A p \in Started :
        entry[p].n > 1 => (prevTimeout[p] = Timeout(entry[p].n - 1) /\ prevTimeout[p] < entry[p].annStart)

\* a member takes part (announces, runs the attempt function) only in an
\* attempt whose announcement phase had not passed when it looked
OnlyCurrentWindow ==
    \A p \in Started :
        LET e == entry[p] IN
        /\ (kind = "signing" /\ e.announced) => (e.observed >= 0 /\ e.observed < e.annEnd)
        /\ e.attempted => (e.announced /\ ~e.late)

\* the attempt function gets exactly the attempt's window
ParamsExact ==
    \A p \in Started :
        LET e == entry[p] IN
        e.attempted =>
            /\ e.params.number = e.n
            /\ e.params.startBlock = AnnEnd(e.n)
            /\ e.params.timeoutBlock = Timeout(e.n)
            /\ self[p] \notin e.params.excluded

\* the loop only ever asks to be woken at window boundaries of attempts it started
SpawnedAreBoundaries ==
    \A p \in Procs : \A b \in waiters[p] :
        \E k \in 1..attempt[p] : b = AnnEnd(k) \/ (kind = "signing" /\ b = Timeout(k))

\* key generation never goes beyond its attempt limit
LimitRespected ==
    (kind = "dkg" /\ limit # 0) => \A p \in Procs : entry[p].n <= limit

\* a returned result carries the successful attempt's timeout block
ResultWindow ==
    \A p \in Procs :
        (ret[p].kind = "result" /\ kind = "signing") => ret[p].timeoutBlock = Timeout(ret[p].attempt)

\* constant-level: the window arithmetic itself (the cool-down is what is
\* left of MaxBlocks)
ConstantsSane ==
    /\ C.delay >= 0 /\ C.active > 0 /\ C.protocol > 0
    /\ C.max > C.active + C.protocol       \* <=> Timeout(n) < AnnStart(n+1)

\* Model constraint for the larger exhaustive configurations: spawned
\* goroutines ask promptly (they only matter for SpawnedAreBoundaries and
\* for trace validation, not for the loop's control flow)
FewPendingWaiters == \A p \in Procs : Cardinality(waiters[p]) <= 1

\* Model constraint of the quick two-process configuration: no cancellation
\* (cancellation is explored exhaustively in the one-process configurations)
QuietContext == \A p \in Procs : ~cancelled[p]

TypeOK ==
    /\ kind \in {"signing", "dkg"}
    /\ \A p \in Procs :
        /\ pc[p] \in {"top", "observe", "waitStart", "announce", "selected", "attempt", "signal", "doneWait", "done"}
        /\ attempt[p] \in Nat /\ cancelled[p] \in BOOLEAN /\ late[p] \in BOOLEAN
        /\ ret[p].kind \in {"none", "ctx", "limit", "waiterr", "selecterr", "result"}
        /\ (ret[p].kind # "none") <=> (pc[p] = "done")
=============================================================================
