SPECIFICATION Spec
CONSTANTS
  Seats <- SeatsA
  Kinds <- KindsDefault
  MaxMsgs = 2
INVARIANTS TypeOK ReturnedIsLeadersValidProposal FirstValidWins ImpersonationFaultsNameSender MistakeFaultsBlameLeader IdleLeaderIsRecorded SilentFiltersLeaveNoTrace
PROPERTIES Final
