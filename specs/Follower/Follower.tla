------------------------------ MODULE Follower ------------------------------
(***************************************************************************)
(* Coordination follower routine: pkg/tbtc/coordination.go                 *)
(* coordinationExecutor.executeFollowerRoutine (called by coordinate() of  *)
(* every member that is not the leader, with the context cancelled at the  *)
(* end of the active phase and actionsAllowed = checklist ++ <<Noop>>).    *)
(*                                                                         *)
(*   leaderID := wallet.membersByOperator(leader)[0]      lowest seat      *)
(*   for each message m received on the broadcast channel:                 *)
(*     payload not a *coordinationMessage              -> ignore           *)
(*     m.senderID in ce.membersIndexes (own seats)     -> ignore           *)
(*     !IsValidMembership(m.senderID, sender's key)    -> ignore           *)
(*     m.coordinationBlock != this window              -> ignore           *)
(*     m.walletPublicKeyHash != this wallet            -> ignore           *)
(*     m.senderID != leaderID    -> fault(Impersonation, address of the    *)
(*                                  key that SENT the message); ignore     *)
(*     action not in actionsAllowed -> fault(Mistake, leader); ignore      *)
(*     otherwise                 -> return m.proposal, faults, nil         *)
(*   ctx done                    -> fault(Idleness, leader);               *)
(*                                  return nil, faults, error              *)
(*                                                                         *)
(* A message is [cls, win, wal, act]: cls names who really sent it (the    *)
(* network layer authenticates the sender's key) and which seat it claims: *)
(*   LL  leader's key, leader's lowest seat        (the legitimate sender) *)
(*   LH  leader's key, leader's other seat                                 *)
(*   OO  another member's key, that member's own seat                      *)
(*   OL  another member's key claiming the leader's lowest seat            *)
(*   LO  leader's key claiming the other member's seat                     *)
(*   SS  the follower's own key and seat (echo)                            *)
(*   OS  another member's key claiming the follower's seat                 *)
(*   XL  a non-member key claiming the leader's lowest seat                *)
(*   XO  a non-member key claiming the other member's seat                 *)
(*   XS  a non-member key claiming the follower's seat                     *)
(*   L0, L9  leader's key claiming seat 0 / a seat beyond the group        *)
(*   TT  a message of another protocol (wrong payload type)                *)
(***************************************************************************)
EXTENDS Naturals, Sequences, FiniteSets

CONSTANTS Seats,     \* signingGroupOperators: seat -> operator ("L" leader, "O" other, "S" self)
          Kinds,     \* message kinds the adversary may send
          MaxMsgs

VARIABLES hist,      \* messages processed so far
          faults,    \* sequence of [culprit, type]
          result,    \* "none" | "proposal" | "error"
          accepted   \* index into hist of the returned message (0 = none)

vars == <<hist, faults, result, accepted>>

N == Len(Seats)
SeatsOf(op) == {i \in 1..N : Seats[i] = op}
Low(op) == CHOOSE i \in SeatsOf(op) : \A j \in SeatsOf(op) : i <= j
High(op) == CHOOSE i \in SeatsOf(op) : \A j \in SeatsOf(op) : i >= j
LeaderID == Low("L")

\* who sent it (key) and which seat it claims (idx)
Key(m) == CASE m.cls \in {"LL", "LH", "LO", "L0", "L9"} -> "L"
            [] m.cls \in {"OO", "OL", "OS"} -> "O"
            [] m.cls = "SS" -> "S"
            [] m.cls \in {"XL", "XO", "XS"} -> "X"
            [] OTHER -> "L"
Idx(m) == CASE m.cls \in {"LL", "OL", "XL", "TT"} -> Low("L")
            [] m.cls = "LH" -> High("L")
            [] m.cls \in {"OO", "LO", "XO"} -> Low("O")
            [] m.cls \in {"SS", "OS", "XS"} -> Low("S")
            [] m.cls = "L0" -> 0
            [] m.cls = "L9" -> N + 1

IsCoord(m) == m.cls # "TT"
FromSelf(m) == Idx(m) \in SeatsOf("S")
\* group.MembershipValidator.IsValidMembership(senderID, senderPublicKey)
ValidMembership(m) == Idx(m) \in 1..N /\ Seats[Idx(m)] = Key(m)

\* the filter chain, as coded; each predicate assumes the previous ones passed
Passes(m) == IsCoord(m) /\ ~FromSelf(m) /\ ValidMembership(m) /\ m.win = "ok" /\ m.wal = "ok"
Impersonates(m) == Passes(m) /\ Idx(m) # LeaderID
Mistaken(m) == Passes(m) /\ Idx(m) = LeaderID /\ m.act # "allowed"
Valid(m) == Passes(m) /\ Idx(m) = LeaderID /\ m.act = "allowed"

Init == hist = <<>> /\ faults = <<>> /\ result = "none" /\ accepted = 0

Process(m) ==
    /\ result = "none"
    /\ Len(hist) < MaxMsgs
    /\ hist' = Append(hist, m)
    /\ IF ~IsCoord(m) THEN UNCHANGED <<faults, result, accepted>>
       ELSE IF FromSelf(m) THEN UNCHANGED <<faults, result, accepted>>
       ELSE IF ~ValidMembership(m) THEN UNCHANGED <<faults, result, accepted>>
       ELSE IF m.win # "ok" THEN UNCHANGED <<faults, result, accepted>>
       ELSE IF m.wal # "ok" THEN UNCHANGED <<faults, result, accepted>>
       ELSE IF Idx(m) # LeaderID
               THEN /\ faults' = Append(faults, [culprit |-> Key(m), type |-> "Impersonation"])
                    /\ UNCHANGED <<result, accepted>>
       ELSE IF m.act # "allowed"
               THEN /\ faults' = Append(faults, [culprit |-> "L", type |-> "Mistake"])
                    /\ UNCHANGED <<result, accepted>>
       ELSE /\ result' = "proposal"
            /\ accepted' = Len(hist) + 1
            /\ UNCHANGED faults

\* the active phase ended (ctx.Done)
Timeout ==
    /\ result = "none"
    /\ faults' = Append(faults, [culprit |-> "L", type |-> "Idleness"])
    /\ result' = "error"
    /\ UNCHANGED <<hist, accepted>>

DoProcess == \E m \in Kinds : Process(m)
Next == DoProcess \/ Timeout
Spec == Init /\ [][Next]_vars

---------------------------------------------------------------------------
FaultsOf(t) == {i \in 1..Len(faults) : faults[i].type = t}
Count(P(_)) == Cardinality({i \in 1..Len(hist) : P(hist[i])})

TypeOK == /\ result \in {"none", "proposal", "error"}
          /\ accepted \in 0..Len(hist)
          /\ \A i \in 1..Len(faults) : faults[i].type \in {"Impersonation", "Mistake", "Idleness"}

\* C24: a proposal is returned only if it came from the leader's lowest seat
\* with a valid membership, for this window and wallet, with an allowed action
ReturnedIsLeadersValidProposal ==
    (result = "proposal") <=>
        (/\ accepted > 0
         /\ LET m == hist[accepted] IN
              /\ IsCoord(m) /\ Key(m) = "L" /\ Idx(m) = LeaderID /\ Seats[Idx(m)] = "L"
              /\ m.win = "ok" /\ m.wal = "ok" /\ m.act = "allowed")
\* ... and it is the FIRST such message; nothing is processed after it
FirstValidWins ==
    /\ (result = "proposal") => (accepted = Len(hist) /\ \A i \in 1..(accepted - 1) : ~Valid(hist[i]))
    /\ (result # "proposal") => (\A i \in 1..Len(hist) : ~Valid(hist[i]))

\* C24: impersonation faults name the actual sender: one fault per message
\* that passed the membership/window/wallet filters from a seat other than
\* the leader's lowest, in order, each naming the key that sent it -- never
\* a non-member and never the owner of a seat the sender merely claimed
ImpersonationFaultsNameSender ==
    LET imp == SelectSeq(hist, Impersonates)
        fl  == SelectSeq(faults, LAMBDA f : f.type = "Impersonation") IN
      /\ Len(imp) = Len(fl)
      /\ \A i \in 1..Len(fl) : fl[i].culprit = Key(imp[i]) /\ fl[i].culprit \in {"L", "O"}

MistakeFaultsBlameLeader ==
    LET fl == SelectSeq(faults, LAMBDA f : f.type = "Mistake") IN
      /\ Len(fl) = Count(Mistaken)
      /\ \A i \in 1..Len(fl) : fl[i].culprit = "L"

\* C24: no valid leader message => idleness fault (last, exactly one) and an error
IdleLeaderIsRecorded ==
    /\ (result = "error") <=> (FaultsOf("Idleness") # {})
    /\ (result = "error") => (/\ faults[Len(faults)] = [culprit |-> "L", type |-> "Idleness"]
                              /\ Cardinality(FaultsOf("Idleness")) = 1
                              /\ accepted = 0)

\* messages stopped by the silent filters leave no trace
SilentFiltersLeaveNoTrace ==
    Len(faults) = Count(Impersonates) + Count(Mistaken) + (IF result = "error" THEN 1 ELSE 0)

\* once the routine returned nothing changes
Final == [][result # "none" => UNCHANGED vars]_vars
=============================================================================
