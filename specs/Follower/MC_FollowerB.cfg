SPECIFICATION Spec
CONSTANTS
  Seats <- SeatsB
  Kinds <- KindsAll
  MaxMsgs = 2
INVARIANTS TypeOK ReturnedIsLeadersValidProposal FirstValidWins ImpersonationFaultsNameSender MistakeFaultsBlameLeader IdleLeaderIsRecorded SilentFiltersLeaveNoTrace
PROPERTIES Final
