---------------------------- MODULE MC_Follower ----------------------------
EXTENDS Follower
Bits == {"ok", "bad"}
Full(c) == {[cls |-> c, win |-> w, wal |-> a, act |-> x] : w \in Bits, a \in Bits, x \in {"allowed", "disallowed"}}
One(c) == {[cls |-> c, win |-> "ok", wal |-> "ok", act |-> "allowed"]}
\* classes that reach the window / wallet / action filters get all 8 variants,
\* the others (stopped earlier whatever they carry) one variant
KindsDefault == Full("LL") \cup Full("LH") \cup Full("OO")
                \cup UNION {One(c) : c \in {"OL", "LO", "SS", "OS", "XL", "XO", "XS", "L0", "L9", "TT"}}
KindsAll == UNION {Full(c) : c \in {"LL", "LH", "OO", "OL", "LO", "SS", "OS", "XL", "XO", "XS", "L0", "L9", "TT"}}
SeatsA == <<"S", "O", "L", "L", "O", "S">>
SeatsB == <<"L", "S", "O", "L">>
=============================================================================
