SPECIFICATION Spec
CONSTANTS
  Seats <- SeatsA
  Kinds <- KindsDefault
  MaxMsgs = 3
INVARIANTS TypeOK ReturnedIsLeadersValidProposal FirstValidWins ImpersonationFaultsNameSender MistakeFaultsBlameLeader IdleLeaderIsRecorded SilentFiltersLeaveNoTrace
PROPERTIES Final
