SPECIFICATION Spec
CONSTANTS
  Seats <- SeatsA
  Kinds <- KindsDefault
  MaxMsgs = 3
INVARIANTS Emit
