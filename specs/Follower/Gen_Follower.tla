---------------------------- MODULE Gen_Follower ----------------------------
(* Behaviour generation: every message history of at most MaxMsgs messages  *)
(* up to the point where the routine returns (a valid leader message, or    *)
(* the end of the active phase at any point).  The specification's state    *)
(* already contains the history; a terminal state is one behaviour:         *)
(*   msgs (class, window, wallet, action bits), the faults in order, the    *)
(*   result and which message's proposal is returned.                       *)
(* Classes are symbolic, so the harness can realize a behaviour on any      *)
(* seat layout in which the leader holds two seats.                         *)
EXTENDS MC_Follower, TLC, Json, CSV, IOUtils

Emit == (result # "none") =>
    CSVWrite("%1$s", <<ToJson([msgs |-> hist, faults |-> faults, result |-> result, accepted |-> accepted])>>,
             "histories.ndjson")
=============================================================================
