SPECIFICATION Spec
CONSTANTS
  Seats <- SeatsA
  Kinds <- KindsDefault
  MaxMsgs = 2
INVARIANTS Emit
