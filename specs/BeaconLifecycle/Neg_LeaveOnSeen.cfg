SPECIFICATION Spec
CONSTANTS
  N = 3
  H = 2
  Nodes <- Nodes3
  Seat <- Seat3
  MaxRounds = 1
  MaxReqs = 1
  MaxDkgDeliver = 1
  MaxRelayDeliver = 1
  MaxBad = 0
  MaxStops = 0
  MaxViewMis = 1
  Prompt = TRUE
  Agreement = TRUE
  DedupOn = TRUE
  WriteAhead = TRUE
  FateCheck = TRUE
  LeaveOnSeen = FALSE
  InGroupCheck = TRUE
PROPERTIES NoSubmitAfterObserve
