SPECIFICATION Spec
CONSTANTS
  N = 3
  H = 2
  Nodes <- Nodes3
  Seat <- Seat3
  MaxRounds = 2
  MaxReqs = 2
  MaxDkgDeliver = 2
  MaxRelayDeliver = 2
  MaxBad = 1
  MaxStops = 2
  MaxViewMis = 3
  Prompt = FALSE
  Agreement = TRUE
  DedupOn = TRUE
  WriteAhead = TRUE
  FateCheck = TRUE
  LeaveOnSeen = TRUE
  InGroupCheck = TRUE
INVARIANTS TypeOK SignsOnlyAcceptedGroup OneDkgPerSeed RegistryIsStorage ArchivedNeverLoaded EntryVerifies
  KeepOnlyAsChainDecided OperatorsAsChainDecided AcceptedIsHonestView SubmitGate AtMostOneSubmission OnlyVerifiedShares
  RelayInOrder SigningStartsBounded NoTimeoutWithQuorum
PROPERTIES NoSubmitAfterObserve NoSubmitBeforeSlot SigningNeedsStoredMembership StorageFirst
