------------------------- MODULE MC_BeaconLifecycle -------------------------
(* Constant definitions for the model checking configurations.             *)
EXTENDS BeaconLifecycle

Nodes3 == {"a", "b", "c"}
Seat3  == <<"a", "b", "c">>           \* one seat per operator
Nodes4 == {"a", "b", "c"}
Seat4  == <<"a", "a", "b", "c">>      \* one operator holds two seats

\* nothing is left to do (terminal states of a bounded run)
AllOver == actR = 0 /\ actQ = 0 /\ \A r \in Rounds : dkg[r].st \in {"accepted", "closed"}
=============================================================================
