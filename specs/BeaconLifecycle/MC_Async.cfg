SPECIFICATION Spec
CONSTANTS
  N = 3
  H = 2
  Nodes <- Nodes3
  Seat <- Seat3
  MaxRounds = 1
  MaxReqs = 1
  MaxDkgDeliver = 1
  MaxRelayDeliver = 1
  MaxBad = 0
  MaxStops = 0
  MaxViewMis = 1
  Prompt = FALSE
  Agreement = TRUE
  DedupOn = TRUE
  WriteAhead = TRUE
  FateCheck = TRUE
  LeaveOnSeen = TRUE
  InGroupCheck = TRUE
INVARIANTS TypeOK SignsOnlyAcceptedGroup OneDkgPerSeed RegistryIsStorage ArchivedNeverLoaded EntryVerifies
  KeepOnlyAsChainDecided OperatorsAsChainDecided AcceptedIsHonestView SubmitGate AtMostOneSubmission OnlyVerifiedShares
  RelayInOrder SigningStartsBounded NoTimeoutWithQuorum
PROPERTIES NoSubmitAfterObserve NoSubmitBeforeSlot SigningNeedsStoredMembership StorageFirst
