----------------------- MODULE Trace_BeaconLifecycle -----------------------
(***************************************************************************)
(* Trace validation (code -> specification) of complete runs of the real   *)
(* beacon client: one beacon.Initialize per node over a wrapped local_v1   *)
(* chain, pkg/net/local and the encrypted disk persistence (harness        *)
(* /verif/harness/pkg/beacon/xbl_*_test.go).  Every event is recorded at a *)
(* call the client makes on its chain handle, its network provider or its  *)
(* persistence handle (or at an event the chain side of the harness        *)
(* produces), under one lock, so the file order is the order of those      *)
(* calls:                                                                  *)
(*                                                                         *)
(*  Reset(n,h,seats,bad,step,timeout,protoBlocks,prePub)  a new scenario   *)
(*  NodeStart / Loaded(entries) / ResumeAsked(answer) / NodeReady / Crash  *)
(*  DkgStarted(round,block) DkgStartedDelivered(node,round,dup)            *)
(*  DkgJoinAttempt(node,round,ok)   SelectGroup called                     *)
(*  DkgJoined(node,round)           the DKG broadcast channel was opened   *)
(*  GjkrDone(member,key,mis)        CalculateDKGResultHash called          *)
(*  ResultSigSent(member,key,mis,dropped)                                  *)
(*  RegisteredAsked(member,answer)  IsGroupRegistered pre-check            *)
(*  Submitted(member,key,mis,nsig,signers,block,accepted)                  *)
(*  ResultObserved(member,kind)     a result-submitted handler returned    *)
(*  Registered(node,member,key,ops) persistence Save of the membership     *)
(*  DkgExited(member)  DkgClosed(round)                                    *)
(*  RelayRequested(req,key,block,prev) RelayRequestedDelivered             *)
(*  RelayConfirm(node,req,current)  CurrentRequestStartBlock asked by      *)
(*                                  confirmCurrentRelayRequest             *)
(*  Forwarder(node) / RelayJoined(node,key,resume)                         *)
(*  SigningStarted  ShareSent(member,valid,dropped)                        *)
(*  EntrySubmitted(member,block,valid,accepted) EntryObserved(member)      *)
(*  SigningExited(member) TimeoutReported(node,block,accepted) RelayClosed *)
(*  GroupStale(key) GroupRegisteredDelivered(node,key)                     *)
(*  StaleAsked(node,key,answer) Archived(node,key)                         *)
(*                                                                         *)
(* Hidden from the trace and inferred by TLC: the outcome the honest       *)
(* members of a round agree on, which signatures a member had received     *)
(* when it verified, whether a member's publication failed at the gate,    *)
(* which shares a signer had accepted, the first position of the relay     *)
(* entry submission queue, the steps that leave no call (silent actions,   *)
(* enabled only when the next recorded event needs them).  Block numbers   *)
(* of the events drive the slot counters.  Every invariant of the          *)
(* composition is evaluated in every state of the run.                     *)
(***************************************************************************)
EXTENDS MC_BeaconLifecycle, TraceKit

VARIABLES l,        \* cursor
          run,      \* the Reset record of the current scenario
          kmap,     \* key id of the trace -> registry slot (round, variant)
          dstart,   \* round -> block number of the DKG started event
          rstart,   \* request -> block number of the request
          fwdp,     \* node -> confirmed requests of groups the node does not hold (forwarder expected)
          rjoin     \* node -> ResumeSigningIfEligible must have opened the group's channel

tv    == <<run, kmap, dstart, rstart, fwdp, rjoin>>
tvars == <<vars, l, tv>>

Ev == Trace[l]
IsEvent(e) == l <= Len(Trace) /\ Trace[l].event = e /\ l' = l + 1
Silent == l <= Len(Trace) /\ l' = l

NoRun == [step |-> 1, timeout |-> 1, protoBlocks |-> 0, prePub |-> 0]

TInit ==
    /\ Init /\ bad = {} /\ l = 1 /\ run = NoRun /\ kmap = <<>>
    /\ dstart = [r \in Rounds |-> 0] /\ rstart = [q \in Reqs |-> 0]
    /\ fwdp = [n \in Nodes |-> 0] /\ rjoin = [n \in Nodes |-> FALSE]
    /\ HwmInit

TReset ==
    /\ IsEvent("Reset")
    /\ Ev.n = N /\ Ev.h = H /\ Ev.seats = Seat /\ Ev.timeout = N * Ev.step
    /\ dkg' = [r \in Rounds |-> NoDkg] /\ req' = [q \in Reqs |-> NoReq]
    /\ actR' = 0 /\ actQ' = 0 /\ dslot' = 0 /\ rslot' = 0 /\ stale' = {}
    /\ sigs' = [r \in Rounds |-> {}] /\ shares' = [q \in Reqs |-> {}]
    /\ evq' = [r \in Rounds |-> {}] /\ pendS' = [r \in Rounds |-> {}] /\ pendE' = [q \in Reqs |-> {}]
    /\ bad' = ToSet(Ev.bad)
    /\ up' = [n \in Nodes |-> FALSE] /\ stops' = 0
    /\ seen' = [n \in Nodes |-> {}] /\ dlv' = [n \in Nodes |-> [r \in Rounds |-> 0]]
    /\ jpend' = [n \in Nodes |-> {}] /\ joins' = [n \in Nodes |-> [r \in Rounds |-> 0]]
    /\ rdm' = [n \in Nodes |-> [start |-> 0, prev |-> ""]]
    /\ rdl' = [n \in Nodes |-> [q \in Reqs |-> 0]] /\ rconf' = [n \in Nodes |-> [q \in Reqs |-> 0]]
    /\ proc' = [n \in Nodes |-> <<>>] /\ mon' = [n \in Nodes |-> [q \in Reqs |-> 0]]
    /\ resumed' = [n \in Nodes |-> FALSE] /\ unreg' = [n \in Nodes |-> 0] /\ swept' = [n \in Nodes |-> {}]
    /\ cur' = [n \in Nodes |-> EmptyReg] /\ arch' = [n \in Nodes |-> EmptyReg]
    /\ cache' = [n \in Nodes |-> EmptyCache]
    /\ hon' = [r \in Rounds |-> [ok |-> TRUE, mis |-> {}]]
    /\ mb' = [r \in Rounds |-> [i \in Members |-> NoMb]]
    /\ sg' = [q \in Reqs |-> [i \in Members |-> NoSg]]
    /\ run' = [step |-> Ev.step, timeout |-> Ev.timeout, protoBlocks |-> Ev.protoBlocks, prePub |-> Ev.prePub]
    /\ kmap' = <<>>
    /\ dstart' = [r \in Rounds |-> 0] /\ rstart' = [q \in Reqs |-> 0]
    /\ fwdp' = [n \in Nodes |-> 0] /\ rjoin' = [n \in Nodes |-> FALSE]

---------------------------------------------------------------------------
\* helpers

\* the member an event is about: recorded, or (attribution unknown) any seat of the node
MembersOf(e) == IF e.member # 0 THEN {e.member} \cap Members ELSE SeatsOf(e.node)

KeyKnown(id) == id \in DOMAIN kmap
\* the key id names slot k (binding it if it is new; ids and slots correspond one to one)
BindKey(id, k) ==
    IF KeyKnown(id) THEN kmap[id] = k /\ UNCHANGED kmap
    ELSE /\ \A x \in DOMAIN kmap : kmap[x] # k
         /\ kmap' = [x \in DOMAIN kmap \cup {id} |-> IF x = id THEN k ELSE kmap[x]]

Clamp(x) == IF x < 0 THEN 0 ELSE IF x > N THEN N ELSE x
\* first block of the result submission period of round r
PubStart(r) == dstart[r] + run.protoBlocks + run.prePub
DSlotAt(b)  == IF actR = 0 \/ b < PubStart(actR) THEN 0 ELSE Clamp((b - PubStart(actR)) \div run.step)
RSlotAt(b)  == IF actQ = 0 \/ b < rstart[actQ] THEN 0 ELSE Clamp((b - rstart[actQ]) \div run.step)
HasBlock    == l <= Len(Trace) /\ "block" \in DOMAIN Trace[l]

\* the next recorded event is about member i (of round/request x) and of one of the kinds
NextIs(kinds) == l <= Len(Trace) /\ Trace[l].event \in kinds
NextAbout(i, kinds) ==
    /\ NextIs(kinds) /\ "member" \in DOMAIN Trace[l]
    /\ (Trace[l].member = i \/ (Trace[l].member = 0 /\ Trace[l].node = Seat[i]))

\* DkgFate!GroupOperators (resolveGroupOperators): the selected operators of the operating seats, in seat order
OpsNames(S) == FateM!GroupOperators(Seat, S)

---------------------------------------------------------------------------
\* chain time follows the block numbers of the events
TTickDkg ==
    /\ Silent /\ HasBlock /\ actR # 0 /\ dslot < DSlotAt(Trace[l].block)
    /\ AdvanceDkg /\ UNCHANGED tv
TTickRelay ==
    /\ Silent /\ HasBlock /\ actQ # 0 /\ rslot < RSlotAt(Trace[l].block)
    /\ AdvanceRelay /\ UNCHANGED tv

---------------------------------------------------------------------------
\* process life cycle
TNodeStart == IsEvent("NodeStart") /\ Start(Ev.node) /\ UNCHANGED tv

TLoaded ==
    /\ IsEvent("Loaded") /\ up[Ev.node]
    /\ \A e \in ToSet(Ev.entries) : KeyKnown(e.key)
    /\ {<<kmap[e.key], e.member>> : e \in ToSet(Ev.entries)}
         = {<<k, i>> \in KeyIxs \X Members : i \in cur[Ev.node][k]}
    /\ UNCHANGED <<vars, tv>>

TResumeAsked ==
    /\ IsEvent("ResumeAsked")
    /\ Ev.answer = (actQ # 0 /\ req[actQ].st = "open")
    /\ Resume(Ev.node)
    /\ rjoin' = [rjoin EXCEPT ![Ev.node] = (sg' # sg)]
    /\ UNCHANGED <<run, kmap, dstart, rstart, fwdp>>

\* Initialize returned: a resumed signing has opened its channel by now
TNodeReady ==
    /\ IsEvent("NodeReady") /\ up[Ev.node] /\ resumed[Ev.node] /\ ~rjoin[Ev.node]
    /\ UNCHANGED <<vars, tv>>

TCrash ==
    /\ IsEvent("Crash")
    /\ IF up[Ev.node] THEN Kill(Ev.node) ELSE UNCHANGED vars
    /\ fwdp' = [fwdp EXCEPT ![Ev.node] = 0] /\ rjoin' = [rjoin EXCEPT ![Ev.node] = FALSE]
    /\ UNCHANGED <<run, kmap, dstart, rstart>>

---------------------------------------------------------------------------
\* DKG
TDkgStarted ==
    /\ IsEvent("DkgStarted") /\ Ev.round \in Rounds
    /\ StartDkg(Ev.round)
    /\ dstart' = [dstart EXCEPT ![Ev.round] = Ev.block]
    /\ UNCHANGED <<run, kmap, rstart, fwdp, rjoin>>

TDkgDelivered ==
    /\ IsEvent("DkgStartedDelivered") /\ Ev.round \in Rounds
    /\ DeliverDkg(Ev.node, Ev.round) /\ UNCHANGED tv

TJoinAttempt ==
    /\ IsEvent("DkgJoinAttempt") /\ Ev.round \in Rounds
    /\ Ev.ok = (dkg[Ev.round].st = "open")
    /\ JoinDkg(Ev.node, Ev.round) /\ UNCHANGED tv

\* the node opened the round's broadcast channel: it holds a seat and joined
TDkgJoined ==
    /\ IsEvent("DkgJoined") /\ Ev.round \in Rounds
    /\ \E i \in SeatsOf(Ev.node) : mb[Ev.round][i].st = "gjkr"
    /\ UNCHANGED <<vars, tv>>

\* the result hash is computed and -- by the same goroutine, a few events
\* later -- the signature over it is sent; the two calls are one step of the
\* specification: whether the signature left the node is read ahead
SigLeaves(i, r) ==
    \E j \in (l + 1)..(IF l + 80 < Len(Trace) THEN l + 80 ELSE Len(Trace)) :
        /\ Trace[j].event = "ResultSigSent" /\ Trace[j].member = i /\ Trace[j].round = r /\ ~Trace[j].dropped
        /\ \A x \in l..j : Trace[x].event # "Reset"

TGjkrDone ==
    /\ IsEvent("GjkrDone") /\ Ev.round \in Rounds
    /\ \E i \in MembersOf(Ev) : \E o \in Outcomes(Ev.round, i) :
          /\ o.ok /\ o.mis = ToSet(Ev.mis)
          /\ BindKey(Ev.key, KeyIx(Ev.round, o.key))
          /\ GjkrDone(Ev.round, i, o, ~SigLeaves(i, Ev.round))
    /\ UNCHANGED <<run, dstart, rstart, fwdp, rjoin>>

TResultSigSent ==
    /\ IsEvent("ResultSigSent") /\ Ev.round \in Rounds /\ Ev.known /\ KeyKnown(Ev.key)
    /\ \E i \in MembersOf(Ev) :
          /\ kmap[Ev.key] = KeyIx(Ev.round, mb[Ev.round][i].key) /\ ToSet(Ev.mis) = mb[Ev.round][i].mis
          /\ mb[Ev.round][i].sent
          /\ Ev.dropped \/ [from |-> i, key |-> mb[Ev.round][i].key, mis |-> mb[Ev.round][i].mis] \in sigs[Ev.round]
    /\ UNCHANGED <<vars, tv>>

\* the pre-check is reached only past the threshold gate
TRegisteredAsked ==
    /\ IsEvent("RegisteredAsked") /\ Ev.round \in Rounds
    /\ \E i \in MembersOf(Ev) :
          /\ KeyKnown(Ev.key) /\ kmap[Ev.key] = KeyIx(Ev.round, mb[Ev.round][i].key)
          /\ VerifyAny(Ev.round, i)
          /\ IF Ev.answer THEN mb'[Ev.round][i].obs /\ mb'[Ev.round][i].st \in {"keep", "out"}
                          ELSE mb'[Ev.round][i].st = "ready"
    /\ UNCHANGED tv

TSubmitted ==
    /\ IsEvent("Submitted") /\ Ev.round \in Rounds /\ Ev.round = actR
    /\ LET i == Ev.member
           r == Ev.round IN
       /\ i \in Members
       /\ Ev.block >= PubStart(r) + DkgSlot(i) * run.step            \* not before the member's slot
       /\ KeyKnown(Ev.key) /\ kmap[Ev.key] = KeyIx(r, mb[r][i].key) /\ ToSet(Ev.mis) = mb[r][i].mis
       /\ Ev.nsig = Cardinality(mb[r][i].sup) /\ ToSet(Ev.signers) = mb[r][i].sup /\ Ev.sigsValid
       /\ Ev.accepted = (dkg[r].st = "open")
       /\ SubmitDkg(r, i)
    /\ UNCHANGED tv

\* a handler returned: the member consumed the event (possibly recorded after the member's next call)
TResultObserved ==
    /\ IsEvent("ResultObserved") /\ Ev.round \in Rounds
    /\ \E i \in MembersOf(Ev) :
          IF Ev.kind = "submit"
             THEN IF mb[Ev.round][i].obs THEN UNCHANGED vars ELSE ObserveDkg(Ev.round, i)
             ELSE IF mb[Ev.round][i].st = "pubfail" THEN FateEvent(Ev.round, i)
                  ELSE (mb[Ev.round][i].fate = "chain" \/ mb[Ev.round][i].st = "out") /\ UNCHANGED vars
    /\ UNCHANGED tv

TRegistered ==
    /\ IsEvent("Registered") /\ Ev.round \in Rounds /\ Ev.ok
    /\ LET i == Ev.member
           r == Ev.round IN
       /\ i \in Members /\ Seat[i] = Ev.node
       /\ KeyKnown(Ev.key) /\ kmap[Ev.key] = KeyIx(r, mb[r][i].key)
       /\ Ev.ops = OpsNames(mb[r][i].ops)
       /\ Ev.channelIsCompressedKey /\ Ev.dirIsCompressedKey
       /\ Register(r, i)
    /\ UNCHANGED tv

TDkgExited ==
    /\ IsEvent("DkgExited") /\ Ev.round \in Rounds
    /\ \E i \in MembersOf(Ev) : mb[Ev.round][i].st \in {"registered", "out"}
    /\ UNCHANGED <<vars, tv>>

TDkgClosed ==
    /\ IsEvent("DkgClosed") /\ Ev.round = actR
    /\ CloseDkg
    /\ Ev.accepted = (dkg[Ev.round].st = "accepted")
    /\ UNCHANGED tv

\* steps that leave no call, taken only when the next event needs them
TSilentDkg ==
    /\ Silent /\ actR # 0
    /\ \E i \in Members :
        \/ NextAbout(i, {"DkgExited"}) /\ GjkrDone(actR, i, Fail, FALSE)
        \/ /\ NextAbout(i, {"DkgExited", "ResultObserved", "Registered"})
           /\ VerifyAny(actR, i) /\ mb'[actR][i].st = "pubfail"
        \/ NextAbout(i, {"DkgExited", "Registered"}) /\
              (ObserveDkg(actR, i) \/ FateEvent(actR, i))
        \/ NextAbout(i, {"DkgExited"}) /\ FateTimeout(actR, i)
    /\ UNCHANGED tv

---------------------------------------------------------------------------
\* relay entry
TRelayRequested ==
    /\ IsEvent("RelayRequested") /\ Ev.req \in Reqs /\ KeyKnown(Ev.key)
    /\ LET r == RoundOf(kmap[Ev.key]) IN
       /\ dkg[r].st = "accepted" /\ kmap[Ev.key] = ChainKey(r)
       /\ \E e \in 0..(N - 1) : RequestRelay(Ev.req, r, e, Ev.prev)
    /\ rstart' = [rstart EXCEPT ![Ev.req] = Ev.block]
    /\ UNCHANGED <<run, kmap, dstart, fwdp, rjoin>>

\* confirmCurrentRelayRequest asked the chain: equal -> confirmed, greater ->
\* skipped, otherwise it retries (no step of the specification)
TRelayConfirm ==
    /\ IsEvent("RelayConfirm") /\ Ev.req \in Reqs
    /\ LET n == Ev.node
           q == Ev.req IN
       IF Ev.current = rstart[q] \/ Ev.current > rstart[q]
          THEN /\ (Ev.current = rstart[q]) = (actQ = q /\ req[q].st = "open")
               /\ ConfirmRelay(n, q)
               /\ fwdp' = IF actQ = q /\ req[q].st = "open" /\ ~IsInGroup(n, ReqKey(q))
                             THEN [fwdp EXCEPT ![n] = @ + 1] ELSE fwdp
          ELSE UNCHANGED <<vars, fwdp>>
    /\ UNCHANGED <<run, kmap, dstart, rstart, rjoin>>

\* the node only forwards: it must not hold the group
TForwarder ==
    /\ IsEvent("Forwarder") /\ fwdp[Ev.node] > 0
    /\ fwdp' = [fwdp EXCEPT ![Ev.node] = @ - 1]
    /\ UNCHANGED <<vars, run, kmap, dstart, rstart, rjoin>>

\* GenerateRelayEntry opened the group's channel: the deduplicator said yes
\* (or the node resumes after a restart)
TRelayJoined ==
    /\ IsEvent("RelayJoined") /\ Ev.req \in Reqs /\ Ev.req = actQ
    /\ KeyKnown(Ev.key) /\ kmap[Ev.key] = ReqKey(Ev.req)
    /\ IF Ev.resume
          THEN /\ rjoin[Ev.node] /\ rjoin' = [rjoin EXCEPT ![Ev.node] = FALSE]
               /\ UNCHANGED vars
          ELSE /\ DedupRelay(Ev.node, Ev.req) /\ proc' # proc
               /\ UNCHANGED rjoin
    /\ UNCHANGED <<run, kmap, dstart, rstart, fwdp>>

\* a deduplicator call that says no leaves no call on the handles
TSilentRefuse ==
    /\ Silent
    /\ \E n \in Nodes, q \in Reqs : DedupRelay(n, q) /\ proc' = proc
    /\ UNCHANGED tv

TShareSent ==
    /\ IsEvent("ShareSent") /\ Ev.req \in Reqs /\ Ev.valid
    /\ \E i \in MembersOf(Ev) :
          /\ KeyKnown(Ev.key) /\ kmap[Ev.key] = sg[Ev.req][i].kix
          /\ SendShare(Ev.req, i, Ev.dropped)
    /\ UNCHANGED tv

TEntrySubmitted ==
    /\ IsEvent("EntrySubmitted") /\ Ev.req \in Reqs /\ Ev.req = actQ
    /\ \E i \in MembersOf(Ev) :
          /\ Ev.block >= rstart[Ev.req] + RelaySlot(i, req[Ev.req].e) * run.step
          /\ Ev.valid = EntryValid(Ev.req, i)
          /\ Ev.accepted = (req[Ev.req].st = "open" /\ EntryValid(Ev.req, i) /\ rslot < N)
          /\ SubmitEntry(Ev.req, i)
    /\ UNCHANGED tv

TEntryObserved ==
    /\ IsEvent("EntryObserved") /\ Ev.req \in Reqs
    /\ \E i \in MembersOf(Ev) :
          IF sg[Ev.req][i].obs THEN UNCHANGED vars ELSE ObserveEntry(Ev.req, i)
    /\ UNCHANGED tv

TSigningExited ==
    /\ IsEvent("SigningExited") /\ Ev.req \in Reqs
    /\ \E i \in MembersOf(Ev) : sg[Ev.req][i].st \notin SignRunning \cup {"idle"}
    /\ UNCHANGED <<vars, tv>>

TSilentRelay ==
    /\ Silent /\ actQ # 0
    /\ \E i \in Members :
        \/ NextAbout(i, {"EntrySubmitted"}) /\ (AcceptAny(actQ, i) \/ CompleteAlone(actQ, i))
        \/ NextAbout(i, {"SigningExited"}) /\ (ObserveEntry(actQ, i) \/ RelayTimeout(actQ, i))
    /\ UNCHANGED tv

\* (a monitor may lose the race between the submitted event and the timeout
\* block: a report after the entry was accepted is rejected by the chain)
TTimeoutReported ==
    /\ IsEvent("TimeoutReported") /\ Ev.req \in Reqs /\ Ev.req = actQ
    /\ Ev.accepted = (req[Ev.req].st = "open")
    /\ Ev.block >= rstart[Ev.req] + run.timeout
    /\ IF req[Ev.req].st = "open" THEN ReportTimeout(Ev.node, Ev.req) ELSE UNCHANGED vars
    /\ UNCHANGED tv

TRelayClosed ==
    /\ IsEvent("RelayClosed") /\ Ev.req = actQ
    /\ CloseRelay
    /\ Ev.done = (req[Ev.req].st = "done")
    /\ UNCHANGED tv

---------------------------------------------------------------------------
\* stale groups
TGroupStale ==
    /\ IsEvent("GroupStale") /\ KeyKnown(Ev.key)
    /\ MarkStale(RoundOf(kmap[Ev.key])) /\ kmap[Ev.key] = ChainKey(RoundOf(kmap[Ev.key]))
    /\ UNCHANGED tv

TGroupRegisteredDelivered ==
    /\ IsEvent("GroupRegisteredDelivered") /\ KeyKnown(Ev.key)
    /\ kmap[Ev.key] = ChainKey(RoundOf(kmap[Ev.key]))
    /\ IF SweepMatters(Ev.node, RoundOf(kmap[Ev.key]))
          THEN DeliverGroupRegistered(Ev.node, RoundOf(kmap[Ev.key]))
          ELSE up[Ev.node] /\ UNCHANGED vars
    /\ UNCHANGED tv

\* the sweep asks about every group it holds except the newest
TStaleAsked ==
    /\ IsEvent("StaleAsked") /\ KeyKnown(Ev.key)
    /\ unreg[Ev.node] # 0 /\ kmap[Ev.key] # unreg[Ev.node]
    /\ IsInGroup(Ev.node, kmap[Ev.key])
    /\ Ev.answer = (kmap[Ev.key] \in StaleKeys)
    /\ UNCHANGED <<vars, tv>>

TArchived ==
    /\ IsEvent("Archived") /\ KeyKnown(Ev.key) /\ Ev.ok
    /\ ArchiveOne(Ev.node, kmap[Ev.key])
    /\ UNCHANGED tv

TSweepDone ==
    /\ Silent
    /\ \E n \in Nodes :
          /\ ~(NextIs({"StaleAsked", "Archived"}) /\ Trace[l].node = n)
          /\ SweepDone(n)
    /\ UNCHANGED tv

\* events that carry no step of their own
TIgnored ==
    /\ l <= Len(Trace) /\ Trace[l].event \in {"SigningStarted", "DedupConsult", "RelayRequestedDelivered"}
    /\ l' = l + 1
    /\ UNCHANGED <<vars, tv>>

TNext ==
    \/ TReset \/ TTickDkg \/ TTickRelay
    \/ TNodeStart \/ TLoaded \/ TResumeAsked \/ TNodeReady \/ TCrash
    \/ TDkgStarted \/ TDkgDelivered \/ TJoinAttempt \/ TDkgJoined \/ TGjkrDone \/ TResultSigSent
    \/ TRegisteredAsked \/ TSubmitted \/ TResultObserved \/ TRegistered \/ TDkgExited \/ TDkgClosed \/ TSilentDkg
    \/ TRelayRequested \/ TRelayConfirm \/ TForwarder \/ TRelayJoined \/ TSilentRefuse \/ TShareSent
    \/ TEntrySubmitted \/ TEntryObserved \/ TSigningExited \/ TSilentRelay \/ TTimeoutReported \/ TRelayClosed
    \/ TGroupStale \/ TGroupRegisteredDelivered \/ TStaleAsked \/ TArchived \/ TSweepDone
    \/ TIgnored

TSpec == TInit /\ [][TNext]_tvars

\* the action properties of the composition, for every step of a run (a
\* Reset starts another world)
ResetStep == l <= Len(Trace) /\ Trace[l].event = "Reset" /\ l' = l + 1
TNoSubmitAfterObserve == [][ResetStep \/ NoSubmitAfterObserveStep]_tvars
TNoSubmitBeforeSlot == [][ResetStep \/ NoSubmitBeforeSlotStep]_tvars
TSigningNeedsStoredMembership == [][ResetStep \/ SigningNeedsStoredMembershipStep]_tvars
TStorageFirst == [][ResetStep \/ StorageFirstStep]_tvars

Hwm == HwmConstraint(l)
Accepted == HwmAccepted
=============================================================================
