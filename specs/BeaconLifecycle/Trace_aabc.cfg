SPECIFICATION TSpec
CONSTANTS
  N = 4
  H = 3
  Nodes <- Nodes4
  Seat <- Seat4
  MaxRounds = 2
  MaxReqs = 3
  MaxDkgDeliver = 100
  MaxRelayDeliver = 100
  MaxBad = 3
  MaxStops = 100
  MaxViewMis = 4
  Prompt = FALSE
  Agreement = TRUE
  DedupOn = TRUE
  WriteAhead = TRUE
  FateCheck = TRUE
  LeaveOnSeen = TRUE
  InGroupCheck = TRUE
CONSTRAINT Hwm
INVARIANTS TypeOK SignsOnlyAcceptedGroup OneDkgPerSeed RegistryIsStorage ArchivedNeverLoaded EntryVerifies
  KeepOnlyAsChainDecided OperatorsAsChainDecided AcceptedIsHonestView SubmitGate AtMostOneSubmission OnlyVerifiedShares
  RelayInOrder SigningStartsBounded
PROPERTIES TNoSubmitAfterObserve TNoSubmitBeforeSlot TSigningNeedsStoredMembership TStorageFirst
POSTCONDITION Accepted
