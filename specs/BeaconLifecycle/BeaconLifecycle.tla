--------------------------- MODULE BeaconLifecycle ---------------------------
(***************************************************************************)
(* COMPOSITION: the life cycle of the random beacon client, from a         *)
(* DKG-started event to a submitted relay entry and the retirement of the  *)
(* group (DESIGN.md section 7).                                            *)
(*                                                                         *)
(* Go call chain mirrored (one action per decision / linearization point): *)
(*                                                                         *)
(*  pkg/beacon/beacon.go  Initialize                                       *)
(*    LoadExistingGroups, ResumeSigningIfEligible        Start, Resume     *)
(*    OnDKGStarted handler: NotifyDKGStarted             DeliverDkg        *)
(*                          node.JoinDKGIfEligible       JoinDkg           *)
(*    OnRelayEntryRequested handler:                                       *)
(*        confirmCurrentRelayRequest, IsInGroup          ConfirmRelay      *)
(*        NotifyRelayEntryStarted, GenerateRelayEntry    DedupRelay        *)
(*        node.MonitorRelayEntry                         ReportTimeout     *)
(*    OnGroupRegistered handler: UnregisterStaleGroups   DeliverGroupReg., *)
(*                                                       ArchiveOne        *)
(*  pkg/beacon/node.go   JoinDKGIfEligible (SelectGroup, one goroutine per *)
(*    seat: dkg.ExecuteDKG, groupRegistry.RegisterGroup) JoinDkg, Register *)
(*    GenerateRelayEntry (one SignAndSubmit per membership)  DedupRelay /  *)
(*                                                       Resume            *)
(*  pkg/beacon/dkg/dkg.go ExecuteDKG                                       *)
(*    gjkr.Execute (abstract outcome)                    GjkrDone          *)
(*    dkgResult.Publish = SyncMachine over                                 *)
(*      resultSigningState.Initiate (sign, broadcast)    GjkrDone          *)
(*      signaturesVerificationState + threshold gate +                     *)
(*      IsGroupRegistered pre-check of SubmitDKGResult   Verify            *)
(*      SubmitDKGResult select: slot / submitted event   SubmitDkg,        *)
(*                                                       ObserveDkg        *)
(*    Publish ok: local operating members                Resolved(..)      *)
(*    Publish failed: decideMemberFate                   FateEvent,        *)
(*                                                       FateTimeout       *)
(*  pkg/beacon/entry/entry.go SignAndSubmit                                *)
(*    share broadcast                                    SendShare         *)
(*    message loop (extractAndValidateShare)             AcceptShare       *)
(*    submitRelayEntry select: slot / submitted / timeout SubmitEntry,     *)
(*                                         ObserveEntry, RelayTimeout      *)
(*  chain (contract side)   StartDkg, AdvanceDkg, CloseDkg, RequestRelay,  *)
(*                          AdvanceRelay, CloseRelay, MarkStale            *)
(*  faults                  Kill (crash), message loss (the subsets chosen *)
(*                          in Verify / AcceptShare), deviant GJKR views   *)
(*                                                                         *)
(* Per-property modules reused (INSTANCE; pure definitions only, TLC       *)
(* cannot use another module's actions on a component of a function        *)
(* valued variable -- where an action is restated a pointer says so):      *)
(*   Submission/Slots     LinearSlot, RelayQueuePos          (C47)         *)
(*   Support              AcceptP, SupportersP, ThresholdP   (C13)         *)
(*   DkgFate              LocalOperating, GroupOperators     (C05)         *)
(*   RelayDedup           Consults                           (C06)         *)
(*   Registry             Loaded, Archived, Eligible,                      *)
(*                        CacheIsStorage, NoDuplicates       (C38)         *)
(*   BlsRecovery/ShareCollection  Msg, Sh, Filtered, Valid   (C03)         *)
(* Restated with pointer: Dedup!AtomicNotify (C37), DkgFate's three-way    *)
(* decision (C05), RelayDedup!Notify (C06), the abstract outcome of Gjkr   *)
(* (C01 Agreement, NoHonestPunished; C02 ShareConsistency), the lockstep   *)
(* of SyncMachine (C14: members of one protocol run enter and leave every  *)
(* state at the same blocks -- here: chain time does not advance while a   *)
(* prompt member still has a step of the current window to take).          *)
(*                                                                         *)
(* What only the composition shows (see the invariants at the end):        *)
(*  - A member whose publication SUCCEEDS (it submitted, found the group   *)
(*    registered, or saw somebody else's submission) never looks at the    *)
(*    accepted result: it keeps its own key and operator list.  That this  *)
(*    is the chain's decision (KeepOnlyAsChainDecided) follows from the    *)
(*    support gate being a majority (C13) -- two different results cannot  *)
(*    both gather it -- as long as nobody signs two results; against an    *)
(*    equivocating member it needs the agreement of GJKR (C01):            *)
(*    Neg_Agreement.cfg is refuted only with Equivocate.                   *)
(*  - A relay request for a group that was accepted a moment ago finds     *)
(*    nodes that have not registered it yet: they only forward and never   *)
(*    sign (IsInGroup is evaluated once, at the event).  The prompt model  *)
(*    therefore assumes the chain does not select a group whose result     *)
(*    period is still running (RequestRelay); NoTimeoutWithQuorum and the  *)
(*    liveness properties hold under that assumption only.                 *)
(*  - ResumeSigningIfEligible does not tell the deduplicator: a node that  *)
(*    restarts during a request and then receives the request's event      *)
(*    signs twice for it (SigningStartsBounded is 2, not 1).               *)
(*                                                                         *)
(* Configurations: MC_Quick (no faults), MC_DupDkg / MC_DupRelay (duplicate*)
(* and stale deliveries), MC_Stop (one stop/restart), MC_BadDkg /          *)
(* MC_BadRelay (one faulty operator: deviant views, equivocation, lost     *)
(* messages, crashes), MC_aabc (4 seats, an operator with two), MC_Live    *)
(* (FairSpec), Sim_abc / Sim_aabc (simulation: 2 rounds, 2 requests, all   *)
(* faults), Neg_* (one mechanism switched off: TLC must refute the named   *)
(* property), Trace_abc / Trace_aabc (validation of recorded runs).        *)
(***************************************************************************)
EXTENDS Integers, Sequences, FiniteSets, TLC, SequencesExt

CONSTANTS
    N,            \* group size (seats 1..N)
    H,            \* honest threshold
    Nodes,        \* operator nodes
    Seat,         \* Seat[i]: the node that holds seat i (function 1..N -> Nodes)
    MaxRounds,    \* DKG rounds
    MaxReqs,      \* relay entry requests
    MaxDkgDeliver,   \* deliveries of one DKG started event to one node (> 1: duplicates, late ones are stale)
    MaxRelayDeliver, \* deliveries of one relay entry requested event to one node
    MaxBad,       \* number of faulty nodes (crash, message loss, deviant GJKR view)
    MaxStops,     \* number of node stops (crashes and graceful restarts)
    MaxViewMis,   \* bound on the members a deviant GJKR view marks as misbehaved (N: no bound)
    Prompt,       \* TRUE: chain time does not advance while a prompt member has a step to take
    \* --- knobs of the negative configurations (all TRUE = the code as it is) ---
    Agreement,    \* Gjkr: honest members that finish agree on key and misbehaved set (C01/C02)
    DedupOn,      \* beacon.go: DKG started events pass the deduplicator
    WriteAhead,   \* registry: memberships are persisted before they are used
    FateCheck,    \* dkg.go: a member whose publication failed consults the accepted result
    LeaveOnSeen,  \* submission.go / entry: a member that saw somebody else's submission leaves
    InGroupCheck  \* beacon.go: only nodes holding a membership of the requested group sign

Members == 1..N
Rounds  == 1..MaxRounds
Reqs    == 1..MaxReqs
Variants == {"a", "b"}       \* "a": the key honest members agree on; "b": a deviant key

\* group keys as registry slots: round r, variant v
KeyIx(r, v) == 2 * (r - 1) + (IF v = "a" THEN 1 ELSE 2)
KeyIxs      == 1..(2 * MaxRounds)
RoundOf(k)  == (k + 1) \div 2
VarOf(k)    == IF k % 2 = 1 THEN "a" ELSE "b"

SeatsOf(n) == {i \in Members : Seat[i] = n}

---------------------------------------------------------------------------
\* reused modules
SlotsM == INSTANCE Slots

SupM(self) == INSTANCE Support WITH
    N <- N, Self <- self, Protos <- {"beacon"}, NonOps <- {{}}, Hs <- {H}, Qs <- {N},
    MaxLen <- N, SrcMode <- "abstract",
    par <- [proto |-> "beacon", nonop |-> {}], phase <- "signing", nrecv <- 0,
    accepted <- <<>>, supporters <- {}, outcome <- <<>>

FateM == INSTANCE DkgFate WITH
    N <- N, H <- H, Me <- 1, Keys <- Variants, LocalKey <- "a", Operators <- Nodes,
    LocalViews <- {}, Selections <- {}, Misbehaved <- {},
    view <- [dq |-> {}, ia |-> {}], selected <- <<>>, phase <- "done", published <- FALSE,
    ev <- [key |-> "", misbehaved |-> {}], timedOut <- FALSE, operating <- {}, groupOps <- <<>>, err <- ""

RDM(cs, cp) == INSTANCE RelayDedup WITH
    Blocks <- 0..MaxReqs, Entries <- {}, MaxCalls <- 0,
    curStart <- cs, curPrev <- cp, calls <- 0,
    last <- [start |-> 0, prev |-> "", ans |-> [kind |-> "none", prev |-> "", start |-> 0],
             ret |-> FALSE, err |-> FALSE, queries |-> 0],
    trues <- <<>>

RegM(c, a, ca) == INSTANCE Registry WITH
    NumWallets <- 2 * MaxRounds, NumIndexes <- N, Flavor <- "beacon",
    MaxSaveFail <- 0, MaxArchFail <- 0, MaxRestarts <- 0, MaxReadSkip <- 0, MaxChainErr <- 0,
    cur <- c, arch <- a, cache <- ca, skipped <- {},
    used <- [saveFail |-> 0, archFail |-> 0, restarts |-> 0, chainErr |-> 0]

\* (Known is a constant of ShareCollection; the receiver's set of known public
\* key shares is a state function here and is checked next to Valid)
SCM(self) == INSTANCE ShareCollection WITH
    N <- N, Self <- self, H <- H, Known <- Members, Msgs <- {}, MaxMsgs <- 0,
    received <- <<>>, phase <- "loop", sig <- "none", delivered <- 0

\* C13: honest + (n - honest) / 2
Gate == SupM(1)!ThresholdP("beacon", H, N)
\* C47: slot numbers (in units of the publication block step)
DkgSlot(i)      == SlotsM!LinearSlot(i, 0, 1)
RelaySlot(i, e) == SlotsM!RelayQueuePos("contract", i, e, N)

---------------------------------------------------------------------------
VARIABLES
    \* chain
    dkg,      \* r -> [st: "none" | "open" | "accepted" | "closed", key, mis, by]
    req,      \* q -> [st: "none" | "open" | "done" | "timedout", rd, e, prev, by]
    actR,     \* the round whose members are still running (0: none)
    actQ,     \* the request whose signers are still running (0: none)
    dslot,    \* submission slots elapsed in the active round (N = result timeout)
    rslot,    \* submission slots elapsed in the active request (N = entry timeout)
    stale,    \* rounds whose group the chain reports stale
    \* broadcast channels
    sigs,     \* r -> set of [from, key, mis]: result hash signatures broadcast
    shares,   \* q -> set of [from, kix]: signature shares broadcast
    \* chain events in flight to subscribers
    evq,      \* r -> members whose ExecuteDKG subscription holds the accepted result
    pendS,    \* r -> members whose SubmitDKGResult subscription holds it
    pendE,    \* q -> members whose SignAndSubmit subscription holds the entry event
    \* nodes
    bad,      \* the faulty nodes (fixed in Init)
    up,       \* n -> the process is running
    stops,    \* number of stops so far
    seen,     \* n -> seeds in the DKG deduplication cache (this process lifetime)
    dlv,      \* n -> r -> deliveries of the DKG started event so far
    jpend,    \* n -> seeds that passed the deduplicator, JoinDKGIfEligible not yet entered
    joins,    \* n -> r -> number of JoinDKGIfEligible executions (this lifetime)
    rdm,      \* n -> [start, prev]: the relay deduplicator's memory
    rdl,      \* n -> q -> deliveries of the relay request event so far
    rconf,    \* n -> q -> confirmed deliveries whose deduplicator call is pending
    proc,     \* n -> sequence of requests that passed the deduplicator (this lifetime)
    mon,      \* n -> q -> running MonitorRelayEntry goroutines
    resumed,  \* n -> ResumeSigningIfEligible ran (this lifetime)
    unreg,    \* n -> key the running UnregisterStaleGroups sweep keeps (0: no sweep)
    swept,    \* n -> rounds whose group registration event the node has handled
    cur,      \* n -> key -> member indexes persisted (Registry!cur)
    arch,     \* n -> key -> member indexes archived  (Registry!arch)
    cache,    \* n -> key -> memberships in memory    (Registry!cache)
    \* members
    hon,      \* r -> the outcome of GJKR for the prompt honest members [ok, mis]
    mb,       \* r -> i -> DKG member state
    sg        \* q -> i -> signer state

cvars == <<dkg, req, actR, actQ, dslot, rslot, stale>>
mvars == <<sigs, shares, evq, pendS, pendE>>
nid   == <<bad, up, stops>>
ndkg  == <<seen, dlv, jpend, joins>>
nrel  == <<rdm, rdl, rconf, proc, mon, resumed>>
nreg  == <<unreg, swept, cur, arch, cache>>
nvars == <<nid, ndkg, nrel, nreg>>
pvars == <<hon, mb, sg>>
vars  == <<cvars, mvars, nvars, pvars>>

NoDkg == [st |-> "none", key |-> "", mis |-> {}, by |-> 0]
NoReq == [st |-> "none", rd |-> 0, e |-> 0, prev |-> "", by |-> 0, quorum |-> FALSE]
NoMb  == [st |-> "idle", key |-> "", mis |-> {}, sent |-> FALSE, sup |-> {}, nsub |-> 0, obs |-> FALSE,
          ops |-> {}, fate |-> "", late |-> FALSE]
NoSg  == [st |-> "idle", kix |-> 0, sent |-> FALSE, got |-> {}, nsub |-> 0, obs |-> FALSE, starts |-> 0]
EmptyReg == [k \in KeyIxs |-> {}]
EmptyCache == [k \in KeyIxs |-> <<>>]

BadMembers    == {i \in Members : Seat[i] \in bad}
HonestMembers == Members \ BadMembers
SeqRange(s)   == {s[x] : x \in DOMAIN s}

\* DKG member states in which ExecuteDKG is still running
DkgRunning == {"gjkr", "signed", "ready", "pubfail", "keep"}
\* signer states in which SignAndSubmit is still running
SignRunning == {"collect", "waitslot", "monitor"}

Init ==
    /\ dkg = [r \in Rounds |-> NoDkg] /\ req = [q \in Reqs |-> NoReq]
    /\ actR = 0 /\ actQ = 0 /\ dslot = 0 /\ rslot = 0 /\ stale = {}
    /\ sigs = [r \in Rounds |-> {}] /\ shares = [q \in Reqs |-> {}]
    /\ evq = [r \in Rounds |-> {}] /\ pendS = [r \in Rounds |-> {}] /\ pendE = [q \in Reqs |-> {}]
    /\ bad \in {B \in SUBSET Nodes : Cardinality(B) <= MaxBad}
    /\ up = [n \in Nodes |-> TRUE] /\ stops = 0
    /\ seen = [n \in Nodes |-> {}] /\ dlv = [n \in Nodes |-> [r \in Rounds |-> 0]]
    /\ jpend = [n \in Nodes |-> {}] /\ joins = [n \in Nodes |-> [r \in Rounds |-> 0]]
    /\ rdm = [n \in Nodes |-> [start |-> 0, prev |-> ""]]
    /\ rdl = [n \in Nodes |-> [q \in Reqs |-> 0]] /\ rconf = [n \in Nodes |-> [q \in Reqs |-> 0]]
    /\ proc = [n \in Nodes |-> <<>>] /\ mon = [n \in Nodes |-> [q \in Reqs |-> 0]]
    /\ resumed = [n \in Nodes |-> TRUE] /\ unreg = [n \in Nodes |-> 0] /\ swept = [n \in Nodes |-> {}]
    /\ cur = [n \in Nodes |-> EmptyReg] /\ arch = [n \in Nodes |-> EmptyReg]
    /\ cache = [n \in Nodes |-> EmptyCache]
    /\ hon = [r \in Rounds |-> [ok |-> TRUE, mis |-> {}]]
    /\ mb = [r \in Rounds |-> [i \in Members |-> NoMb]]
    /\ sg = [q \in Reqs |-> [i \in Members |-> NoSg]]

---------------------------------------------------------------------------
(* The chain: DKG rounds                                                   *)

\* Abstract outcome of Gjkr for the prompt honest members (C01 Agreement,
\* NoHonestPunished, NoAbort for at most N-H corrupt seats): one key, one
\* misbehaved set, a subset of the faulty seats that leaves >= H operating.
HonestOutcomes ==
    {[ok |-> TRUE, mis |-> M] : M \in {X \in SUBSET BadMembers : N - Cardinality(X) >= H}}
      \cup (IF Cardinality(BadMembers) > N - H THEN {[ok |-> FALSE, mis |-> {}]} ELSE {})

StartDkg(r) ==
    /\ actR = 0 /\ dkg[r].st = "none"
    /\ \A x \in Rounds : x < r => dkg[x].st \in {"accepted", "closed"}
    /\ dkg' = [dkg EXCEPT ![r].st = "open"]
    /\ actR' = r /\ dslot' = 0
    /\ hon' \in {[hon EXCEPT ![r] = o] : o \in HonestOutcomes}
    /\ UNCHANGED <<req, actQ, rslot, stale, mvars, nvars, mb, sg>>

\* a member whose process is up and that the lockstep assumption covers
PromptMember(i) == Seat[i] \notin bad /\ up[Seat[i]]

\* C14 lockstep: no block is mined while a prompt member still has a step of
\* the current window to take
DkgBusy(r) ==
    \E i \in Members : PromptMember(i) /\ ~mb[r][i].late /\
        \/ mb[r][i].st \in {"gjkr", "signed", "keep"}
        \/ mb[r][i].st = "ready" /\ (dslot >= DkgSlot(i) \/ i \in pendS[r])
        \/ mb[r][i].st = "pubfail" /\ i \in evq[r]
DkgJoinBusy(r) ==
    \E n \in Nodes \ bad : ~up[n] \/ r \in jpend[n] \/ (dlv[n][r] = 0 /\ dkg[r].st = "open")

AdvanceDkg ==
    /\ actR # 0 /\ dslot < N
    /\ Prompt => ~(DkgBusy(actR) \/ DkgJoinBusy(actR))
    /\ dslot' = dslot + 1
    /\ UNCHANGED <<dkg, req, actR, actQ, rslot, stale, mvars, nvars, pvars>>

\* the result submission period is over: later results are rejected; the
\* round leaves the stage when every ExecuteDKG has returned
CloseDkg ==
    /\ actR # 0 /\ dslot = N
    /\ \A i \in Members : mb[actR][i].st \notin DkgRunning
    /\ \A n \in Nodes : actR \notin jpend[n]
    /\ dkg' = [dkg EXCEPT ![actR].st = IF @ = "open" THEN "closed" ELSE @]
    /\ actR' = 0
    /\ UNCHANGED <<req, actQ, dslot, rslot, stale, mvars, nvars, pvars>>

---------------------------------------------------------------------------
(* beacon.go: DKG started event -> deduplicator -> JoinDKGIfEligible       *)

\* Dedup!AtomicNotify (C37): one test-and-set on the seed
DeliverDkg(n, r) ==
    /\ up[n] /\ dkg[r].st # "none" /\ dlv[n][r] < MaxDkgDeliver
    /\ dlv' = [dlv EXCEPT ![n][r] = @ + 1]
    /\ IF DedupOn /\ r \in seen[n]
          THEN UNCHANGED <<seen, jpend>>
          ELSE /\ seen' = [seen EXCEPT ![n] = @ \cup {r}]
               /\ jpend' = [jpend EXCEPT ![n] = @ \cup {r}]
    /\ UNCHANGED <<cvars, mvars, nid, joins, nrel, nreg, pvars>>

\* node.JoinDKGIfEligible: SelectGroup answers while the round is open; one
\* ExecuteDKG goroutine per seat of the operator.  A seat that rejoins after
\* its process was restarted in the middle of the round is late.
JoinDkg(n, r) ==
    /\ up[n] /\ r \in jpend[n]
    /\ jpend' = [jpend EXCEPT ![n] = @ \ {r}]
    /\ joins' = [joins EXCEPT ![n][r] = @ + 1]
    /\ IF dkg[r].st = "open"
          THEN mb' = [mb EXCEPT ![r] = [i \in Members |->
                        IF Seat[i] = n /\ mb[r][i].st \in {"idle", "out"}
                           THEN [NoMb EXCEPT !.st = "gjkr", !.late = (mb[r][i].st = "out" \/ dslot > 0)]
                           ELSE mb[r][i]]]
          ELSE UNCHANGED mb
    /\ UNCHANGED <<cvars, mvars, nid, seen, dlv, nrel, nreg, hon, sg>>

---------------------------------------------------------------------------
(* dkg.go ExecuteDKG                                                       *)

Fail == [ok |-> FALSE, key |-> "", mis |-> {}]
\* (a member that was cut off may end GJKR with more than N-H members marked:
\* gjkr.Execute does not fail then, resolveGroupOperators does later)
Views(i) == {[ok |-> TRUE, key |-> v, mis |-> M] :
               v \in Variants, M \in {X \in SUBSET (Members \ {i}) : Cardinality(X) <= MaxViewMis}}

\* what gjkr.Execute may hand to member i
Outcomes(r, i) ==
    IF mb[r][i].late THEN {Fail}
    ELSE IF Seat[i] \in bad \/ ~Agreement THEN {Fail} \cup Views(i)
    ELSE IF hon[r].ok THEN {[ok |-> TRUE, key |-> "a", mis |-> hon[r].mis]} ELSE {Fail}

\* gjkr.Execute returned; with a result the member enters the publication:
\* resultSigningState.Initiate signs the result hash and broadcasts the
\* signature (lost = it never leaves a faulty node)
GjkrDone(r, i, o, lost) ==
    /\ up[Seat[i]] /\ mb[r][i].st = "gjkr" /\ o \in Outcomes(r, i)
    \* lockstep: the outcome of the prompt members presupposes that all of them take part
    /\ (Prompt /\ PromptMember(i) /\ ~mb[r][i].late) => ~DkgJoinBusy(r)
    /\ lost => (Seat[i] \in bad /\ o.ok)
    /\ mb' = [mb EXCEPT ![r][i] = IF o.ok THEN [@ EXCEPT !.st = "signed", !.key = o.key, !.mis = o.mis, !.sent = TRUE]
                                        ELSE [@ EXCEPT !.st = "out"]]
    /\ sigs' = IF o.ok /\ ~lost THEN [sigs EXCEPT ![r] = @ \cup {[from |-> i, key |-> o.key, mis |-> o.mis]}] ELSE sigs
    /\ UNCHANGED <<cvars, shares, evq, pendS, pendE, nvars, hon, sg>>

\* a faulty member signs a second, different result (different receivers may
\* see different ones; a receiver that sees both drops the sender, C13)
Equivocate(r, i, o) ==
    /\ up[Seat[i]] /\ Seat[i] \in bad /\ mb[r][i].sent /\ mb[r][i].st \in {"signed", "ready", "pubfail"}
    /\ o \in Views(i) /\ <<o.key, o.mis>> # <<mb[r][i].key, mb[r][i].mis>>
    /\ Cardinality({s \in sigs[r] : s.from = i}) < 2
    /\ sigs' = [sigs EXCEPT ![r] = @ \cup {[from |-> i, key |-> o.key, mis |-> o.mis]}]
    /\ UNCHANGED <<cvars, shares, evq, pendS, pendE, nvars, pvars>>

\* Publish returned nil: the member keeps its own view of the operating
\* members (DkgFate!PublishOk, Resolve / ResolveInvalid)
Resolved(rec) ==
    LET ops == FateM!LocalOperating([dq |-> rec.mis, ia |-> {}]) IN
    IF Cardinality(ops) >= H THEN [rec EXCEPT !.st = "keep", !.ops = ops, !.fate = "own"]
                             ELSE [rec EXCEPT !.st = "out"]

\* Support (C13): the messages of D as resultSigningState.Receive /
\* VerifyDKGResultSignatures see them
SupportersOf(r, i, D) ==
    LET all == SetToSeq({[sender |-> s.from,
                          hash |-> IF s.key = mb[r][i].key /\ s.mis = mb[r][i].mis THEN "mine" ELSE "other",
                          sig |-> "valid", key |-> "network", origin |-> "member", src |-> 0] : s \in D})
        acc == SelectSeq(all, LAMBDA m : SupM(i)!AcceptP(m, mb[r][i].mis))
    IN SupM(i)!SupportersP(acc, "dropAll")

\* the signatures that must have reached a prompt member by the end of the
\* signing window: those of the other prompt members (lockstep + reliable
\* broadcast among them)
MustHear(r, i) == IF PromptMember(i) /\ ~mb[r][i].late
                     THEN {s \in sigs[r] : s.from # i /\ PromptMember(s.from) /\ ~mb[r][s.from].late}
                     ELSE {}
SigWindowOpen(r) == \E j \in Members : PromptMember(j) /\ ~mb[r][j].late /\ mb[r][j].st = "gjkr"

\* signaturesVerificationState.Initiate, then resultSubmissionState.Initiate
\* up to the select: the threshold gate, the subscription, IsGroupRegistered
Verify(r, i, D) ==
    /\ up[Seat[i]] /\ mb[r][i].st = "signed" /\ mb[r][i].sent
    /\ (Prompt /\ PromptMember(i) /\ ~mb[r][i].late) => ~SigWindowOpen(r)
    /\ D \subseteq {s \in sigs[r] : s.from # i} /\ (Prompt => MustHear(r, i) \subseteq D)
    /\ LET sup == SupportersOf(r, i, D) IN
       mb' = [mb EXCEPT ![r][i] =
                IF Cardinality(sup) < Gate
                   THEN [@ EXCEPT !.st = "pubfail", !.sup = sup]       \* Publish returns the gate's error
                ELSE IF dkg[r].st = "accepted" /\ dkg[r].key = mb[r][i].key
                   THEN Resolved([@ EXCEPT !.sup = sup, !.obs = TRUE])          \* already submitted: nil
                   ELSE [@ EXCEPT !.st = "ready", !.sup = sup]]
    /\ UNCHANGED <<cvars, mvars, nvars, hon, sg>>

\* Submission!SlotReached (C47) for the beacon DKG: the member's slot is
\* reached; the chain takes the first result of an open round
SubmitDkg(r, i) ==
    /\ up[Seat[i]] /\ mb[r][i].st = "ready" /\ r = actR /\ dslot >= DkgSlot(i)
    /\ IF dkg[r].st = "open"
          THEN /\ dkg' = [dkg EXCEPT ![r] = [st |-> "accepted", key |-> mb[r][i].key, mis |-> mb[r][i].mis, by |-> i]]
               /\ mb' = [mb EXCEPT ![r][i] = Resolved([@ EXCEPT !.nsub = @ + 1])]
               /\ pendS' = [pendS EXCEPT ![r] = {j \in Members \ {i} : mb[r][j].st = "ready" /\ up[Seat[j]]}]
               /\ evq' = [evq EXCEPT ![r] = {j \in Members : mb[r][j].st \in {"signed", "ready", "pubfail"} /\ up[Seat[j]]}]
          ELSE /\ mb' = [mb EXCEPT ![r][i] = [@ EXCEPT !.st = "pubfail", !.nsub = @ + 1]]   \* rejected: Publish fails
               /\ pendS' = [pendS EXCEPT ![r] = @ \ {i}]
               /\ UNCHANGED <<dkg, evq>>
    /\ UNCHANGED <<req, actR, actQ, dslot, rslot, stale, sigs, shares, pendE, nvars, hon, sg>>

\* Submission!Observe: the submitted event is taken from the channel
ObserveDkg(r, i) ==
    /\ up[Seat[i]] /\ mb[r][i].st = "ready" /\ i \in pendS[r]
    /\ pendS' = [pendS EXCEPT ![r] = @ \ {i}]
    /\ mb' = [mb EXCEPT ![r][i] = IF LeaveOnSeen THEN Resolved([@ EXCEPT !.obs = TRUE]) ELSE [@ EXCEPT !.obs = TRUE]]
    /\ UNCHANGED <<cvars, sigs, shares, evq, pendE, nvars, hon, sg>>

\* DkgFate!EventArrives + DecideKeyMismatch / DecideMisbehaved / DecideStay + Resolve (C05)
FateEvent(r, i) ==
    /\ up[Seat[i]] /\ mb[r][i].st = "pubfail" /\ i \in evq[r]
    /\ evq' = [evq EXCEPT ![r] = @ \ {i}]
    /\ LET ops == Members \ dkg[r].mis
           stay == IF FateCheck THEN dkg[r].key = mb[r][i].key /\ i \notin dkg[r].mis ELSE TRUE IN
       mb' = [mb EXCEPT ![r][i] = IF stay /\ Cardinality(ops) >= H
                                     THEN [@ EXCEPT !.st = "keep", !.ops = ops, !.fate = "chain"]
                                     ELSE [@ EXCEPT !.st = "out"]]
    /\ UNCHANGED <<cvars, sigs, shares, pendS, pendE, nvars, hon, sg>>

\* DkgFate!TimeoutBlock: start + PrePublicationBlocks + N * step
FateTimeout(r, i) ==
    /\ up[Seat[i]] /\ mb[r][i].st = "pubfail" /\ r = actR /\ dslot = N
    /\ mb' = [mb EXCEPT ![r][i].st = "out"]
    /\ UNCHANGED <<cvars, mvars, nvars, hon, sg>>

\* node.go: groupRegistry.RegisterGroup (Registry!RegisterOk: storage first, then the map)
Register(r, i) ==
    /\ up[Seat[i]] /\ mb[r][i].st = "keep"
    /\ LET n == Seat[i]
           k == KeyIx(r, mb[r][i].key) IN
       /\ cur' = IF WriteAhead THEN [cur EXCEPT ![n][k] = @ \cup {i}] ELSE cur
       /\ cache' = [cache EXCEPT ![n][k] = Append(@, i)]
    /\ mb' = [mb EXCEPT ![r][i].st = "registered"]
    /\ UNCHANGED <<cvars, mvars, nid, ndkg, nrel, unreg, swept, arch, hon, sg>>

---------------------------------------------------------------------------
(* The chain: relay requests                                               *)

ChainKey(r) == KeyIx(r, dkg[r].key)
\* at least H correct members hold (in storage) a membership of group k
QuorumFor(k) == Cardinality({i \in Members : Seat[i] \notin bad /\ i \in cur[Seat[i]][k]}) >= H
ReqKey(q)   == ChainKey(req[q].rd)

\* the chain selects a registered group that is not stale; after a timeout
\* the same previous entry is requested again
RequestRelay(q, r, e, p) ==
    /\ actQ = 0 /\ req[q].st = "none"
    /\ \A x \in Reqs : x < q => req[x].st \in {"done", "timedout"}
    /\ dkg[r].st = "accepted"
    \* the chain never selects a stale group (the harness does, to see that nobody signs)
    /\ Prompt => r \notin stale
    \* assumption of the prompt model: the chain does not pick a group whose
    \* members may still be on their way to the registry (a request that comes
    \* earlier finds nodes that do not know the group yet: they only forward)
    /\ Prompt => actR # r
    /\ e \in 0..(N - 1)
    /\ req' = [req EXCEPT ![q] = [st |-> "open", rd |-> r, e |-> e, prev |-> p, by |-> 0,
                                  quorum |-> QuorumFor(KeyIx(r, dkg[r].key))]]
    /\ actQ' = q /\ rslot' = 0
    /\ UNCHANGED <<dkg, actR, dslot, stale, mvars, nvars, pvars>>

---------------------------------------------------------------------------
(* beacon.go: relay entry requested event                                  *)

IsInGroup(n, k) == cache[n][k] # <<>>

\* the handler is invoked: confirmCurrentRelayRequest asks the chain for the
\* current request; a confirmed request starts a monitor and, if the node
\* holds a membership of the group, a deduplicator call
ConfirmRelay(n, q) ==
    /\ up[n] /\ req[q].st # "none" /\ rdl[n][q] < MaxRelayDeliver
    /\ rdl' = [rdl EXCEPT ![n][q] = @ + 1]
    /\ IF actQ = q /\ req[q].st = "open"
          THEN /\ mon' = [mon EXCEPT ![n][q] = @ + 1]
               /\ rconf' = IF IsInGroup(n, ReqKey(q)) \/ ~InGroupCheck
                              THEN [rconf EXCEPT ![n][q] = @ + 1] ELSE rconf
          ELSE UNCHANGED <<mon, rconf>>      \* a newer request is pending, or none: skipped
    /\ UNCHANGED <<cvars, mvars, nid, ndkg, rdm, proc, resumed, nreg, pvars>>

\* node.GenerateRelayEntry: one SignAndSubmit per membership of the group
Generate(n, q) ==
    LET k == ReqKey(q)
        mine == IF InGroupCheck THEN SeqRange(cache[n][k]) ELSE SeatsOf(n) IN
    sg' = [sg EXCEPT ![q] = [i \in Members |->
             IF i \in mine
                THEN IF sg[q][i].st = "idle"
                        THEN [NoSg EXCEPT !.st = "collect", !.kix = k, !.got = {i}, !.starts = 1]
                        ELSE [sg[q][i] EXCEPT !.starts = @ + 1]
                ELSE sg[q][i]]]

\* RelayDedup!Notify (C06) for the confirmed request; the chain is consulted
\* when a later request repeats the previous entry (it then is the current one)
DedupRelay(n, q) ==
    /\ up[n] /\ rconf[n][q] > 0
    /\ rconf' = [rconf EXCEPT ![n][q] = @ - 1]
    /\ LET s == q
           p == req[q].prev
           process == \/ rdm[n].start = 0
                      \/ s > rdm[n].start /\ p # rdm[n].prev
                      \/ RDM(rdm[n].start, rdm[n].prev)!Consults(s, p) /\ actQ = q /\ req[q].st = "open" IN
       IF process
          THEN /\ rdm' = [rdm EXCEPT ![n] = [start |-> s, prev |-> p]]
               /\ proc' = [proc EXCEPT ![n] = Append(@, q)]
               /\ Generate(n, q)
          ELSE UNCHANGED <<rdm, proc, sg>>
    /\ UNCHANGED <<cvars, mvars, nid, ndkg, rdl, mon, resumed, nreg, hon, mb>>

---------------------------------------------------------------------------
(* entry.go SignAndSubmit                                                  *)

SendShare(q, i, lost) ==
    /\ up[Seat[i]] /\ sg[q][i].st \in SignRunning \cup {"left", "timedout", "failed"} /\ ~sg[q][i].sent
    /\ lost => Seat[i] \in bad
    /\ sg' = [sg EXCEPT ![q][i].sent = TRUE]
    /\ shares' = IF lost THEN shares ELSE [shares EXCEPT ![q] = @ \cup {[from |-> i, kix |-> sg[q][i].kix]}]
    /\ UNCHANGED <<cvars, sigs, evq, pendS, pendE, nvars, hon, mb>>

\* ShareCollection!Accept (C03): the share verifies under the sender's public
\* key share in the receiver's view of the group
KnownTo(q, i) == Members \ mb[RoundOf(sg[q][i].kix)][i].mis

Acceptable(q, i, s) ==
    LET m == SCM(i)!Msg("share", s.from,
                        SCM(i)!Sh(s.from, IF s.kix = sg[q][i].kix THEN "prev" ELSE "other"), "cur") IN
    ~SCM(i)!Filtered(m) /\ SCM(i)!Valid(m) /\ s.from \in KnownTo(q, i)

AcceptShare(q, i, s) ==
    /\ up[Seat[i]] /\ sg[q][i].st = "collect" /\ s \in shares[q] /\ s.from \notin sg[q][i].got
    /\ Acceptable(q, i, s)
    /\ LET got == sg[q][i].got \cup {s.from} IN
       sg' = [sg EXCEPT ![q][i] = [@ EXCEPT !.got = got,
                                            !.st = IF Cardinality(got) >= H THEN "waitslot" ELSE "collect"]]
    /\ UNCHANGED <<cvars, mvars, nvars, hon, mb>>

\* H = 1 (or own share enough): the loop is not entered
CompleteAlone(q, i) ==
    /\ up[Seat[i]] /\ sg[q][i].st = "collect" /\ Cardinality(sg[q][i].got) >= H
    /\ sg' = [sg EXCEPT ![q][i].st = "waitslot"]
    /\ UNCHANGED <<cvars, mvars, nvars, hon, mb>>

\* Submission!SlotReached for the relay entry: the chain verifies the entry
\* under the group key of the request; the submitter keeps monitoring
EntryValid(q, i) == sg[q][i].kix = ReqKey(q)
SubmitEntry(q, i) ==
    /\ up[Seat[i]] /\ sg[q][i].st = "waitslot" /\ q = actQ /\ rslot >= RelaySlot(i, req[q].e)
    /\ IF req[q].st = "open" /\ EntryValid(q, i) /\ rslot < N
          THEN /\ req' = [req EXCEPT ![q] = [@ EXCEPT !.st = "done", !.by = i]]
               /\ sg' = [sg EXCEPT ![q][i] = [@ EXCEPT !.st = "monitor", !.nsub = @ + 1]]
               /\ pendE' = [pendE EXCEPT ![q] = {j \in Members : sg[q][j].st \in SignRunning /\ up[Seat[j]]}]
               /\ mon' = [n \in Nodes |-> [mon[n] EXCEPT ![q] = 0]]
          ELSE \* error: IsEntryInProgress decides between nil and the error
               /\ sg' = [sg EXCEPT ![q][i] = [@ EXCEPT !.st = IF req[q].st = "open" THEN "failed" ELSE "left",
                                                         !.nsub = @ + 1]]
               /\ pendE' = [pendE EXCEPT ![q] = @ \ {i}]
               /\ UNCHANGED <<req, mon>>
    /\ UNCHANGED <<dkg, actR, actQ, dslot, rslot, stale, sigs, shares, evq, pendS, nid, ndkg, rdm, rdl, rconf, proc, resumed, nreg, hon, mb>>

ObserveEntry(q, i) ==
    /\ up[Seat[i]] /\ sg[q][i].st \in SignRunning /\ i \in pendE[q]
    /\ pendE' = [pendE EXCEPT ![q] = @ \ {i}]
    /\ sg' = [sg EXCEPT ![q][i] = [@ EXCEPT !.obs = TRUE, !.st = IF LeaveOnSeen THEN "left" ELSE @]]
    /\ UNCHANGED <<cvars, sigs, shares, evq, pendS, nvars, hon, mb>>

\* Submission!RelayTimeout: the timeout block's waiter fires
RelayTimeout(q, i) ==
    /\ up[Seat[i]] /\ sg[q][i].st \in SignRunning /\ q = actQ /\ rslot = N
    /\ sg' = [sg EXCEPT ![q][i].st = "timedout"]
    /\ pendE' = [pendE EXCEPT ![q] = @ \ {i}]
    /\ UNCHANGED <<cvars, sigs, shares, evq, pendS, nvars, hon, mb>>

\* node.MonitorRelayEntry: the timeout block came before a submitted event
\* (a monitor that got the submitted event first returns silently: the
\* monitors of a request are forgotten when the entry is accepted)
ReportTimeout(n, q) ==
    /\ up[n] /\ mon[n][q] > 0 /\ q = actQ /\ rslot = N
    /\ mon' = [mon EXCEPT ![n][q] = @ - 1]
    /\ req' = [req EXCEPT ![q].st = IF @ = "open" THEN "timedout" ELSE @]
    /\ UNCHANGED <<dkg, actR, actQ, dslot, rslot, stale, mvars, nid, ndkg, rdm, rdl, rconf, proc, resumed, nreg, pvars>>

---------------------------------------------------------------------------
(* The chain: relay request time                                           *)

RelayBusy(q) ==
    \/ \E i \in Members : PromptMember(i) /\
          \/ sg[q][i].st \in SignRunning /\ ~sg[q][i].sent
          \/ sg[q][i].st = "collect" /\ \E s \in shares[q] : s.from \notin sg[q][i].got /\ Acceptable(q, i, s)
          \/ sg[q][i].st = "waitslot" /\ rslot >= RelaySlot(i, req[q].e)
          \/ sg[q][i].st \in SignRunning /\ i \in pendE[q]
    \/ \E n \in Nodes \ bad : ~up[n] \/ rconf[n][q] > 0 \/ rdl[n][q] = 0 \/ ~resumed[n]

\* (once the entry is accepted the request's clock only matters to signers that
\* started too late to be told: they run into the timeout block)
AdvanceRelay ==
    /\ actQ # 0 /\ rslot < N
    /\ req[actQ].st = "open" \/ \E i \in Members : sg[actQ][i].st \in SignRunning /\ i \notin pendE[actQ]
    /\ Prompt => ~RelayBusy(actQ)
    /\ rslot' = rslot + 1
    /\ UNCHANGED <<dkg, req, actR, actQ, dslot, stale, mvars, nvars, pvars>>

\* the request leaves the stage: entry accepted, or timeout reported / passed
CloseRelay ==
    /\ actQ # 0
    /\ req[actQ].st \in {"done", "timedout"} \/ rslot = N
    /\ \A i \in Members : sg[actQ][i].st \notin SignRunning
    /\ \A n \in Nodes : rconf[n][actQ] = 0
    /\ req' = [req EXCEPT ![actQ].st = IF @ = "open" THEN "timedout" ELSE @]
    /\ actQ' = 0
    /\ UNCHANGED <<dkg, actR, dslot, rslot, stale, mvars, nvars, pvars>>

---------------------------------------------------------------------------
(* registry: stale groups                                                  *)

MarkStale(r) ==
    /\ dkg[r].st = "accepted" /\ r \notin stale
    /\ \E x \in Rounds : x > r /\ dkg[x].st = "accepted"      \* never the newest group
    /\ \A q \in Reqs : req[q].st = "open" => req[q].rd # r     \* no operation of the group is pending
    /\ stale' = stale \cup {r}
    /\ UNCHANGED <<dkg, req, actR, actQ, dslot, rslot, mvars, nvars, pvars>>

\* OnGroupRegistered handler: go UnregisterStaleGroups(latest)
\* (a sweep of a node that holds no other group asks nothing and changes nothing: skipped)
SweepMatters(n, r) == \E k \in KeyIxs : k # ChainKey(r) /\ IsInGroup(n, k)
DeliverGroupRegistered(n, r) ==
    /\ up[n] /\ dkg[r].st = "accepted" /\ unreg[n] = 0 /\ SweepMatters(n, r) /\ r \notin swept[n]
    /\ unreg' = [unreg EXCEPT ![n] = ChainKey(r)]
    /\ swept' = [swept EXCEPT ![n] = @ \cup {r}]
    /\ UNCHANGED <<cvars, mvars, nid, ndkg, nrel, cur, arch, cache, pvars>>

StaleKeys == {k \in KeyIxs : RoundOf(k) \in stale /\ dkg[RoundOf(k)].st = "accepted" /\ k = ChainKey(RoundOf(k))}

\* one iteration of the sweep that archives (Registry!Unregister restricted
\* to one group: Eligible, Archived)
ArchiveOne(n, k) ==
    /\ up[n] /\ unreg[n] # 0
    /\ k \in RegM(cur[n], arch[n], cache[n])!Eligible(unreg[n], StaleKeys, {})
    /\ cur' = [cur EXCEPT ![n] = RegM(cur[n], arch[n], cache[n])!Archived(cur[n], arch[n], {k})[1]]
    /\ arch' = [arch EXCEPT ![n] = RegM(cur[n], arch[n], cache[n])!Archived(cur[n], arch[n], {k})[2]]
    /\ cache' = [cache EXCEPT ![n][k] = <<>>]
    /\ UNCHANGED <<cvars, mvars, nid, ndkg, nrel, unreg, swept, pvars>>

SweepDone(n) ==
    /\ up[n] /\ unreg[n] # 0
    /\ unreg' = [unreg EXCEPT ![n] = 0]
    /\ UNCHANGED <<cvars, mvars, nid, ndkg, nrel, swept, cur, arch, cache, pvars>>

---------------------------------------------------------------------------
(* process life cycle                                                      *)

NodeIdle(n) ==
    /\ \A r \in Rounds : \A i \in SeatsOf(n) : mb[r][i].st \notin DkgRunning
    /\ \A q \in Reqs : \A i \in SeatsOf(n) : sg[q][i].st \notin SignRunning
    /\ jpend[n] = {} /\ \A q \in Reqs : rconf[n][q] = 0
    /\ unreg[n] = 0

\* the process ends: goroutines die with it, memory is gone, storage stays
Kill(n) ==
    /\ up[n]
    /\ up' = [up EXCEPT ![n] = FALSE]
    /\ stops' = stops + 1
    /\ seen' = [seen EXCEPT ![n] = {}] /\ jpend' = [jpend EXCEPT ![n] = {}]
    /\ joins' = [joins EXCEPT ![n] = [r \in Rounds |-> 0]]
    /\ rdm' = [rdm EXCEPT ![n] = [start |-> 0, prev |-> ""]]
    /\ rconf' = [rconf EXCEPT ![n] = [q \in Reqs |-> 0]]
    /\ proc' = [proc EXCEPT ![n] = <<>>]
    /\ mon' = [mon EXCEPT ![n] = [q \in Reqs |-> 0]]
    /\ resumed' = [resumed EXCEPT ![n] = FALSE]
    /\ unreg' = [unreg EXCEPT ![n] = 0]
    /\ cache' = [cache EXCEPT ![n] = EmptyCache]
    /\ mb' = [r \in Rounds |-> [i \in Members |->
                IF Seat[i] = n /\ mb[r][i].st \in DkgRunning THEN [mb[r][i] EXCEPT !.st = "out"] ELSE mb[r][i]]]
    /\ sg' = [q \in Reqs |-> [i \in Members |->
                IF Seat[i] = n /\ sg[q][i].st \in SignRunning THEN [sg[q][i] EXCEPT !.st = "failed"] ELSE sg[q][i]]]
    /\ evq' = [r \in Rounds |-> evq[r] \ SeatsOf(n)]
    /\ pendS' = [r \in Rounds |-> pendS[r] \ SeatsOf(n)]
    /\ pendE' = [q \in Reqs |-> pendE[q] \ SeatsOf(n)]
    /\ UNCHANGED <<cvars, sigs, shares, bad, dlv, rdl, swept, cur, arch, hon>>

\* a faulty node may die at any time, a correct one is only stopped when idle
Stop(n) == /\ stops < MaxStops /\ (n \in bad \/ NodeIdle(n)) /\ Kill(n)

\* Initialize: NewGroupRegistry + LoadExistingGroups (Registry!Restart with a readable storage)
Start(n) ==
    /\ ~up[n]
    /\ up' = [up EXCEPT ![n] = TRUE]
    /\ cache' = [cache EXCEPT ![n] = RegM(cur[n], arch[n], cache[n])!Loaded(cur[n], {})]
    /\ UNCHANGED <<cvars, mvars, bad, stops, ndkg, nrel, unreg, swept, cur, arch, pvars>>

\* node.ResumeSigningIfEligible: no deduplicator involved
Resume(n) ==
    /\ up[n] /\ ~resumed[n]
    /\ resumed' = [resumed EXCEPT ![n] = TRUE]
    /\ IF actQ # 0 /\ req[actQ].st = "open" /\ (IsInGroup(n, ReqKey(actQ)) \/ ~InGroupCheck)
          THEN Generate(n, actQ) ELSE UNCHANGED sg
    /\ UNCHANGED <<cvars, mvars, nid, ndkg, rdm, rdl, rconf, proc, mon, nreg, hon, mb>>

---------------------------------------------------------------------------
\* named top-level disjuncts (coverage)
DoStartDkg      == \E r \in Rounds : StartDkg(r)
DoDeliverDkg    == \E n \in Nodes, r \in Rounds : DeliverDkg(n, r)
DoJoinDkg       == \E n \in Nodes, r \in Rounds : JoinDkg(n, r)
GjkrDoneAny(r, i) == \E o \in Outcomes(r, i), lost \in BOOLEAN : GjkrDone(r, i, o, lost)
DoGjkrDone      == \E r \in Rounds, i \in Members : GjkrDoneAny(r, i)
EquivocateAny(r, i) == \E o \in Views(i) : Equivocate(r, i, o)
DoEquivocate    == \E r \in Rounds, i \in Members : EquivocateAny(r, i)
VerifyAny(r, i) == \E D \in SUBSET {s \in sigs[r] : s.from # i} : Verify(r, i, D)
DoVerify        == \E r \in Rounds, i \in Members : VerifyAny(r, i)
DoSubmitDkg     == \E r \in Rounds, i \in Members : SubmitDkg(r, i)
DoObserveDkg    == \E r \in Rounds, i \in Members : ObserveDkg(r, i)
DoFateEvent     == \E r \in Rounds, i \in Members : FateEvent(r, i)
DoFateTimeout   == \E r \in Rounds, i \in Members : FateTimeout(r, i)
DoRegister      == \E r \in Rounds, i \in Members : Register(r, i)
\* the previous entry of a request: a new one, or -- after a timeout -- the old one again
PrevNames == <<"e1", "e2", "e3", "e4", "e5", "e6">>
PrevOf(q) == IF q > 1 /\ req[q - 1].st = "timedout" THEN req[q - 1].prev ELSE PrevNames[q]
RequestAny(q) == \E r \in Rounds, e \in 0..(N - 1) : RequestRelay(q, r, e, PrevOf(q))
DoRequestRelay  == \E q \in Reqs : RequestAny(q)
DoConfirmRelay  == \E n \in Nodes, q \in Reqs : ConfirmRelay(n, q)
DoDedupRelay    == \E n \in Nodes, q \in Reqs : DedupRelay(n, q)
DoSendShare     == \E q \in Reqs, i \in Members, lost \in BOOLEAN : SendShare(q, i, lost)
AcceptAny(q, i) == \E s \in shares[q] : AcceptShare(q, i, s)
DoAcceptShare   == \E q \in Reqs, i \in Members : AcceptAny(q, i)
DoCompleteAlone == \E q \in Reqs, i \in Members : CompleteAlone(q, i)
DoSubmitEntry   == \E q \in Reqs, i \in Members : SubmitEntry(q, i)
DoObserveEntry  == \E q \in Reqs, i \in Members : ObserveEntry(q, i)
DoRelayTimeout  == \E q \in Reqs, i \in Members : RelayTimeout(q, i)
DoReportTimeout == \E n \in Nodes, q \in Reqs : ReportTimeout(n, q)
DoMarkStale     == \E r \in Rounds : MarkStale(r)
DoDeliverGroupRegistered == \E n \in Nodes, r \in Rounds : DeliverGroupRegistered(n, r)
DoArchiveOne    == \E n \in Nodes, k \in KeyIxs : ArchiveOne(n, k)
DoSweepDone     == \E n \in Nodes : SweepDone(n)
DoStop          == \E n \in Nodes : Stop(n)
DoStart         == \E n \in Nodes : Start(n)
DoResume        == \E n \in Nodes : Resume(n)

MemberNext(i) ==
    \/ \E r \in Rounds : GjkrDoneAny(r, i) \/ VerifyAny(r, i) \/ SubmitDkg(r, i)
                          \/ ObserveDkg(r, i) \/ FateEvent(r, i) \/ FateTimeout(r, i) \/ Register(r, i)
    \/ \E q \in Reqs : SendShare(q, i, FALSE) \/ AcceptAny(q, i) \/ CompleteAlone(q, i) \/ SubmitEntry(q, i)
                          \/ ObserveEntry(q, i) \/ RelayTimeout(q, i)
NodeNext(n) ==
    \/ \E r \in Rounds : JoinDkg(n, r)
    \/ \E q \in Reqs : DedupRelay(n, q)
    \/ Start(n) \/ Resume(n) \/ SweepDone(n)
    \/ \E k \in KeyIxs : ArchiveOne(n, k)
FirstDelivery(n) ==
    \/ \E r \in Rounds : dlv[n][r] = 0 /\ DeliverDkg(n, r)
    \/ \E q \in Reqs : rdl[n][q] = 0 /\ ConfirmRelay(n, q)

Next ==
    \/ DoStartDkg \/ AdvanceDkg \/ CloseDkg \/ DoDeliverDkg \/ DoJoinDkg
    \/ DoGjkrDone \/ DoEquivocate \/ DoVerify \/ DoSubmitDkg \/ DoObserveDkg
    \/ DoFateEvent \/ DoFateTimeout \/ DoRegister
    \/ DoRequestRelay \/ AdvanceRelay \/ CloseRelay \/ DoConfirmRelay \/ DoDedupRelay
    \/ DoSendShare \/ DoAcceptShare \/ DoCompleteAlone \/ DoSubmitEntry \/ DoObserveEntry
    \/ DoRelayTimeout \/ DoReportTimeout
    \/ DoMarkStale \/ DoDeliverGroupRegistered \/ DoArchiveOne \/ DoSweepDone
    \/ DoStop \/ DoStart \/ DoResume

Spec == Init /\ [][Next]_vars

\* fairness: members and nodes take their steps, first deliveries happen,
\* blocks are mined, requests are eventually closed
FairSpec ==
    /\ Spec
    /\ \A i \in Members : WF_vars(MemberNext(i))
    /\ \A n \in Nodes : WF_vars(NodeNext(n)) /\ WF_vars(FirstDelivery(n))
    /\ WF_vars(AdvanceDkg) /\ WF_vars(AdvanceRelay) /\ WF_vars(CloseDkg) /\ WF_vars(CloseRelay)

---------------------------------------------------------------------------
(* Invariants                                                              *)

TypeOK ==
    /\ \A r \in Rounds : dkg[r].st \in {"none", "open", "accepted", "closed"}
    /\ \A q \in Reqs : req[q].st \in {"none", "open", "done", "timedout"}
    /\ actR \in {0} \cup Rounds /\ actQ \in {0} \cup Reqs /\ dslot \in 0..N /\ rslot \in 0..N
    /\ \A r \in Rounds, i \in Members :
          mb[r][i].st \in {"idle", "gjkr", "signed", "ready", "pubfail", "keep", "registered", "out"}
    /\ \A q \in Reqs, i \in Members :
          sg[q][i].st \in {"idle", "collect", "waitslot", "monitor", "left", "timedout", "failed"}

\* --- system-level invariants -------------------------------------------

\* (S1) A node produces a signature share for a relay request only with a
\* membership it registered (persisted) for the group the chain accepted for
\* that round: same key as on chain, and the chain does not list the member
\* as misbehaved.
Held(n, k, i) == i \in cur[n][k] \cup arch[n][k]
SignsOnlyAcceptedGroup ==
    \A q \in Reqs, i \in Members :
        sg[q][i].st # "idle" =>
            LET r == req[q].rd IN
            /\ dkg[r].st = "accepted"
            /\ sg[q][i].kix = ChainKey(r)
            /\ Held(Seat[i], sg[q][i].kix, i)
            /\ i \notin dkg[r].mis
            /\ mb[r][i].key = dkg[r].key

\* (S2) at most one DKG execution per seed per node (and process lifetime)
OneDkgPerSeed == \A n \in Nodes, r \in Rounds : joins[n][r] <= 1

\* (S3) the node can sign for exactly what it registered and did not archive:
\* after a restart every persisted membership is back, no archived one is
RegistryIsStorage ==
    \A n \in Nodes : up[n] =>
        /\ RegM(cur[n], arch[n], cache[n])!CacheIsStorage
        /\ RegM(cur[n], arch[n], cache[n])!ExactAfterCleanRestart
        /\ RegM(cur[n], arch[n], cache[n])!NoDuplicates
ArchivedNeverLoaded ==
    \A n \in Nodes, k \in KeyIxs : SeqRange(cache[n][k]) \cap (arch[n][k] \ cur[n][k]) = {}

\* (S4) every entry a correct member hands to the chain verifies under the
\* group key the chain accepted, and so does the accepted one
EntryVerifies ==
    /\ \A q \in Reqs : req[q].st = "done" => EntryValid(q, req[q].by)
    /\ \A q \in Reqs, i \in HonestMembers : sg[q][i].st \in {"waitslot", "monitor"} => EntryValid(q, i)

\* (S5) a member keeps a membership only as the chain decided: same key, not
\* listed -- whether its own publication succeeded or not
KeepOnlyAsChainDecided ==
    \A r \in Rounds, i \in Members :
        mb[r][i].st \in {"keep", "registered"} =>
            /\ dkg[r].st = "accepted"
            /\ mb[r][i].key = dkg[r].key
            /\ i \notin dkg[r].mis
\* ... and a correct member's operator list is the chain's
OperatorsAsChainDecided ==
    \A r \in Rounds, i \in HonestMembers :
        (mb[r][i].st \in {"keep", "registered"} /\ ~mb[r][i].late) => mb[r][i].ops = Members \ dkg[r].mis

\* (S6) what the chain accepts is what the correct members computed; no
\* correct member is punished
AcceptedIsHonestView ==
    \A r \in Rounds : (dkg[r].st = "accepted" /\ HonestMembers # {}) =>
        /\ dkg[r].key = "a" /\ dkg[r].mis = hon[r].mis
        /\ dkg[r].mis \cap {i \in HonestMembers : mb[r][i].st # "idle" /\ ~mb[r][i].late} = {}

\* (S7) support gate (C13) and single submission
SubmitGate == \A r \in Rounds, i \in Members : mb[r][i].nsub > 0 => Cardinality(mb[r][i].sup) >= Gate
AtMostOneSubmission ==
    /\ \A r \in Rounds, i \in Members : mb[r][i].nsub <= (IF LeaveOnSeen THEN 1 ELSE 2)
    /\ \A q \in Reqs, i \in Members : sg[q][i].nsub <= 1

\* (S8) only verified shares of the same group are combined (C03)
OnlyVerifiedShares ==
    \A q \in Reqs, i \in Members : \A j \in sg[q][i].got \ {i} :
        /\ sg[q][j].kix = sg[q][i].kix /\ sg[q][j].sent
        /\ j \in KnownTo(q, i)

\* (S9) relay requests pass the deduplicator in order, each at most once per lifetime (C06)
RelayInOrder ==
    \A n \in Nodes : \A x, y \in DOMAIN proc[n] : x < y => proc[n][x] < proc[n][y]
\* at most one event-triggered and one resume-triggered signing per membership and request
SigningStartsBounded == \A q \in Reqs, i \in Members : sg[q][i].starts <= 2

\* (S10) a request never times out while enough correct members could sign
EnoughHonest(q) == req[q].quorum
NoTimeoutWithQuorum ==
    Prompt => \A q \in Reqs : req[q].st = "timedout" => ~EnoughHonest(q)

\* action properties -------------------------------------------------------

\* (S11) no submission after observing someone else's (C47 3b) -- DKG result and relay entry
NoSubmitAfterObserveStep ==
    /\ \A r \in Rounds, i \in Members : mb[r][i].obs => mb'[r][i].nsub = mb[r][i].nsub
    /\ \A q \in Reqs, i \in Members : sg[q][i].obs => sg'[q][i].nsub = sg[q][i].nsub
NoSubmitAfterObserve == [][NoSubmitAfterObserveStep]_vars

\* (S12) nobody submits before its slot (C47 3a)
NoSubmitBeforeSlotStep ==
    /\ \A r \in Rounds, i \in Members : mb'[r][i].nsub > mb[r][i].nsub => dslot >= DkgSlot(i)
    /\ \A q \in Reqs, i \in Members : sg'[q][i].nsub > sg[q][i].nsub => rslot >= RelaySlot(i, req[q].e)
NoSubmitBeforeSlot == [][NoSubmitBeforeSlotStep]_vars

\* (S13) signing starts only with a membership that is in the storage at that moment
SigningNeedsStoredMembershipStep ==
    \A q \in Reqs, i \in Members :
        (sg[q][i].st = "idle" /\ sg'[q][i].st # "idle") => i \in cur[Seat[i]][sg'[q][i].kix]
SigningNeedsStoredMembership == [][SigningNeedsStoredMembershipStep]_vars

\* (S14) the map only ever shows what reached storage first (Registry!WriteAhead), nothing is lost
StorageFirstStep ==
    \A n \in Nodes, k \in KeyIxs :
        /\ SeqRange(cache'[n][k]) \subseteq cur'[n][k]
        /\ (cur[n][k] \cup arch[n][k]) \subseteq (cur'[n][k] \cup arch'[n][k])
StorageFirst == [][StorageFirstStep]_vars

\* liveness under fairness ---------------------------------------------------

\* (L1) an accepted DKG result followed by a relay request yields a submitted
\* entry (before the timeout) when at least H correct members hold the group
EntryWhenQuorum ==
    \A q \in Reqs : (req[q].st = "open" /\ EnoughHonest(q)) ~> (req[q].st = "done")
\* (L2) a round with a correct quorum ends with an accepted result
ResultWhenQuorum ==
    \A r \in Rounds : (dkg[r].st = "open" /\ hon[r].ok /\ Cardinality(HonestMembers) >= Gate) ~> (dkg[r].st = "accepted")
=============================================================================
