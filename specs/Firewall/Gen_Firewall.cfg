SPECIFICATION GSpec
CONSTANTS
  Peers = {"a", "b", "c"}
  NApps = 2
  PosPeriod = 3
  NegPeriod = 1
  MaxClock = 7
  MaxCalls = 12
  Variant = "code"
  MaxSteps = 16
INVARIANTS Emit GenInvariants
