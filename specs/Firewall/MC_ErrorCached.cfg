SPECIFICATION Spec
CONSTANTS
  Peers = {"a"}
  NApps = 2
  PosPeriod = 3
  NegPeriod = 1
  MaxClock = 3
  MaxCalls = 3
  Variant = "errorCached"
INVARIANTS CachesBacked CachedRejectJustified
