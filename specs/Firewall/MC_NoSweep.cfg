SPECIFICATION Spec
CONSTANTS
  Peers = {"a"}
  NApps = 1
  PosPeriod = 3
  NegPeriod = 1
  MaxClock = 5
  MaxCalls = 3
  Variant = "noSweep"
INVARIANTS AdmitJustified CachedRejectJustified
