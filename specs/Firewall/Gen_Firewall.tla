---------------------------- MODULE Gen_Firewall ----------------------------
(* Behaviour generation for the replay of Firewall on the real               *)
(* anyApplicationPolicy (pkg/firewall). Each emitted document is             *)
(*   [allow, posPeriod, negPeriod, napps, steps]                             *)
(*   steps[i] = [a |-> "Tick"] or                                            *)
(*              [a |-> "Validate", p, ans, res, src, asked, pos, neg]        *)
(* where res/src/asked are what the specification returns for the call and   *)
(* pos/neg the peers held by the two caches after it.                        *)
EXTENDS Firewall, TLC, Json, CSV, IOUtils

CONSTANT MaxSteps
VARIABLE hist
gvars == <<vars, hist>>

GInit == Init /\ hist = <<>>

GTick == Tick /\ hist' = Append(hist, [a |-> "Tick"])
GValidate ==
    \E p \in Peers, ans \in Answers :
        /\ Validate(p, ans)
        /\ hist' = Append(hist, [a |-> "Validate", p |-> p, ans |-> ans, res |-> last'.res, src |-> last'.src,
                                 asked |-> last'.asked,
                                 pos |-> {q \in Peers : pos'[q] # None}, neg |-> {q \in Peers : neg'[q] # None}])

Stop == Len(hist) >= MaxSteps
\* simulation picks uniformly among successors, and a call has 27 of them for
\* every Tick: every third step is a Tick so that caching periods do elapse
GNext == /\ ~Stop
         /\ IF Len(hist) % 3 = 2 /\ clock < MaxClock THEN GTick ELSE (GTick \/ GValidate)
GSpec == GInit /\ [][GNext]_gvars

Emit == (Stop \/ ~ENABLED GNext) =>
    CSVWrite("%1$s", <<ToJson([allow |-> allow, posPeriod |-> PosPeriod, negPeriod |-> NegPeriod,
                                napps |-> NApps, steps |-> hist])>>, "behaviours.ndjson")
GenInvariants == AdmitJustified /\ CachedRejectJustified /\ EvalRejectJustified /\ ErrorNeverAdmits
                 /\ CachesBacked /\ ExactVerdict /\ CachesDisjoint
=============================================================================
