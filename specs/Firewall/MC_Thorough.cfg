SPECIFICATION Spec
CONSTANTS
  Peers = {"a", "b"}
  NApps = 2
  PosPeriod = 3
  NegPeriod = 1
  MaxClock = 5
  MaxCalls = 6
  Variant = "code"
INVARIANTS TypeOK AdmitJustified CachedRejectJustified EvalRejectJustified ErrorNeverAdmits CachesBacked ExactVerdict CachesDisjoint AllowlistedNotCached
PROPERTIES ErrorLeavesNoTrace
