------------------------------ MODULE Firewall ------------------------------
(***************************************************************************)
(* Admission policy of pkg/firewall/firewall.go:                           *)
(* anyApplicationPolicy.Validate with its allowlist, the positive and the  *)
(* negative result cache (keep-common cache.TimeCache) and the             *)
(* applications' IsRecognized answers.                                     *)
(*                                                                         *)
(* Validate(p, ans) mirrors the function statement by statement; ans[i] is *)
(* what application i answers if it is asked during this call:             *)
(*   1. allowList.Contains(p)            -> admit, nothing else happens    *)
(*   2. positiveResultCache.Sweep(); negativeResultCache.Sweep()           *)
(*   3. positiveResultCache.Has(p)       -> admit                          *)
(*   4. negativeResultCache.Has(p)       -> errNotRecognized               *)
(*   5. applications in order: the first error aborts (wrapped error, no   *)
(*      cache entry), the first "yes" stops the loop                       *)
(*   6. nobody said yes: negativeResultCache.Add(p), errNotRecognized      *)
(*   7. otherwise       positiveResultCache.Add(p), admit                  *)
(* TimeCache: Add stamps the entry with the current time (and sweeps the   *)
(* cache it adds to); Sweep removes the entries with now - stamp > period. *)
(* Time is a counter of ticks; the harness runs a tick as a real interval  *)
(* and only observes well inside it.                                       *)
(***************************************************************************)
EXTENDS Integers, Sequences, FiniteSets

CONSTANTS Peers,       \* remote peers
          NApps,       \* number of applications
          PosPeriod,   \* positive caching period (ticks)
          NegPeriod,   \* negative caching period (ticks)
          MaxClock,
          MaxCalls,
          Variant      \* "code" = firewall.go as written; "errorCached" / "noSweep" are
                       \* deliberately wrong variants that must violate the invariants

Apps == 1..NApps
Answers == [Apps -> {"yes", "no", "err"}]
None == -1

VARIABLES clock,
          allow,     \* SUBSET Peers, fixed for a behaviour
          pos, neg,  \* [Peers -> Int]: stamp of the cache entry, None if absent
          calls,     \* number of Validate calls so far
          last,      \* the last call: [p, ans, res, src, asked, at]
          yesAt,     \* [Peers -> Int]: time of the last evaluation of p in which an application said yes
          noAt       \* [Peers -> Int]: time of the last complete evaluation of p in which every application said no

vars == <<clock, allow, pos, neg, calls, last, yesAt, noAt>>

NoCall == [p |-> "none", ans |-> <<>>, res |-> "none", src |-> "none", asked |-> 0, at |-> 0]

Init ==
    /\ clock = 0
    /\ allow \in SUBSET Peers
    /\ pos = [p \in Peers |-> None] /\ neg = [p \in Peers |-> None]
    /\ calls = 0 /\ last = NoCall
    /\ yesAt = [p \in Peers |-> None] /\ noAt = [p \in Peers |-> None]

Tick == /\ clock < MaxClock
        /\ clock' = clock + 1
        /\ UNCHANGED <<allow, pos, neg, calls, last, yesAt, noAt>>

\* TimeCache.sweep
Sweep(c, period) ==
    IF Variant = "noSweep" THEN c
    ELSE [p \in Peers |-> IF c[p] # None /\ clock - c[p] > period THEN None ELSE c[p]]

\* the application loop: index of the first application that does not say "no" (NApps + 1 if all do)
FirstDecisive(ans) ==
    IF \E i \in Apps : ans[i] # "no" THEN CHOOSE i \in Apps : ans[i] # "no" /\ \A j \in 1..(i - 1) : ans[j] = "no"
    ELSE NApps + 1

Validate(p, ans) ==
    /\ calls < MaxCalls
    /\ calls' = calls + 1
    /\ UNCHANGED <<clock, allow>>
    /\ IF p \in allow
          THEN /\ last' = [p |-> p, ans |-> ans, res |-> "admit", src |-> "allowlist", asked |-> 0, at |-> clock]
               /\ UNCHANGED <<pos, neg, yesAt, noAt>>
          ELSE LET sp == Sweep(pos, PosPeriod)
                   sn == Sweep(neg, NegPeriod)
                   k  == FirstDecisive(ans)
               IN
               IF sp[p] # None
                  THEN /\ last' = [p |-> p, ans |-> ans, res |-> "admit", src |-> "poscache", asked |-> 0, at |-> clock]
                       /\ pos' = sp /\ neg' = sn /\ UNCHANGED <<yesAt, noAt>>
               ELSE IF sn[p] # None
                  THEN /\ last' = [p |-> p, ans |-> ans, res |-> "reject", src |-> "negcache", asked |-> 0, at |-> clock]
                       /\ pos' = sp /\ neg' = sn /\ UNCHANGED <<yesAt, noAt>>
               ELSE IF k = NApps + 1
                  THEN /\ last' = [p |-> p, ans |-> ans, res |-> "reject", src |-> "eval", asked |-> NApps, at |-> clock]
                       /\ pos' = sp /\ neg' = [sn EXCEPT ![p] = clock]
                       /\ noAt' = [noAt EXCEPT ![p] = clock] /\ UNCHANGED yesAt
               ELSE IF ans[k] = "err"
                  THEN /\ last' = [p |-> p, ans |-> ans, res |-> "error", src |-> "eval", asked |-> k, at |-> clock]
                       /\ pos' = sp
                       /\ neg' = IF Variant = "errorCached" THEN [sn EXCEPT ![p] = clock] ELSE sn
                       /\ UNCHANGED <<yesAt, noAt>>
               ELSE    /\ last' = [p |-> p, ans |-> ans, res |-> "admit", src |-> "eval", asked |-> k, at |-> clock]
                       /\ pos' = [sp EXCEPT ![p] = clock] /\ neg' = sn
                       /\ yesAt' = [yesAt EXCEPT ![p] = clock] /\ UNCHANGED noAt

DoValidate == \E p \in Peers, ans \in Answers : Validate(p, ans)

Next == Tick \/ DoValidate
Spec == Init /\ [][Next]_vars

---------------------------------------------------------------------------
TypeOK ==
    /\ clock \in 0..MaxClock /\ allow \subseteq Peers
    /\ \A p \in Peers : pos[p] \in {None} \cup 0..MaxClock /\ neg[p] \in {None} \cup 0..MaxClock
    /\ last.res \in {"none", "admit", "reject", "error"}

SomeYesBeforeError(ans) == \E i \in Apps : ans[i] = "yes" /\ \A j \in 1..(i - 1) : ans[j] = "no"

\* C21: an admitted peer is allowlisted, or was recognized by an application
\* within the positive caching period, or is recognized in this very call.
AdmitJustified ==
    last.res = "admit" =>
        \/ last.p \in allow
        \/ last.src = "poscache" /\ yesAt[last.p] # None /\ last.at - yesAt[last.p] <= PosPeriod
        \/ last.src = "eval" /\ SomeYesBeforeError(last.ans) /\ yesAt[last.p] = last.at

\* C21: a rejection without asking is backed by a complete round of "no"
\* answers within the negative caching period.
CachedRejectJustified ==
    (last.res = "reject" /\ last.src = "negcache") =>
        noAt[last.p] # None /\ last.at - noAt[last.p] <= NegPeriod

\* C21: a rejection after asking means every application said no, now.
EvalRejectJustified ==
    (last.res = "reject" /\ last.src = "eval") =>
        (\A i \in Apps : last.ans[i] = "no") /\ last.p \notin allow

\* C21: a failed recognition check never admits and is not remembered: cache
\* entries only ever come from a "yes" (positive) or a complete "no" round (negative)
ErrorNeverAdmits == last.res = "error" => last.p \notin allow /\ ~SomeYesBeforeError(last.ans)
CachesBacked ==
    \A p \in Peers : /\ pos[p] # None => yesAt[p] = pos[p]
                     /\ neg[p] # None => noAt[p] = neg[p]
ErrorLeavesNoTrace ==
    [][(calls' = calls + 1 /\ last'.res = "error") =>
          /\ pos' = Sweep(pos, PosPeriod) /\ neg' = Sweep(neg, NegPeriod)
          /\ yesAt' = yesAt /\ noAt' = noAt]_vars

\* C21 ("if and only if"): the verdict is exactly the one the rules give
ExactVerdict ==
    last.res # "none" =>
        LET p == last.p IN
        (last.res = "admit") <=>
            \/ p \in allow
            \/ last.src = "poscache"
            \/ last.src = "eval" /\ SomeYesBeforeError(last.ans)

\* the two caches never hold the same peer; allowlisted peers never enter a cache
CachesDisjoint == \A p \in Peers : ~(pos[p] # None /\ neg[p] # None)
AllowlistedNotCached == \A p \in allow : pos[p] = None /\ neg[p] = None
=============================================================================
