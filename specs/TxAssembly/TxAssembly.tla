------------------------------ MODULE TxAssembly ------------------------------
(***************************************************************************)
(* Integer model of the four Bitcoin transaction assemblers of the tBTC    *)
(* wallet (/repo/pkg/tbtc):                                                *)
(*                                                                         *)
(*   assembleDepositSweepTransaction      deposit_sweep.go                 *)
(*   assembleRedemptionTransaction        redemption.go                    *)
(*     + withRedemptionTotalFee           redemption.go                    *)
(*   assembleMovingFundsTransaction       moving_funds.go                  *)
(*   assembleMovedFundsSweepUtxo /                                         *)
(*   assembleMovedFundsSweepTransaction   moved_funds_sweep.go             *)
(*                                                                         *)
(* on top of bitcoin.TransactionBuilder (pkg/bitcoin/transaction_builder.go*)
(* AddPublicKeyHashInput / AddScriptHashInput / AddOutput /                *)
(* TotalInputsValue).  A transaction is                                    *)
(*    inputs  : sequence of references (0 = wallet main UTXO, i = item i)  *)
(*    outputs : sequence of [script label, value]                          *)
(* Script labels: "wallet" = P2WPKH of the wallet's own public key,        *)
(* otherwise the label of the redeemer script / target wallet of an item.  *)
(*                                                                         *)
(* The assemblers are deterministic functions of their arguments, so the   *)
(* module enumerates the argument space in Init; one named action per      *)
(* assembler computes the result the code must produce (including which    *)
(* documented error is returned first).  The invariants state the          *)
(* property (C26) declaratively about that result.                         *)
(***************************************************************************)
EXTENDS Integers, Sequences, FiniteSets

CONSTANTS
    MaxK,           \* max number of deposits / requests / target wallets
    MainVals,       \* values of the wallet main UTXO
    DepVals,        \* values of deposit UTXOs and of the moved-funds UTXO
    ReqVals,        \* requested amounts of redemption requests
    TreasVals,      \* treasury fees of redemption requests
    Fees,           \* proposed total transaction fees
    Shapes,         \* subset of {"default", "first", "last"}: redemption change position; "default" =
                    \* the configuration of the production action (newRedemptionAction: ChangeFirst)
    DepKindPatterns,\* sequences (length MaxK) of deposit funding-output kinds
    LabelPatterns   \* sequences (length MaxK) of redeemer-script / target-wallet labels

\* kinds of the output a UTXO reference points at
MainGood   == {"p2pkh", "p2wpkh"}          \* AddPublicKeyHashInput accepts
DepGood    == {"p2sh", "p2wsh", "p2sh+x", "p2wsh+x"}  \* AddScriptHashInput accepts (+x: deposit script with extra data)
\* "wrongclass": the referenced output has another script class;
\* "unknown": the funding transaction is not known to the Bitcoin chain;
\* "badscript": Deposit.Script() fails (malformed depositor address)
BadRef     == {"wrongclass", "unknown"}

NoMain == [kind |-> "none", value |-> 0]
AnyMainVal == CHOOSE v \in MainVals : TRUE
Mains == {NoMain} \cup [kind : MainGood, value : MainVals] \cup [kind : BadRef, value : {AnyMainVal}]

Item(v, a, l) == [value |-> v, aux |-> a, label |-> l]

DepositLists ==
    UNION { { [i \in 1..k |-> Item(vs[i], 0, p[i])] : vs \in [1..k -> DepVals], p \in DepKindPatterns } : k \in 0..MaxK }
RequestLists ==
    UNION { { [i \in 1..k |-> Item(vs[i], ts[i], p[i])] : vs \in [1..k -> ReqVals], ts \in [1..k -> TreasVals], p \in LabelPatterns } : k \in 0..MaxK }
TargetLists ==
    UNION { { [i \in 1..k |-> Item(0, 0, p[i])] : p \in LabelPatterns } : k \in 0..MaxK }
MovedLists ==
    {<<>>} \cup { <<Item(v, 0, kd)>> : v \in DepVals, kd \in MainGood }
           \cup { <<Item(AnyMainVal, 0, kd)>> : kd \in BadRef }

Inputs ==
    [kind : {"sweep"}, main : Mains, items : DepositLists, fee : Fees, shape : {"default"}]
    \cup [kind : {"redemption"}, main : Mains, items : RequestLists, fee : Fees, shape : Shapes]
    \cup [kind : {"movingFunds"}, main : Mains, items : TargetLists, fee : Fees, shape : {"default"}]
    \cup [kind : {"movedFundsSweep"}, main : Mains, items : MovedLists, fee : Fees, shape : {"default"}]

VARIABLES in, res, done
vars == <<in, res, done>>

---------------------------------------------------------------------------
\* helpers

RECURSIVE SumUpTo(_, _)
SumUpTo(f, n) == IF n = 0 THEN 0 ELSE f[n] + SumUpTo(f, n - 1)
Sum(s) == SumUpTo(s, Len(s))

Min(S) == CHOOSE x \in S : \A y \in S : x <= y

\* Go's % and / truncate towards zero (int64)
GoRem(a, b) == IF a >= 0 THEN a % b ELSE 0 - ((0 - a) % b)
GoDiv(a, b) == (a - GoRem(a, b)) \div b

HasMain(i) == i.main.kind \in MainGood
RefValue(i, r) == IF r = 0 THEN i.main.value ELSE i.items[r].value
Out(s, v) == [script |-> s, value |-> v]

Ok(ins, outs, shares) == [err |-> "", errIdx |-> 0 - 1, inputs |-> ins, outputs |-> outs, shares |-> shares]
Err(e, idx)           == [err |-> e, errIdx |-> idx, inputs |-> <<>>, outputs |-> <<>>, shares |-> <<>>]

InputsValue(i, ins) == Sum([n \in 1..Len(ins) |-> RefValue(i, ins[n])])
OutputsValue(outs)  == Sum([n \in 1..Len(outs) |-> outs[n].value])

---------------------------------------------------------------------------
\* assembleDepositSweepTransaction: optional main UTXO first, then the deposits in
\* proposal order; one P2WPKH output to the wallet worth (sum of inputs - fee).  The
\* fee is "not validated in any way": an excessive fee gives a negative output value.
BadDeposit(d) == d.label \in BadRef \cup {"badscript"}
SweepResult(i) ==
    LET k == Len(i.items) IN
    IF k < 1 THEN Err("noDeposits", 0 - 1)
    ELSE IF i.main.kind \in BadRef THEN Err("mainInput", 0 - 1)
    ELSE LET bad == {n \in 1..k : BadDeposit(i.items[n])} IN
         IF bad # {} THEN
             LET n == Min(bad) IN
             Err(IF i.items[n].label = "badscript" THEN "depositScript" ELSE "depositInput", n - 1)
         ELSE
             LET ins == (IF HasMain(i) THEN <<0>> ELSE <<>>) \o [n \in 1..k |-> n] IN
             Ok(ins, <<Out("wallet", InputsValue(i, ins) - i.fee)>>, <<>>)

\* withRedemptionTotalFee: even split, remainder on the last request
FeeShares(fee, k) ==
    LET rem == GoRem(fee, k)
        per == GoDiv(fee, k)
    IN [n \in 1..k |-> IF n = k THEN per + rem ELSE per]

\* assembleRedemptionTransaction: the main UTXO is the only input; one output per request
\* (redeemer script, amount - treasury fee - fee share) in request order; a change output
\* to the wallet iff the change is positive, first for RedemptionChangeFirst (the default),
\* last for RedemptionChangeLast.
RedemptionResult(i) ==
    LET k == Len(i.items) IN
    IF i.main.kind = "none" THEN Err("noMain", 0 - 1)
    ELSE IF k < 1 THEN Err("noRequests", 0 - 1)
    ELSE IF i.main.kind \in BadRef THEN Err("mainInput", 0 - 1)
    ELSE
        LET shares == FeeShares(i.fee, k)
            outs   == [n \in 1..k |-> Out(i.items[n].label, i.items[n].value - i.items[n].aux - shares[n])]
            change == i.main.value - OutputsValue(outs) - Sum(shares)
            all    == IF change > 0
                      THEN IF i.shape = "last" THEN Append(outs, Out("wallet", change))
                                               ELSE <<Out("wallet", change)>> \o outs
                      ELSE outs
        IN Ok(<<0>>, all, shares)

\* assembleMovingFundsTransaction: the main UTXO is the only input; (value - fee) split
\* evenly over the target wallets in commitment order, the remainder on the last.
MovingFundsResult(i) ==
    LET k == Len(i.items) IN
    IF k < 1 THEN Err("noTargets", 0 - 1)
    ELSE IF i.main.kind = "none" THEN Err("noMain", 0 - 1)
    ELSE IF i.main.kind \in BadRef THEN Err("mainInput", 0 - 1)
    ELSE
        LET total == i.main.value - i.fee
            rem   == GoRem(total, k)
            per   == GoDiv(total, k)
        IN Ok(<<0>>, [n \in 1..k |-> Out(i.items[n].label, IF n = k THEN per + rem ELSE per)], <<>>)

\* assembleMovedFundsSweepUtxo + assembleMovedFundsSweepTransaction: the moved funds UTXO
\* (value read from the moving funds transaction on the Bitcoin chain) is the first input,
\* the main UTXO, if any, the second; one wallet output worth (sum of inputs - fee).
MovedFundsSweepResult(i) ==
    IF Len(i.items) < 1 THEN Err("noMoved", 0 - 1)
    ELSE IF i.items[1].label = "unknown" THEN Err("movedLookup", 0 - 1)
    ELSE IF i.items[1].label = "wrongclass" THEN Err("movedInput", 0 - 1)
    ELSE IF i.main.kind \in BadRef THEN Err("mainInput", 0 - 1)
    ELSE
        LET ins == <<1>> \o (IF HasMain(i) THEN <<0>> ELSE <<>>) IN
        Ok(ins, <<Out("wallet", InputsValue(i, ins) - i.fee)>>, <<>>)

Pending == [err |-> "pending", errIdx |-> 0 - 1, inputs |-> <<>>, outputs |-> <<>>, shares |-> <<>>]

Init == in \in Inputs /\ res = Pending /\ done = FALSE

\* one action per assembler (each is a single call of the Go function)
AssembleDepositSweep ==
    /\ ~done /\ in.kind = "sweep"
    /\ res' = SweepResult(in) /\ done' = TRUE /\ UNCHANGED in
AssembleRedemption ==
    /\ ~done /\ in.kind = "redemption"
    /\ res' = RedemptionResult(in) /\ done' = TRUE /\ UNCHANGED in
AssembleMovingFunds ==
    /\ ~done /\ in.kind = "movingFunds"
    /\ res' = MovingFundsResult(in) /\ done' = TRUE /\ UNCHANGED in
AssembleMovedFundsSweep ==
    /\ ~done /\ in.kind = "movedFundsSweep"
    /\ res' = MovedFundsSweepResult(in) /\ done' = TRUE /\ UNCHANGED in

Next == \/ AssembleDepositSweep
        \/ AssembleRedemption
        \/ AssembleMovingFunds
        \/ AssembleMovedFundsSweep

Spec == Init /\ [][Next]_vars

---------------------------------------------------------------------------
\* Invariants (C26).  They are stated about the result, independently of how the
\* *Result operators compute it.

Done   == done
Built  == done /\ res.err = ""
K      == Len(in.items)
InVal  == InputsValue(in, res.inputs)
OutVal == OutputsValue(res.outputs)

TypeOK ==
    /\ in \in Inputs
    /\ done => /\ res.err \in {"", "noDeposits", "mainInput", "depositScript", "depositInput", "noMain",
                               "noRequests", "noTargets", "noMoved", "movedLookup", "movedInput"}
               /\ \A n \in 1..Len(res.inputs) : res.inputs[n] \in 0..K

\* an assembler fails exactly when a documented precondition does not hold
ErrorsExactlyWhenDocumented ==
    done =>
      (res.err # "" <=>
         CASE in.kind = "sweep" ->
                  K = 0 \/ in.main.kind \in BadRef \/ \E n \in 1..K : BadDeposit(in.items[n])
           [] in.kind = "redemption" ->
                  K = 0 \/ ~HasMain(in)
           [] in.kind = "movingFunds" ->
                  K = 0 \/ ~HasMain(in)
           [] in.kind = "movedFundsSweep" ->
                  K = 0 \/ in.items[1].label \in BadRef \/ in.main.kind \in BadRef)

\* inputs are exactly the intended UTXOs, each once, in the intended order
InputsExact ==
    Built =>
      CASE in.kind = "sweep" ->
               res.inputs = (IF HasMain(in) THEN <<0>> ELSE <<>>) \o [n \in 1..K |-> n]
        [] in.kind = "movedFundsSweep" ->
               res.inputs = <<1>> \o (IF HasMain(in) THEN <<0>> ELSE <<>>)
        [] OTHER -> res.inputs = <<0>>

\* the transaction pays the proposed fee: sum(inputs) - sum(outputs) = fee.  A redemption
\* whose main UTXO cannot cover the redeemable amounts has no (negative) change output; it
\* then pays less than the proposed fee (the Bridge rejects such a proposal beforehand).
Funded ==
    in.kind = "redemption" =>
        in.main.value >= Sum([n \in 1..K |-> in.items[n].value - in.items[n].aux])
FeeConservation ==
    Built => IF Funded THEN InVal - OutVal = in.fee ELSE InVal - OutVal < in.fee

\* fee shares add up to the proposed fee; even split, remainder (< k) on the last
SharesSumToFee ==
    (Built /\ in.kind = "redemption") =>
        /\ Len(res.shares) = K
        /\ Sum(res.shares) = in.fee
        /\ \A n \in 1..K : res.shares[n] >= 0
        /\ \A n \in 1..(K - 1) : res.shares[n] = res.shares[1]
        /\ res.shares[K] - res.shares[1] \in 0..(K - 1)

IsChange(o) == o.script = "wallet"

\* only the intended scripts are paid, in the intended order
ScriptsIntended ==
    Built =>
      CASE in.kind \in {"sweep", "movedFundsSweep"} ->
               /\ Len(res.outputs) = 1
               /\ res.outputs[1].script = "wallet"
        [] in.kind = "movingFunds" ->
               /\ Len(res.outputs) = K
               /\ \A n \in 1..K : res.outputs[n].script = in.items[n].label
        [] in.kind = "redemption" ->
               LET hasChange == Len(res.outputs) = K + 1
                   off == IF hasChange /\ in.shape # "last" THEN 1 ELSE 0
               IN /\ Len(res.outputs) \in {K, K + 1}
                  /\ \A n \in 1..K : res.outputs[n + off].script = in.items[n].label
                  /\ hasChange => IsChange(res.outputs[IF in.shape = "last" THEN K + 1 ELSE 1])

\* each redeemer receives amount - treasury fee - its fee share
RedeemerAmounts ==
    (Built /\ in.kind = "redemption") =>
        LET off == IF Len(res.outputs) = K + 1 /\ in.shape # "last" THEN 1 ELSE 0 IN
        \A n \in 1..K : res.outputs[n + off].value = in.items[n].value - in.items[n].aux - res.shares[n]

\* a change output exists iff the change is positive (never a zero-value output), and it
\* returns everything that is left to the wallet
ChangeIffPositive ==
    (Built /\ in.kind = "redemption") =>
        LET change == in.main.value - Sum([n \in 1..K |-> in.items[n].value - in.items[n].aux]) IN
        /\ (Len(res.outputs) = K + 1) <=> (change > 0)
        /\ (change > 0) => res.outputs[IF in.shape = "last" THEN K + 1 ELSE 1].value = change

\* moving funds: even split with the remainder (< k) on the last target
EvenSplit ==
    (Built /\ in.kind = "movingFunds") =>
        /\ \A n \in 1..(K - 1) : res.outputs[n].value = res.outputs[1].value
        /\ (in.main.value >= in.fee) =>
               /\ res.outputs[K].value - res.outputs[1].value \in 0..(K - 1)
               /\ \A n \in 1..K : res.outputs[n].value >= 0

\* sweeps: everything but the fee goes back to the wallet
SweepKeepsFunds ==
    (Built /\ in.kind \in {"sweep", "movedFundsSweep"}) =>
        res.outputs[1].value =
            (IF HasMain(in) THEN in.main.value ELSE 0)
            + Sum([n \in 1..K |-> in.items[n].value]) - in.fee
=============================================================================
